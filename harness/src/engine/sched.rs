//! E4 — controlled scheduler over the hook shim (DESIGN Appendix B.2).
//!
//! The logical threads of an execution run the real namespace code as stackful coroutines
//! (corosensei) on the exploring OS thread, one at a time — the same cooperative serialisation a
//! baton over OS threads gives, without paying an OS context switch per scheduling point (measured
//! here: ~12 µs per futex wake-up, ~120 µs to start and stop two idle OS threads). Scheduling
//! points are the shard-lock acquisitions of the Shim back end (the only synchronisation the
//! subject performs), thread start and thread exit. Enabledness comes from a reader/writer lock
//! table that mirrors DashMap's lock: shared is granted when no writer holds the shard, exclusive
//! when nobody holds it (so a thread's own read guard blocks its own insert into that shard).
//! "No enabled thread while some thread is unfinished" is a deadlock. Choices are delegated to the
//! E2 chooser; switching away from a thread that could continue costs one preemption.

use super::choice::Chooser;
use corosensei::stack::DefaultStack;
use corosensei::{Coroutine, CoroutineResult, Yielder};
use libhaystack::verif_hooks::Scheduler;
use std::cell::{Cell, RefCell};
use std::collections::BTreeMap;

#[derive(Clone, Copy, Debug, PartialEq)]
enum Op {
    Start,
    Acquire(usize, bool),
}

#[derive(Default, Clone, Debug)]
struct LockState {
    readers: Vec<usize>,
    writer: Option<usize>,
}

#[derive(Clone, Debug)]
pub struct Event {
    pub tid: usize,
    pub lock: usize,
    pub exclusive: bool,
}

thread_local! {
    /// lock table of the execution running on this OS thread
    static TABLE: RefCell<BTreeMap<usize, LockState>> = const { RefCell::new(BTreeMap::new()) };
    /// logical thread currently running (usize::MAX: none — sequential code outside an execution)
    static CURRENT: Cell<usize> = const { Cell::new(usize::MAX) };
    /// the yielder of each logical thread of the running execution
    static YIELDERS: RefCell<Vec<*const Yielder<(), Op>>> = const { RefCell::new(Vec::new()) };
    static STACKS: RefCell<Vec<DefaultStack>> = const { RefCell::new(Vec::new()) };
}

/// the scheduler object handed to the hook: all state is per exploring OS thread
struct CoSched;
static COSCHED: CoSched = CoSched;

impl Scheduler for CoSched {
    fn acquire(&self, lock: usize, exclusive: bool) {
        let tid = CURRENT.with(|c| c.get());
        if tid == usize::MAX {
            // not inside a scheduled execution (sequential warm-up): uncontended
            return;
        }
        let y = YIELDERS.with(|y| y.borrow()[tid]);
        // hand the request to the scheduler loop; we are resumed once the lock is granted
        unsafe { (*y).suspend(Op::Acquire(lock, exclusive)) };
    }

    fn release(&self, lock: usize, exclusive: bool) {
        let tid = CURRENT.with(|c| c.get());
        if tid == usize::MAX {
            return;
        }
        TABLE.with(|t| {
            if let Some(l) = t.borrow_mut().get_mut(&lock) {
                if exclusive {
                    if l.writer == Some(tid) {
                        l.writer = None;
                    }
                } else if let Some(p) = l.readers.iter().position(|r| *r == tid) {
                    l.readers.remove(p);
                }
            }
        });
    }
}

pub struct Execution<T> {
    /// per thread: Ok(result) | Err(panic message); threads cut off by a deadlock report "aborted"
    pub results: Vec<Result<T, String>>,
    pub deadlock: Option<String>,
    pub events: Vec<Event>,
    pub preemptions: usize,
    pub blocked: usize,
}

fn grantable(op: Op) -> bool {
    match op {
        Op::Start => true,
        Op::Acquire(lock, exclusive) => TABLE.with(|t| match t.borrow().get(&lock) {
            None => true,
            Some(l) => {
                if exclusive {
                    l.writer.is_none() && l.readers.is_empty()
                } else {
                    l.writer.is_none()
                }
            }
        }),
    }
}

const STACK_SIZE: usize = 1 << 20;

/// Run the bodies as logical threads under the scheduler with the choices of `chooser`.
/// `setup` runs once on the exploring thread before the execution starts.
pub fn run_threads<T: 'static>(
    mut chooser: Chooser,
    bodies: Vec<Box<dyn FnOnce() -> T + Send>>,
    setup: std::sync::Arc<dyn Fn() + Send + Sync>,
) -> (Execution<T>, Chooser) {
    setup();
    let n = bodies.len();
    TABLE.with(|t| t.borrow_mut().clear());
    YIELDERS.with(|y| *y.borrow_mut() = vec![std::ptr::null(); n]);
    libhaystack::verif_hooks::install_scheduler(Some(&COSCHED));
    let mut coros: Vec<Option<Coroutine<(), Op, Result<T, String>, DefaultStack>>> = vec![];
    for (tid, body) in bodies.into_iter().enumerate() {
        let stack = STACKS.with(|s| s.borrow_mut().pop()).unwrap_or_else(|| DefaultStack::new(STACK_SIZE).expect("coroutine stack"));
        coros.push(Some(Coroutine::with_stack(stack, move |y: &Yielder<(), Op>, _: ()| {
            YIELDERS.with(|ys| ys.borrow_mut()[tid] = y as *const _);
            match crate::engine::guarded(body) {
                Ok(v) => Ok(v),
                Err(m) => Err(format!("panic: {m}")),
            }
        })));
    }
    let mut pending: Vec<Option<Op>> = vec![Some(Op::Start); n];
    let mut results: Vec<Option<Result<T, String>>> = (0..n).map(|_| None).collect();
    let mut events = vec![];
    let mut preemptions = 0;
    let mut blocked = 0;
    let mut deadlock = None;
    let mut cur = usize::MAX;
    loop {
        let enabled: Vec<usize> = (0..n).filter(|&t| pending[t].map_or(false, grantable)).collect();
        if enabled.is_empty() {
            if pending.iter().any(|p| p.is_some()) {
                let desc: Vec<String> = (0..n)
                    .filter_map(|t| match pending[t] {
                        Some(Op::Acquire(l, e)) => Some(TABLE.with(|tb| {
                            let tb = tb.borrow();
                            format!(
                                "T{t} waits for lock {l} ({}) held by readers {:?} writer {:?}",
                                if e { "exclusive" } else { "shared" },
                                tb.get(&l).map(|x| x.readers.clone()).unwrap_or_default(),
                                tb.get(&l).and_then(|x| x.writer)
                            )
                        })),
                        _ => None,
                    })
                    .collect();
                deadlock = Some(format!("deadlock: {}", desc.join("; ")));
            }
            break;
        }
        // canonical order: the thread that just ran first if it can continue, then ascending ids
        let cur_enabled = cur != usize::MAX && enabled.contains(&cur);
        let mut order: Vec<usize> = vec![];
        if cur_enabled {
            order.push(cur);
        }
        order.extend(enabled.iter().copied().filter(|t| *t != cur));
        if cur != usize::MAX && !cur_enabled && pending[cur].is_some() {
            blocked += 1;
        }
        let idx = if order.len() == 1 { 0 } else { chooser.choose_cost(order.len() as u32, if cur_enabled { 1 } else { 0 }) as usize };
        if idx != 0 && cur_enabled {
            preemptions += 1;
        }
        let chosen = order[idx];
        if let Some(Op::Acquire(lock, exclusive)) = pending[chosen] {
            TABLE.with(|t| {
                let mut t = t.borrow_mut();
                let l = t.entry(lock).or_default();
                if exclusive {
                    l.writer = Some(chosen);
                } else {
                    l.readers.push(chosen);
                }
            });
            events.push(Event { tid: chosen, lock, exclusive });
        }
        pending[chosen] = None;
        CURRENT.with(|c| c.set(chosen));
        cur = chosen;
        let r = coros[chosen].as_mut().expect("coroutine").resume(());
        CURRENT.with(|c| c.set(usize::MAX));
        match r {
            CoroutineResult::Yield(op) => pending[chosen] = Some(op),
            CoroutineResult::Return(res) => {
                results[chosen] = Some(res);
                let stack = coros[chosen].take().unwrap().into_stack();
                STACKS.with(|s| s.borrow_mut().push(stack));
            }
        }
    }
    // cut off the threads of a deadlocked execution: dropping a suspended coroutine unwinds it,
    // which releases its guards (harmless table updates)
    for (t, c) in coros.iter_mut().enumerate() {
        if let Some(co) = c.take() {
            CURRENT.with(|c| c.set(t));
            drop(co);
            CURRENT.with(|c| c.set(usize::MAX));
            results[t] = Some(Err("aborted".to_string()));
        }
    }
    YIELDERS.with(|y| y.borrow_mut().clear());
    libhaystack::verif_hooks::install_scheduler(None);
    let results = results.into_iter().map(|r| r.expect("result")).collect();
    (Execution { results, deadlock, events, preemptions, blocked }, chooser)
}
