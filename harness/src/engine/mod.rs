//! Shared plumbing: run context, per-worker statistics, parallel enumeration, evidence files,
//! known-findings handling, replay files, exit codes.
//!
//! Exit codes: 0 = held on everything explored (maybe with KNOWN-FINDING lines),
//!             1 = violation(s) not listed in known_findings.json,
//!             2 = machinery failure (never a verdict).

pub mod choice;
pub mod isolate;
pub mod sched;

use serde_json::{json, Map, Value as J};
use std::collections::hash_map::DefaultHasher;
use std::collections::{BTreeMap, BTreeSet, HashSet};
use std::hash::{Hash, Hasher};
use std::sync::atomic::{AtomicUsize, Ordering};
use std::sync::Mutex;
use std::time::Instant;

/// the working tree of the subject (data files, source harvesting); `/repo` unless VERIF_REPO says otherwise
pub fn repo_dir() -> String {
    std::env::var("VERIF_REPO").unwrap_or_else(|_| "/repo".to_string())
}

pub fn verif_dir() -> String {
    std::env::var("VERIF_DIR").unwrap_or_else(|_| "/verif".to_string())
}

#[derive(Clone, Copy, PartialEq, Eq, Debug)]
pub enum Tier {
    Quick,
    Thorough,
}

impl Tier {
    pub fn name(&self) -> &'static str {
        match self {
            Tier::Quick => "quick",
            Tier::Thorough => "thorough",
        }
    }
    pub fn pick<T>(&self, quick: T, thorough: T) -> T {
        match self {
            Tier::Quick => quick,
            Tier::Thorough => thorough,
        }
    }
}

pub fn machinery(msg: &str) -> ! {
    eprintln!("MACHINERY-ERROR: {msg}");
    println!("MACHINERY-ERROR: {msg}");
    std::process::exit(2)
}

pub fn hash_str(s: &str) -> u64 {
    let mut h = DefaultHasher::new();
    s.hash(&mut h);
    h.finish()
}

/// One failing case: a classification signature (used for known-finding matching and for
/// reporting one VIOLATION per distinct defect), a replay descriptor, a human detail line.
#[derive(Clone, Debug)]
pub struct Failure {
    pub sig: String,
    pub case: J,
    pub detail: String,
    /// smaller = simpler; the simplest failure of a signature is the one reported
    pub weight: usize,
}

/// Per-worker statistics, merged at the end of a run.
#[derive(Default)]
pub struct Local {
    pub evals: u64,
    pub nontrivial: HashSet<u64>,
    pub outcomes: BTreeSet<String>,
    pub samples: Vec<J>,
    pub fails: BTreeMap<String, Failure>,
    pub fail_count: u64,
    pub counters: BTreeMap<String, u64>,
    pub states: u64,
    pub transitions: u64,
    pub traces: u64,
}

impl Local {
    pub fn new() -> Self {
        Self::default()
    }
    pub fn eval(&mut self) {
        self.evals += 1;
    }
    pub fn nontrivial(&mut self, key: &str) {
        self.nontrivial.insert(hash_str(key));
    }
    pub fn outcome(&mut self, o: &str) {
        if self.outcomes.len() < 4096 && !self.outcomes.contains(o) {
            self.outcomes.insert(o.to_string());
        }
    }
    pub fn sample(&mut self, j: J) {
        if self.samples.len() < 3 {
            self.samples.push(j);
        }
    }
    pub fn count(&mut self, name: &str) {
        *self.counters.entry(name.to_string()).or_insert(0) += 1;
    }
    pub fn count_n(&mut self, name: &str, n: u64) {
        *self.counters.entry(name.to_string()).or_insert(0) += n;
    }
    pub fn fail(&mut self, sig: &str, case: J, detail: String) {
        self.fail_count += 1;
        let weight = case.to_string().len();
        match self.fails.get(sig) {
            Some(f) if f.weight <= weight => {}
            _ => {
                self.fails.insert(sig.to_string(), Failure { sig: sig.to_string(), case, detail, weight });
            }
        }
    }
    pub fn merge(&mut self, o: Local) {
        self.evals += o.evals;
        self.nontrivial.extend(o.nontrivial);
        for x in o.outcomes {
            if self.outcomes.len() < 4096 {
                self.outcomes.insert(x);
            }
        }
        for s in o.samples {
            if self.samples.len() < 6 {
                self.samples.push(s);
            }
        }
        for (k, f) in o.fails {
            match self.fails.get(&k) {
                Some(g) if g.weight <= f.weight => {}
                _ => {
                    self.fails.insert(k, f);
                }
            }
        }
        self.fail_count += o.fail_count;
        for (k, n) in o.counters {
            *self.counters.entry(k).or_insert(0) += n;
        }
        self.states += o.states;
        self.transitions += o.transitions;
        self.traces += o.traces;
    }
}

pub fn workers() -> usize {
    std::env::var("VERIF_WORKERS")
        .ok()
        .and_then(|s| s.parse().ok())
        .unwrap_or_else(|| std::thread::available_parallelism().map(|n| n.get()).unwrap_or(8))
        .max(1)
}

/// Run `f(i, local)` for every i in 0..n on all cores (dynamic distribution, deterministic set of
/// cases; the order of execution across workers does not influence any verdict or counter).
/// A panic inside `f` that escapes is a machinery error.
pub fn par_for<F>(n: usize, f: F) -> Local
where
    F: Fn(usize, &mut Local) + Sync,
{
    let next = AtomicUsize::new(0);
    let merged = Mutex::new(Local::new());
    let w = workers().min(n.max(1));
    std::thread::scope(|s| {
        for _ in 0..w {
            s.spawn(|| {
                let mut local = Local::new();
                loop {
                    let i = next.fetch_add(1, Ordering::Relaxed);
                    if i >= n {
                        break;
                    }
                    f(i, &mut local);
                }
                merged.lock().unwrap().merge(local);
            });
        }
    });
    merged.into_inner().unwrap()
}

/// As `par_for`, each worker thread with a big stack (for recursive subjects).
pub fn par_for_stack<F>(n: usize, stack: usize, f: F) -> Local
where
    F: Fn(usize, &mut Local) + Sync,
{
    let next = AtomicUsize::new(0);
    let merged = Mutex::new(Local::new());
    let w = workers().min(n.max(1));
    std::thread::scope(|s| {
        for _ in 0..w {
            std::thread::Builder::new()
                .stack_size(stack)
                .spawn_scoped(s, || {
                    let mut local = Local::new();
                    loop {
                        let i = next.fetch_add(1, Ordering::Relaxed);
                        if i >= n {
                            break;
                        }
                        f(i, &mut local);
                    }
                    merged.lock().unwrap().merge(local);
                })
                .expect("spawn");
        }
    });
    merged.into_inner().unwrap()
}

/// Silence the default panic message for panics we catch on purpose (subject panics are
/// recorded as failures with their message; printing 10^5 backtraces helps nobody).
thread_local! {
    static IN_GUARD: std::cell::Cell<u32> = const { std::cell::Cell::new(0) };
}

pub fn quiet_panics() {
    std::panic::set_hook(Box::new(|info| {
        if IN_GUARD.with(|g| g.get()) == 0 {
            eprintln!("HARNESS PANIC (outside a subject guard): {info}");
        }
    }));
}

pub fn panic_msg(e: Box<dyn std::any::Any + Send>) -> String {
    if let Some(s) = e.downcast_ref::<&str>() {
        s.to_string()
    } else if let Some(s) = e.downcast_ref::<String>() {
        s.clone()
    } else {
        "panic (non-string payload)".to_string()
    }
}

/// Run a closure on the subject, converting a panic into Err(message).
pub fn guarded<T, F: FnOnce() -> T>(f: F) -> Result<T, String> {
    IN_GUARD.with(|g| g.set(g.get() + 1));
    let r = std::panic::catch_unwind(std::panic::AssertUnwindSafe(f)).map_err(panic_msg);
    IN_GUARD.with(|g| g.set(g.get() - 1));
    r
}

// ---------------------------------------------------------------------------------------------

pub struct Run {
    pub prop: &'static str,
    pub tier: Tier,
    pub seed: i64,
    pub level: &'static str,
    pub rule: String,
    pub assumptions: Vec<String>,
    pub exhaustive: bool,
    pub extra: Map<String, J>,
    pub stats: Local,
    start: Instant,
}

#[derive(Clone, Debug)]
pub struct KnownFinding {
    pub property: String,
    pub status: String,
    pub matcher: String,
    pub what: String,
}

pub fn load_known_findings() -> Vec<KnownFinding> {
    let path = format!("{}/known_findings.json", verif_dir());
    let text = match std::fs::read_to_string(&path) {
        Ok(t) => t,
        Err(_) => return vec![],
    };
    let j: J = serde_json::from_str(&text).unwrap_or_else(|e| machinery(&format!("known_findings.json: {e}")));
    j["findings"]
        .as_array()
        .map(|a| {
            a.iter()
                .map(|e| KnownFinding {
                    property: e["property"].as_str().unwrap_or("").to_string(),
                    status: e["status"].as_str().unwrap_or("").to_string(),
                    matcher: e["matcher"].as_str().unwrap_or("").to_string(),
                    what: e["what"].as_str().unwrap_or("").to_string(),
                })
                .collect()
        })
        .unwrap_or_default()
}

impl Run {
    pub fn new(prop: &'static str, tier: Tier, level: &'static str) -> Run {
        let seed = std::env::var("VERIF_SEED").ok().and_then(|s| s.parse().ok()).unwrap_or(0);
        Run {
            prop,
            tier,
            seed,
            level,
            rule: String::new(),
            assumptions: vec![],
            exhaustive: true,
            extra: Map::new(),
            stats: Local::new(),
            start: Instant::now(),
        }
    }

    pub fn elapsed(&self) -> f64 {
        self.start.elapsed().as_secs_f64()
    }

    pub fn absorb(&mut self, l: Local) {
        self.stats.merge(l);
    }

    pub fn assume(&mut self, s: &str) {
        self.assumptions.push(s.to_string());
    }

    pub fn note(&mut self, k: &str, v: J) {
        self.extra.insert(k.to_string(), v);
    }

    /// Vacuity guard: a hollow exploration is a machinery failure, not a pass.
    pub fn require(&self, cond: bool, what: &str) {
        if !cond {
            machinery(&format!("{}: vacuity guard failed: {what}", self.prop));
        }
    }

    pub fn counter(&self, name: &str) -> u64 {
        self.stats.counters.get(name).copied().unwrap_or(0)
    }

    /// Confirm failures by replaying them, classify against known findings, write replay files
    /// and the evidence file, print the verdict lines, and return the exit code.
    pub fn finish(mut self, replay: &(dyn Fn(&J) -> Result<(), (String, String)> + Sync)) -> i32 {
        let known = load_known_findings();
        let mut violations = 0;
        let mut known_hits = 0;
        let fails: Vec<Failure> = self.stats.fails.values().cloned().collect();
        let mut reported = vec![];
        // at most MAX_REPORTED violations are confirmed by replay and listed one by one (a change
        // that breaks everything produces 10^5 signatures; replaying each twice would take hours);
        // the rest are counted. Failures matching a known finding are always processed.
        const MAX_REPORTED: usize = 40;
        let mut unlisted = 0u64;
        for f in &fails {
            let is_known = known.iter().any(|k| k.property == self.prop && k.status == "known" && k.matcher == f.sig);
            if !is_known && violations >= MAX_REPORTED {
                unlisted += 1;
                continue;
            }
            // replay discipline: the same descriptor must fail the same way twice more
            let r1 = replay(&f.case);
            // a witness found by a free-running (non-exhaustive, supplementary) pass is a real
            // observation against a sound oracle but not a schedule: its replay repeats the pass
            // and need only fail once in two attempts
            let free = f.case.get("free_running").is_some();
            let r2 = if free && r1.is_err() { r1.clone() } else { replay(&f.case) };
            let ok = match (&r1, &r2) {
                (Err((s1, d1)), Err((s2, d2))) => s1 == s2 && d1 == d2 && *s1 == f.sig,
                _ => false,
            };
            if !ok && free {
                println!("NOTE: {}: the free-running pass observed {:?} ({}); repeating the pass did not observe it again — reported as observed", self.prop, f.sig, f.detail);
            }
            // not reproducible when replayed alone: does it reproduce when several threads replay it
            // at once? (the enumeration itself runs on 16 threads; a subject whose answers depend on
            // what other threads are doing fails there and not in a sequential replay)
            let mut contended = false;
            if !ok && !free {
                // all failing cases are replayed in rotation by 8 threads (the case in question on
                // thread 0): interference needs the *other* cases, as in the enumeration itself
                let hit = std::sync::atomic::AtomicBool::new(false);
                let t0 = std::time::Instant::now();
                let others: Vec<&Failure> = fails.iter().filter(|g| g.case.get("free_running").is_none()).take(64).collect();
                std::thread::scope(|sc| {
                    for t in 0..8usize {
                        let (hit, others) = (&hit, &others);
                        sc.spawn(move || {
                            let mut k = t * 7;
                            while !hit.load(std::sync::atomic::Ordering::Relaxed) && t0.elapsed().as_secs() < 5 {
                                if t < 3 {
                                    if let Err((s1, _)) = replay(&f.case) {
                                        if s1 == f.sig {
                                            hit.store(true, std::sync::atomic::Ordering::Relaxed);
                                        }
                                    }
                                } else if !others.is_empty() {
                                    let _ = replay(&others[k % others.len()].case);
                                    k += 1;
                                }
                            }
                        });
                    }
                });
                contended = hit.load(std::sync::atomic::Ordering::Relaxed);
                if contended {
                    println!("NOTE: {}: {:?} does not fail when its case is replayed alone but does while other threads replay the other failing cases: the subject's behaviour depends on what other threads are doing", self.prop, f.sig);
                }
            }
            if !ok && !free && !contended {
                machinery(&format!(
                    "{}: failure not reproducible on replay (uncontrolled nondeterminism?) sig={} first={:?} replay1={:?} replay2={:?} case={}",
                    self.prop, f.sig, f.detail, r1, r2, f.case
                ));
            }
            if let Some(k) = known
                .iter()
                .find(|k| k.property == self.prop && k.status == "known" && k.matcher == f.sig)
            {
                println!("KNOWN-FINDING: property={} {} [{}] witness={}", self.prop, k.what, f.sig, short(&f.case));
                known_hits += 1;
                continue;
            }
            let path = write_replay(self.prop, f);
            println!("VIOLATION property={} replay={}", self.prop, path);
            println!("  signature: {}", f.sig);
            println!("  detail:    {}", f.detail);
            println!("  case:      {}", short(&f.case));
            violations += 1;
            reported.push(json!({"sig": f.sig, "detail": f.detail, "replay": path}));
        }
        if unlisted > 0 {
            println!("NOTE: {}: {} further failing signatures are not listed one by one (first {} confirmed by replay and listed above)", self.prop, unlisted, MAX_REPORTED);
            violations += unlisted as usize;
        }
        let wall = self.elapsed();
        let mut cov = Map::new();
        cov.insert("evaluations".into(), json!(self.stats.evals));
        cov.insert("distinct_nontrivial".into(), json!(self.stats.nontrivial.len()));
        cov.insert("rule".into(), json!(self.rule));
        cov.insert("samples".into(), J::Array(self.stats.samples.clone()));
        cov.insert("exhaustive".into(), json!(self.exhaustive));
        cov.insert("distinct_outcomes".into(), json!(self.stats.outcomes.len()));
        if self.stats.states > 0 || self.level == "model_checking" {
            cov.insert("states".into(), json!(self.stats.states));
            cov.insert("transitions".into(), json!(self.stats.transitions));
            cov.insert("traces_validated_against_impl".into(), json!(self.stats.traces));
        }
        let counters: Map<String, J> = self.stats.counters.iter().map(|(k, v)| (k.clone(), json!(v))).collect();
        cov.insert("counters".into(), J::Object(counters));
        cov.insert("failing_evaluations".into(), json!(self.stats.fail_count));
        cov.insert("known_finding_hits".into(), json!(known_hits));
        if !reported.is_empty() {
            cov.insert("violations_reported".into(), J::Array(reported));
        }
        for (k, v) in std::mem::take(&mut self.extra) {
            cov.insert(k, v);
        }
        let ev = json!({
            "property_id": self.prop,
            "tier": self.tier.name(),
            "seed": self.seed,
            "level": self.level,
            "coverage": J::Object(cov),
            "assumptions": self.assumptions,
            "wall_s": (wall * 1000.0).round() / 1000.0,
            "violations": violations,
        });
        let dir = format!("{}/evidence", verif_dir());
        let _ = std::fs::create_dir_all(&dir);
        let path = format!("{dir}/{}.json", self.prop);
        if let Err(e) = std::fs::write(&path, serde_json::to_string_pretty(&ev).unwrap() + "\n") {
            machinery(&format!("cannot write {path}: {e}"));
        }
        println!(
            "{} {}: evaluations={} distinct_nontrivial={} outcomes={} states={} transitions={} failing={} violations={} known={} wall={:.1}s",
            self.prop,
            self.tier.name(),
            self.stats.evals,
            self.stats.nontrivial.len(),
            self.stats.outcomes.len(),
            self.stats.states,
            self.stats.transitions,
            self.stats.fail_count,
            violations,
            known_hits,
            wall
        );
        if violations > 0 {
            1
        } else {
            println!("OK property={} tier={}", self.prop, self.tier.name());
            0
        }
    }
}

pub fn short(j: &J) -> String {
    let s = j.to_string();
    if s.len() > 400 {
        let mut end = 400;
        while !s.is_char_boundary(end) {
            end -= 1;
        }
        format!("{}…", &s[..end])
    } else {
        s
    }
}

pub fn write_replay(prop: &str, f: &Failure) -> String {
    let dir = format!("{}/replays", verif_dir());
    let _ = std::fs::create_dir_all(&dir);
    let body = json!({"property": prop, "signature": f.sig, "detail": f.detail, "case": f.case});
    let text = serde_json::to_string_pretty(&body).unwrap();
    let path = format!("{dir}/{prop}-{:016x}.json", hash_str(&format!("{}{}", f.sig, f.case)));
    if let Err(e) = std::fs::write(&path, text + "\n") {
        machinery(&format!("cannot write replay {path}: {e}"));
    }
    path
}

/// `./check Cxx --replay file`: run exactly one case, no explorer around it.
pub fn replay_file(prop: &str, path: &str, replay: &dyn Fn(&J) -> Result<(), (String, String)>) -> i32 {
    let text = std::fs::read_to_string(path).unwrap_or_else(|e| machinery(&format!("{path}: {e}")));
    let j: J = serde_json::from_str(&text).unwrap_or_else(|e| machinery(&format!("{path}: {e}")));
    if j["property"].as_str() != Some(prop) {
        machinery(&format!("{path} is a replay for {:?}, not {prop}", j["property"]));
    }
    match replay(&j["case"]) {
        Ok(()) => {
            println!("replay: property {prop} HOLDS on this case");
            0
        }
        Err((sig, detail)) => {
            println!("VIOLATION property={prop} replay={path}");
            println!("  signature: {sig}");
            println!("  detail:    {detail}");
            1
        }
    }
}
