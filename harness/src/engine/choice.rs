//! E2 — stateless, deviation-bounded choice-point explorer.
//!
//! The body calls `ch.choose(n)` wherever the *environment* has a choice. Choice 0 is the default
//! answer; any other choice is a deviation (cost 1, or 0 via `choose_free` / `choose_cost`). The
//! explorer runs the body once per choice vector with at most `bound` deviations (None = all),
//! replaying prefixes exactly. A replay that diverges (a recorded choice is out of range for the
//! arity met on re-execution) is a machinery error, never a verdict.

use super::machinery;

#[derive(Clone, Copy, Debug)]
pub struct Point {
    pub choice: u32,
    pub arity: u32,
    /// cost of taking a non-zero alternative at this point
    pub cost: u8,
}

pub struct Chooser {
    prefix: Vec<u32>,
    pub trace: Vec<Point>,
}

impl Chooser {
    pub fn replaying(prefix: Vec<u32>) -> Chooser {
        Chooser { prefix, trace: Vec::new() }
    }

    pub fn choose_cost(&mut self, n: u32, cost: u8) -> u32 {
        assert!(n >= 1, "choose(0)");
        let i = self.trace.len();
        let c = if i < self.prefix.len() {
            let c = self.prefix[i];
            if c >= n {
                machinery(&format!(
                    "choice replay diverged at point {i}: recorded choice {c} but arity is {n}"
                ));
            }
            c
        } else {
            0
        };
        self.trace.push(Point { choice: c, arity: n, cost });
        c
    }

    /// deviation-costing choice among n alternatives
    pub fn choose(&mut self, n: u32) -> u32 {
        self.choose_cost(n, 1)
    }

    /// free choice (all alternatives are explored regardless of the bound)
    pub fn choose_free(&mut self, n: u32) -> u32 {
        self.choose_cost(n, 0)
    }

    pub fn flag(&mut self) -> bool {
        self.choose(2) == 1
    }

    pub fn choices(&self) -> Vec<u32> {
        self.trace.iter().map(|p| p.choice).collect()
    }

    pub fn deviations(&self) -> usize {
        self.trace.iter().filter(|p| p.choice != 0 && p.cost > 0).count()
    }
}

#[derive(Default, Debug, Clone, Copy)]
pub struct ExploreStats {
    pub executions: u64,
    pub max_points: usize,
    pub max_deviations: usize,
    /// true if `max_executions` stopped the search before the bound was completed
    pub capped: bool,
}

/// Explore every choice vector with at most `bound` costly deviations.
/// `body` returns `false` to stop the whole exploration early (used after a failure).
pub fn explore<F>(bound: Option<usize>, max_executions: u64, mut body: F) -> ExploreStats
where
    F: FnMut(&mut Chooser) -> bool,
{
    let mut stats = ExploreStats::default();
    let mut stack: Vec<Vec<u32>> = vec![vec![]];
    while let Some(prefix) = stack.pop() {
        if stats.executions >= max_executions {
            stats.capped = true;
            break;
        }
        let plen = prefix.len();
        let mut ch = Chooser::replaying(prefix);
        let go_on = body(&mut ch);
        stats.executions += 1;
        stats.max_points = stats.max_points.max(ch.trace.len());
        stats.max_deviations = stats.max_deviations.max(ch.deviations());
        if ch.trace.len() < plen {
            machinery(&format!(
                "choice replay diverged: prefix has {plen} points, execution met only {}",
                ch.trace.len()
            ));
        }
        if !go_on {
            break;
        }
        // children: deviate at any point after the prefix
        let mut spent = ch.trace[..plen].iter().filter(|p| p.choice != 0 && p.cost > 0).count();
        let mut children: Vec<Vec<u32>> = Vec::new();
        for i in plen..ch.trace.len() {
            let p = ch.trace[i];
            debug_assert_eq!(p.choice, 0);
            let allowed = match bound {
                None => true,
                Some(b) => spent + p.cost as usize <= b,
            };
            if allowed {
                for alt in 1..p.arity {
                    let mut v: Vec<u32> = ch.trace[..i].iter().map(|q| q.choice).collect();
                    v.push(alt);
                    children.push(v);
                }
            }
            if p.choice != 0 && p.cost > 0 {
                spent += 1;
            }
        }
        // depth-first, simplest (earliest deviation, smallest alternative) first
        children.reverse();
        stack.extend(children);
    }
    stats
}

#[cfg(test)]
mod test {
    use super::*;
    #[test]
    fn counts() {
        // 3 binary points: bound None = 8 executions, bound 1 = 4, bound 0 = 1
        for (b, n) in [(None, 8u64), (Some(1), 4), (Some(0), 1), (Some(2), 7)] {
            let st = explore(b, u64::MAX, |ch| {
                for _ in 0..3 {
                    ch.choose(2);
                }
                true
            });
            assert_eq!(st.executions, n);
        }
    }
}
