//! Process isolation for cases that can crash, overflow the stack, hang or exhaust memory.
//!
//! The parent splits the ordinal range [0, n) of a deterministic enumeration ("job") over child
//! processes of this same binary (`hsmc __child <prop> <tier> <job> <start> <end> <step>`). A child
//! runs every case under `catch_unwind`, has a watchdog thread (same ordinal for longer than the
//! job's time limit => prints `HANG <ordinal>` and exits 3) and an address-space cap. In fast mode
//! the child reports only at the end; if it dies abnormally the parent re-runs the remaining range
//! in single-step mode (the child flushes `P <ordinal>` before each case), which names the exact
//! case; that case is recorded as a failure (signature `crash:*` / `hang`) and the range continues
//! after it. A child that fails in any *other* way is a machinery error (exit 2).

use super::{machinery, Failure, Local};
use serde_json::{json, Value as J};
use std::io::{BufRead, BufReader, Write};
use std::process::{Command, Stdio};
use std::sync::atomic::{AtomicU64, Ordering};
use std::sync::Arc;
use std::time::{Duration, Instant};

pub fn local_to_json(l: &Local) -> J {
    json!({
        "evals": l.evals,
        "nontrivial": l.nontrivial.iter().collect::<Vec<_>>(),
        "outcomes": l.outcomes.iter().collect::<Vec<_>>(),
        "samples": l.samples,
        "fails": l.fails.values().map(|f| json!({"sig":f.sig,"case":f.case,"detail":f.detail,"weight":f.weight})).collect::<Vec<_>>(),
        "fail_count": l.fail_count,
        "counters": l.counters,
        "states": l.states, "transitions": l.transitions, "traces": l.traces,
    })
}

pub fn local_from_json(j: &J) -> Local {
    let mut l = Local::new();
    l.evals = j["evals"].as_u64().unwrap_or(0);
    for h in j["nontrivial"].as_array().into_iter().flatten() {
        l.nontrivial.insert(h.as_u64().unwrap());
    }
    for o in j["outcomes"].as_array().into_iter().flatten() {
        l.outcomes.insert(o.as_str().unwrap().to_string());
    }
    for s in j["samples"].as_array().into_iter().flatten() {
        l.samples.push(s.clone());
    }
    for f in j["fails"].as_array().into_iter().flatten() {
        let sig = f["sig"].as_str().unwrap().to_string();
        l.fails.insert(
            sig.clone(),
            Failure {
                sig,
                case: f["case"].clone(),
                detail: f["detail"].as_str().unwrap().to_string(),
                weight: f["weight"].as_u64().unwrap() as usize,
            },
        );
    }
    l.fail_count = j["fail_count"].as_u64().unwrap_or(0);
    for (k, v) in j["counters"].as_object().into_iter().flatten() {
        l.counters.insert(k.clone(), v.as_u64().unwrap());
    }
    l.states = j["states"].as_u64().unwrap_or(0);
    l.transitions = j["transitions"].as_u64().unwrap_or(0);
    l.traces = j["traces"].as_u64().unwrap_or(0);
    l
}

// ------------------------------------------------------------------------------ child side

pub struct ChildCtx {
    pub step: bool,
    current: Arc<AtomicU64>,
    out: std::io::Stdout,
}

impl ChildCtx {
    /// Call before each case.
    pub fn begin(&mut self, ordinal: u64) {
        self.current.store(ordinal, Ordering::SeqCst);
        if self.step {
            let mut o = self.out.lock();
            let _ = writeln!(o, "P {ordinal}");
            let _ = o.flush();
        }
    }
}

pub fn set_address_space_limit(bytes: u64) {
    unsafe {
        let lim = libc::rlimit { rlim_cur: bytes, rlim_max: bytes };
        libc::setrlimit(libc::RLIMIT_AS, &lim);
    }
}

/// Entry of a child process. `run` executes the cases start..end of the job.
pub fn child_main<F>(start: u64, end: u64, step: bool, hang_secs: u64, mem_bytes: u64, stack: usize, run: F) -> !
where
    F: FnOnce(u64, u64, &mut ChildCtx, &mut Local) + Send + 'static,
{
    if mem_bytes > 0 {
        set_address_space_limit(mem_bytes);
    }
    super::quiet_panics();
    let current = Arc::new(AtomicU64::new(u64::MAX));
    let wd_cur = current.clone();
    // watchdog: the same ordinal for more than hang_secs => HANG
    std::thread::spawn(move || {
        let mut last = u64::MAX;
        let mut since = Instant::now();
        loop {
            std::thread::sleep(Duration::from_millis(200));
            let c = wd_cur.load(Ordering::SeqCst);
            if c != last {
                last = c;
                since = Instant::now();
            } else if c != u64::MAX && since.elapsed() > Duration::from_secs(hang_secs) {
                let so = std::io::stdout();
                let mut o = so.lock();
                let _ = writeln!(o, "HANG {c}");
                let _ = o.flush();
                std::process::exit(3);
            }
        }
    });
    let cur2 = current.clone();
    let h = std::thread::Builder::new()
        .stack_size(stack)
        .spawn(move || {
            let mut ctx = ChildCtx { step, current: cur2, out: std::io::stdout() };
            let mut local = Local::new();
            run(start, end, &mut ctx, &mut local);
            local
        })
        .expect("spawn child worker");
    match h.join() {
        Ok(local) => {
            current.store(u64::MAX, Ordering::SeqCst);
            let so = std::io::stdout();
            let mut o = so.lock();
            let _ = writeln!(o, "R {}", local_to_json(&local));
            let _ = o.flush();
            std::process::exit(0)
        }
        Err(_) => {
            // a panic that escaped the per-case guard: harness bug
            println!("E escaped-panic");
            std::process::exit(4)
        }
    }
}

// ----------------------------------------------------------------------------- parent side

pub struct Job<'a> {
    pub prop: &'a str,
    pub tier: &'a str,
    pub job: &'a str,
    pub n: u64,
    /// cases per child invocation
    pub chunk: u64,
    /// env vars to set for the child
    pub env: Vec<(String, String)>,
    /// alternative executable (ASan build); None = current exe
    pub exe: Option<String>,
    /// describe ordinal -> replay descriptor for crash/hang failures
    pub describe: &'a (dyn Fn(u64) -> J + Sync),
}

enum ChildEnd {
    Done(Local),
    /// died at `ordinal` (None if unknown) with a description
    Died(Option<u64>, String, String),
}

fn run_child(job: &Job, start: u64, end: u64, step: bool) -> ChildEnd {
    let exe = job
        .exe
        .clone()
        .unwrap_or_else(|| std::env::current_exe().expect("current_exe").to_string_lossy().to_string());
    let mut cmd = Command::new(&exe);
    cmd.arg("__child")
        .arg(job.prop)
        .arg(job.tier)
        .arg(job.job)
        .arg(start.to_string())
        .arg(end.to_string())
        .arg(if step { "1" } else { "0" })
        .stdin(Stdio::null())
        .stdout(Stdio::piped())
        .stderr(Stdio::piped());
    for (k, v) in &job.env {
        cmd.env(k, v);
    }
    let mut child = cmd.spawn().unwrap_or_else(|e| machinery(&format!("cannot spawn {exe}: {e}")));
    let stdout = child.stdout.take().unwrap();
    let stderr = child.stderr.take().unwrap();
    let errh = std::thread::spawn(move || {
        let mut s = String::new();
        let mut r = BufReader::new(stderr);
        let mut line = String::new();
        while let Ok(n) = r.read_line(&mut line) {
            if n == 0 {
                break;
            }
            if s.len() < 20000 {
                s.push_str(&line);
            }
            line.clear();
        }
        s
    });
    let mut last_p: Option<u64> = None;
    let mut result: Option<Local> = None;
    let mut hang: Option<u64> = None;
    let mut leak: Option<u64> = None;
    let mut escaped = false;
    let r = BufReader::new(stdout);
    for line in r.lines() {
        let line = match line {
            Ok(l) => l,
            Err(_) => break,
        };
        if let Some(rest) = line.strip_prefix("P ") {
            last_p = rest.trim().parse().ok();
        } else if let Some(rest) = line.strip_prefix("R ") {
            match serde_json::from_str::<J>(rest) {
                Ok(j) => result = Some(local_from_json(&j)),
                Err(e) => machinery(&format!("child result unparsable: {e}")),
            }
        } else if let Some(rest) = line.strip_prefix("HANG ") {
            hang = rest.trim().parse().ok();
        } else if let Some(rest) = line.strip_prefix("LEAK ") {
            leak = rest.trim().parse().ok();
        } else if line.starts_with("E ") {
            escaped = true;
        }
    }
    let status = child.wait().unwrap_or_else(|e| machinery(&format!("wait: {e}")));
    let err_text = errh.join().unwrap_or_default();
    if escaped {
        machinery(&format!("child {} {}..{}: panic escaped the per-case guard\n{err_text}", job.job, start, end));
    }
    if let Some(h) = hang {
        return ChildEnd::Died(Some(h), "hang".into(), "watchdog: case did not terminate".into());
    }
    if let Some(l) = leak {
        let tail: String = err_text.lines().filter(|l| l.contains("#") || l.contains("leak")).take(10).collect::<Vec<_>>().join(" | ");
        return ChildEnd::Died(Some(l), "asan:leak".into(), format!("LeakSanitizer: memory allocated during this history is not freed by the protocol's clean-up: {tail}"));
    }
    if status.success() {
        match result {
            Some(l) => return ChildEnd::Done(l),
            None => machinery(&format!("child {} {}..{} exited 0 without a result", job.job, start, end)),
        }
    }
    use std::os::unix::process::ExitStatusExt;
    let how = if let Some(sig) = status.signal() {
        format!("signal{sig}")
    } else {
        format!("exit{}", status.code().unwrap_or(-1))
    };
    let tail: String = {
        let lines: Vec<&str> = err_text.lines().collect();
        let from = lines.len().saturating_sub(12);
        lines[from..].join(" | ")
    };
    let sig = if err_text.contains("overflowed its stack") || err_text.contains("stack-overflow") {
        "crash:stack-overflow".to_string()
    } else if err_text.contains("AddressSanitizer") || err_text.contains("LeakSanitizer") {
        let kind = err_text
            .lines()
            .find_map(|l| {
                l.find("ERROR: AddressSanitizer: ")
                    .map(|i| l[i + 25..].split_whitespace().next().unwrap_or("?").to_string())
                    .or_else(|| l.find("ERROR: LeakSanitizer").map(|_| "leak".to_string()))
            })
            .unwrap_or_else(|| "?".into());
        format!("crash:asan:{kind}")
    } else if err_text.contains("memory allocation of") {
        "crash:alloc-failure".to_string()
    } else if err_text.contains("panic in a function that cannot unwind") || err_text.contains("panicked") {
        "crash:abort-on-panic".to_string()
    } else {
        format!("crash:{how}")
    };
    ChildEnd::Died(if step { last_p } else { None }, sig, format!("{how}: {tail}"))
}

/// Run the whole job over child processes; returns merged statistics (crashes and hangs recorded
/// as failures).
pub fn run_job(job: &Job) -> Local {
    let chunks: Vec<(u64, u64)> = {
        let mut v = vec![];
        let mut s = 0;
        while s < job.n {
            let e = (s + job.chunk).min(job.n);
            v.push((s, e));
            s = e;
        }
        v
    };
    // once a few crashes/hangs are known the verdict of the job is decided: stop paying seconds per
    // further hang (the evidence then says the job was not completed)
    let crashes = std::sync::atomic::AtomicUsize::new(0);
    super::par_for(chunks.len(), |ci, local| {
        // work list of ranges; a range whose fast run dies is halved until it is small enough to
        // be single-stepped (single-step mode can be much slower than fast mode)
        let mut work: Vec<(u64, u64)> = vec![chunks[ci]];
        while let Some((mut start, end)) = work.pop() {
          while start < end {
            if crashes.load(std::sync::atomic::Ordering::SeqCst) >= 3 {
                local.count("chunks-skipped-after-crashes");
                work.clear();
                break;
            }
            match run_child(job, start, end, false) {
                ChildEnd::Done(l) => {
                    local.merge(l);
                    break;
                }
                ChildEnd::Died(_, _, _) if end - start > 48 => {
                    let mid = start + (end - start) / 2;
                    work.push((mid, end));
                    work.push((start, mid));
                    break;
                }
                ChildEnd::Died(_, _, _) => {
                    // single-step mode names the case
                    match run_child(job, start, end, true) {
                        ChildEnd::Done(_) => {
                            // every case passes when stepped: the death was not caused by a case
                            // (an overloaded machine can push a healthy child past the wall-clock
                            // watchdog — the one place where time enters a verdict). One more fast
                            // run decides: clean => accept and note it, dies again => machinery error.
                            match run_child(job, start, end, false) {
                                ChildEnd::Done(l) => {
                                    local.merge(l);
                                    local.count("transient-child-death-retried");
                                    break;
                                }
                                ChildEnd::Died(..) => machinery(&format!(
                                    "job {} range {}..{}: child died in fast mode (twice) but not in single-step mode (uncontrolled nondeterminism)",
                                    job.job, start, end
                                )),
                            }
                        }
                        ChildEnd::Died(Some(ord), sig, detail) => {
                            // keep results of the cases before `ord`
                            if ord > start {
                                match run_child(job, start, ord, false) {
                                    ChildEnd::Done(l) => local.merge(l),
                                    ChildEnd::Died(..) => machinery(&format!(
                                        "job {} range {}..{}: prefix before the crashing case crashed too (nondeterminism)",
                                        job.job, start, ord
                                    )),
                                }
                            }
                            local.evals += 1;
                            crashes.fetch_add(1, std::sync::atomic::Ordering::SeqCst);
                            local.fail(&sig, (job.describe)(ord), detail);
                            start = ord + 1;
                        }
                        ChildEnd::Died(None, sig, detail) => machinery(&format!(
                            "job {} range {}..{}: child died before its first case ({sig}: {detail})",
                            job.job, start, end
                        )),
                    }
                }
            }
          }
        }
    })
}
