//! Harness-side structural model of a Haystack value (`V`).
//!
//! Independent from libhaystack's own equality (which ignores Ref display names and compares
//! timestamps by instant only): every component that the properties talk about is an explicit
//! field here, `same` compares them one by one, and `to_lib` / `from_lib` convert through
//! libhaystack's *public constructors and fields only* (no codec involved).

use chrono::{Datelike, Offset, TimeZone, Timelike};
use libhaystack::val as hv;
use serde_json::{json, Value as J};
use std::collections::BTreeMap;

pub type Tags = Vec<(String, V)>;

#[derive(Clone, Debug)]
pub struct DT {
    /// seconds since the Unix epoch (UTC) and nanoseconds
    pub secs: i64,
    pub nanos: u32,
    /// local offset in seconds east of UTC
    pub offset: i32,
    /// full IANA name used to construct the value (e.g. `America/New_York`)
    pub tz_full: String,
    /// Haystack zone name (city), what `timezone_short_name()` must give
    pub tz: String,
}

#[derive(Clone, Debug)]
pub struct Col {
    pub name: String,
    pub meta: Option<Tags>,
}

#[derive(Clone, Debug)]
pub struct G {
    pub ver: String,
    pub meta: Option<Tags>,
    pub cols: Vec<Col>,
    pub rows: Vec<Tags>,
}

#[derive(Clone, Debug)]
pub enum V {
    Null,
    Marker,
    Remove,
    Na,
    Bool(bool),
    Num(f64, Option<String>),
    Str(String),
    Uri(String),
    Ref(String, Option<String>),
    Sym(String),
    Date(i32, u32, u32),
    /// h, m, s, nanos
    Time(u32, u32, u32, u32),
    DateTime(DT),
    Coord(f64, f64),
    XStr(String, String),
    List(Vec<V>),
    Dict(Tags),
    Grid(Box<G>),
}

pub fn city_of(full: &str) -> String {
    match full.find('/') {
        Some(i) => full[i + 1..].to_string(),
        None => full.to_string(),
    }
}

impl V {
    pub fn str(s: &str) -> V {
        V::Str(s.to_string())
    }
    pub fn num(x: f64) -> V {
        V::Num(x, None)
    }
    /// Number with a unit given by any of its identifiers (stored under its canonical symbol)
    pub fn numu(x: f64, u: &str) -> V {
        let sym = crate::model::units_ref::canonical(u).unwrap_or_else(|| panic!("harness: {u:?} is not in units.txt"));
        V::Num(x, Some(sym))
    }
    pub fn dict(tags: &[(&str, V)]) -> V {
        V::Dict(mk_tags(tags))
    }
    /// DateTime from an instant and a full IANA zone name (offset computed by chrono_tz: trusted base)
    pub fn dt(secs: i64, nanos: u32, tz_full: &str) -> V {
        let tz: chrono_tz::Tz = tz_full.parse().expect("zone");
        let d = tz.timestamp_opt(secs, nanos).single().expect("instant");
        V::DateTime(DT {
            secs,
            nanos,
            offset: d.offset().fix().local_minus_utc(),
            tz_full: tz_full.to_string(),
            tz: city_of(tz_full),
        })
    }

    pub fn kind_name(&self) -> &'static str {
        match self {
            V::Null => "null",
            V::Marker => "marker",
            V::Remove => "remove",
            V::Na => "na",
            V::Bool(_) => "bool",
            V::Num(..) => "number",
            V::Str(_) => "str",
            V::Uri(_) => "uri",
            V::Ref(..) => "ref",
            V::Sym(_) => "symbol",
            V::Date(..) => "date",
            V::Time(..) => "time",
            V::DateTime(_) => "dateTime",
            V::Coord(..) => "coord",
            V::XStr(..) => "xstr",
            V::List(_) => "list",
            V::Dict(_) => "dict",
            V::Grid(_) => "grid",
        }
    }

    pub fn is_container(&self) -> bool {
        matches!(self, V::List(_) | V::Dict(_) | V::Grid(_))
    }

    /// number of nodes (values) in the tree
    pub fn size(&self) -> usize {
        match self {
            V::List(l) => 1 + l.iter().map(|v| v.size()).sum::<usize>(),
            V::Dict(d) => 1 + d.iter().map(|(_, v)| v.size()).sum::<usize>(),
            V::Grid(g) => {
                1 + g.meta.iter().flatten().map(|(_, v)| v.size()).sum::<usize>()
                    + g.cols
                        .iter()
                        .map(|c| c.meta.iter().flatten().map(|(_, v)| v.size()).sum::<usize>())
                        .sum::<usize>()
                    + g.rows
                        .iter()
                        .map(|r| r.iter().map(|(_, v)| v.size()).sum::<usize>())
                        .sum::<usize>()
            }
            _ => 1,
        }
    }

    pub fn depth(&self) -> usize {
        match self {
            V::List(l) => 1 + l.iter().map(|v| v.depth()).max().unwrap_or(0),
            V::Dict(d) => 1 + d.iter().map(|(_, v)| v.depth()).max().unwrap_or(0),
            V::Grid(g) => {
                let mut m = 0;
                for (_, v) in g.meta.iter().flatten() {
                    m = m.max(v.depth());
                }
                for c in &g.cols {
                    for (_, v) in c.meta.iter().flatten() {
                        m = m.max(v.depth());
                    }
                }
                for r in &g.rows {
                    for (_, v) in r {
                        m = m.max(v.depth());
                    }
                }
                1 + m
            }
            _ => 0,
        }
    }

    /// visit every value of the tree (self included)
    pub fn walk<'a>(&'a self, f: &mut dyn FnMut(&'a V)) {
        f(self);
        match self {
            V::List(l) => l.iter().for_each(|v| v.walk(f)),
            V::Dict(d) => d.iter().for_each(|(_, v)| v.walk(f)),
            V::Grid(g) => {
                g.meta.iter().flatten().for_each(|(_, v)| v.walk(f));
                for c in &g.cols {
                    c.meta.iter().flatten().for_each(|(_, v)| v.walk(f));
                }
                for r in &g.rows {
                    r.iter().for_each(|(_, v)| v.walk(f));
                }
            }
            _ => {}
        }
    }

    pub fn key(&self) -> String {
        format!("{:?}", self)
    }
}

pub fn mk_tags(tags: &[(&str, V)]) -> Tags {
    let mut t: Tags = tags.iter().map(|(k, v)| (k.to_string(), v.clone())).collect();
    t.sort_by(|a, b| a.0.cmp(&b.0));
    t
}

fn tags_to_dict(t: &Tags) -> hv::Dict {
    let mut m = BTreeMap::new();
    for (k, v) in t {
        m.insert(k.clone(), to_lib(v));
    }
    hv::Dict::from(m)
}

fn dict_to_tags(d: &hv::Dict) -> Tags {
    d.iter().map(|(k, v)| (k.clone(), from_lib(v))).collect()
}

pub fn g_to_lib(g: &G) -> hv::Grid {
    hv::Grid {
        meta: g.meta.as_ref().map(tags_to_dict),
        columns: g
            .cols
            .iter()
            .map(|c| hv::Column {
                name: c.name.clone(),
                meta: c.meta.as_ref().map(tags_to_dict),
            })
            .collect(),
        rows: g.rows.iter().map(tags_to_dict).collect(),
        ver: g.ver.clone(),
    }
}

pub fn g_from_lib(g: &hv::Grid) -> G {
    G {
        ver: g.ver.clone(),
        meta: g.meta.as_ref().map(dict_to_tags),
        cols: g
            .columns
            .iter()
            .map(|c| Col {
                name: c.name.clone(),
                meta: c.meta.as_ref().map(dict_to_tags),
            })
            .collect(),
        rows: g.rows.iter().map(dict_to_tags).collect(),
    }
}

/// Build the libhaystack value through public constructors / public fields only.
pub fn to_lib(v: &V) -> hv::Value {
    match v {
        V::Null => hv::Value::Null,
        V::Marker => hv::Value::Marker,
        V::Remove => hv::Value::Remove,
        V::Na => hv::Value::Na,
        V::Bool(b) => hv::Value::make_bool(*b),
        V::Num(x, None) => hv::Value::Number(hv::Number { value: *x, unit: None }),
        V::Num(x, Some(u)) => {
            let unit = libhaystack::units::get_unit(u).unwrap_or_else(|| panic!("harness: unknown unit {u:?}"));
            hv::Value::Number(hv::Number { value: *x, unit: Some(unit) })
        }
        V::Str(s) => hv::Value::make_str(s),
        V::Uri(s) => hv::Value::make_uri(s),
        V::Ref(id, dis) => hv::Value::Ref(hv::Ref { value: id.clone(), dis: dis.clone() }),
        V::Sym(s) => hv::Value::make_symbol(s),
        V::Date(y, m, d) => {
            let nd = chrono::NaiveDate::from_ymd_opt(*y, *m, *d).expect("harness: bad date");
            hv::Value::Date(hv::Date::from(nd))
        }
        V::Time(h, m, s, n) => {
            let nt = chrono::NaiveTime::from_hms_nano_opt(*h, *m, *s, *n).expect("harness: bad time");
            hv::Value::Time(hv::Time::from(nt))
        }
        V::DateTime(dt) => {
            let tz: chrono_tz::Tz = dt.tz_full.parse().expect("harness: bad zone");
            let d = tz.timestamp_opt(dt.secs, dt.nanos).single().expect("harness: bad instant");
            hv::Value::DateTime(hv::DateTime::from(d))
        }
        V::Coord(a, b) => hv::Value::make_coord_from(*a, *b),
        V::XStr(t, s) => hv::Value::make_xstr_from(t, s),
        V::List(l) => hv::Value::make_list(l.iter().map(to_lib).collect()),
        V::Dict(d) => hv::Value::make_dict(tags_to_dict(d)),
        V::Grid(g) => hv::Value::make_grid(g_to_lib(g)),
    }
}

pub fn dt_from_lib(d: &hv::DateTime) -> DT {
    let inner: &chrono::DateTime<chrono_tz::Tz> = d;
    DT {
        secs: inner.timestamp(),
        nanos: inner.timestamp_subsec_nanos(),
        offset: inner.offset().fix().local_minus_utc(),
        tz_full: inner.timezone().name().to_string(),
        tz: d.timezone_short_name(),
    }
}

pub fn from_lib(v: &hv::Value) -> V {
    match v {
        hv::Value::Null => V::Null,
        hv::Value::Marker => V::Marker,
        hv::Value::Remove => V::Remove,
        hv::Value::Na => V::Na,
        hv::Value::Bool(b) => V::Bool(b.value),
        hv::Value::Number(n) => V::Num(n.value, n.unit.map(|u| u.symbol().to_string())),
        hv::Value::Str(s) => V::Str(s.value.clone()),
        hv::Value::Uri(s) => V::Uri(s.value.clone()),
        hv::Value::Ref(r) => V::Ref(r.value.clone(), r.dis.clone()),
        hv::Value::Symbol(s) => V::Sym(s.value.clone()),
        hv::Value::Date(d) => V::Date(d.year(), d.month(), d.day()),
        hv::Value::Time(t) => V::Time(t.hour(), t.minute(), t.second(), t.nanosecond()),
        hv::Value::DateTime(d) => V::DateTime(dt_from_lib(d)),
        hv::Value::Coord(c) => V::Coord(c.lat, c.long),
        hv::Value::XStr(x) => V::XStr(x.r#type.clone(), x.value.clone()),
        hv::Value::List(l) => V::List(l.iter().map(from_lib).collect()),
        hv::Value::Dict(d) => V::Dict(dict_to_tags(d)),
        hv::Value::Grid(g) => V::Grid(Box::new(g_from_lib(g))),
    }
}

fn f_same(a: f64, b: f64) -> bool {
    (a.is_nan() && b.is_nan()) || a == b
}

fn tags_same(a: &Tags, b: &Tags, path: &str, strict_ver: bool) -> Result<(), String> {
    if a.len() != b.len() || a.iter().zip(b.iter()).any(|(x, y)| x.0 != y.0) {
        return Err(format!(
            "{path}: tag names differ: {:?} vs {:?}",
            a.iter().map(|x| &x.0).collect::<Vec<_>>(),
            b.iter().map(|x| &x.0).collect::<Vec<_>>()
        ));
    }
    for (x, y) in a.iter().zip(b.iter()) {
        same_at(&x.1, &y.1, &format!("{path}.{}", x.0), strict_ver)?;
    }
    Ok(())
}

static EMPTY: Tags = Vec::new();

fn same_at(a: &V, b: &V, path: &str, strict_ver: bool) -> Result<(), String> {
    let mismatch = || Err(format!("{path}: {a:?} vs {b:?}"));
    match (a, b) {
        (V::Null, V::Null) | (V::Marker, V::Marker) | (V::Remove, V::Remove) | (V::Na, V::Na) => Ok(()),
        (V::Bool(x), V::Bool(y)) if x == y => Ok(()),
        (V::Num(x, u), V::Num(y, w)) if f_same(*x, *y) && u == w => Ok(()),
        (V::Str(x), V::Str(y)) if x == y => Ok(()),
        (V::Uri(x), V::Uri(y)) if x == y => Ok(()),
        (V::Sym(x), V::Sym(y)) if x == y => Ok(()),
        (V::Ref(x, d), V::Ref(y, e)) if x == y && d == e => Ok(()),
        (V::Date(a1, a2, a3), V::Date(b1, b2, b3)) if (a1, a2, a3) == (b1, b2, b3) => Ok(()),
        (V::Time(a1, a2, a3, a4), V::Time(b1, b2, b3, b4)) if (a1, a2, a3, a4) == (b1, b2, b3, b4) => Ok(()),
        (V::DateTime(x), V::DateTime(y))
            if x.secs == y.secs && x.nanos == y.nanos && x.offset == y.offset && x.tz == y.tz =>
        {
            Ok(())
        }
        (V::Coord(a1, a2), V::Coord(b1, b2)) if f_same(*a1, *b1) && f_same(*a2, *b2) => Ok(()),
        (V::XStr(t, s), V::XStr(u, r)) if t == u && s == r => Ok(()),
        (V::List(x), V::List(y)) => {
            if x.len() != y.len() {
                return Err(format!("{path}: list length {} vs {}", x.len(), y.len()));
            }
            for (i, (p, q)) in x.iter().zip(y.iter()).enumerate() {
                same_at(p, q, &format!("{path}[{i}]"), strict_ver)?;
            }
            Ok(())
        }
        (V::Dict(x), V::Dict(y)) => tags_same(x, y, path, strict_ver),
        (V::Grid(x), V::Grid(y)) => {
            if strict_ver && x.ver != y.ver {
                return Err(format!("{path}: grid ver {:?} vs {:?}", x.ver, y.ver));
            }
            tags_same(
                x.meta.as_ref().unwrap_or(&EMPTY),
                y.meta.as_ref().unwrap_or(&EMPTY),
                &format!("{path}.meta"),
                strict_ver,
            )?;
            if x.cols.len() != y.cols.len() {
                return Err(format!(
                    "{path}: columns {:?} vs {:?}",
                    x.cols.iter().map(|c| &c.name).collect::<Vec<_>>(),
                    y.cols.iter().map(|c| &c.name).collect::<Vec<_>>()
                ));
            }
            for (i, (c, d)) in x.cols.iter().zip(y.cols.iter()).enumerate() {
                if c.name != d.name {
                    return Err(format!("{path}: column {i} name {:?} vs {:?}", c.name, d.name));
                }
                tags_same(
                    c.meta.as_ref().unwrap_or(&EMPTY),
                    d.meta.as_ref().unwrap_or(&EMPTY),
                    &format!("{path}.col[{}].meta", c.name),
                    strict_ver,
                )?;
            }
            if x.rows.len() != y.rows.len() {
                return Err(format!("{path}: {} rows vs {}", x.rows.len(), y.rows.len()));
            }
            for (i, (r, s)) in x.rows.iter().zip(y.rows.iter()).enumerate() {
                tags_same(r, s, &format!("{path}.row[{i}]"), strict_ver)?;
            }
            Ok(())
        }
        _ => mismatch(),
    }
}

/// Component-wise comparison of C01/C02. The grid `ver` is a component too: it is a public field
/// of `Grid`, part of the library's own `==`, and both codecs carry it.
pub fn same(a: &V, b: &V) -> Result<(), String> {
    same_at(a, b, "$", true)
}

/// As `same`, and grid `ver` must agree too (C11: "loses nothing the first decode kept").
pub fn same_strict(a: &V, b: &V) -> Result<(), String> {
    same_at(a, b, "$", true)
}

// ---------------------------------------------------------------------------------------------
// JSON descriptor (replay files, evidence samples). Floats are stored by bit pattern.

fn f_json(x: f64) -> J {
    json!({"bits": format!("{:016x}", x.to_bits()), "approx": format!("{x:e}")})
}
fn f_unjson(j: &J) -> f64 {
    f64::from_bits(u64::from_str_radix(j["bits"].as_str().expect("bits"), 16).expect("hex"))
}
fn tags_json(t: &Tags) -> J {
    J::Array(t.iter().map(|(k, v)| json!([k, to_json(v)])).collect())
}
fn tags_unjson(j: &J) -> Tags {
    j.as_array()
        .expect("tags")
        .iter()
        .map(|e| (e[0].as_str().expect("key").to_string(), from_json(&e[1])))
        .collect()
}

pub fn to_json(v: &V) -> J {
    match v {
        V::Null => json!({"k":"null"}),
        V::Marker => json!({"k":"marker"}),
        V::Remove => json!({"k":"remove"}),
        V::Na => json!({"k":"na"}),
        V::Bool(b) => json!({"k":"bool","v":b}),
        V::Num(x, u) => json!({"k":"number","v":f_json(*x),"unit":u}),
        V::Str(s) => json!({"k":"str","v":s}),
        V::Uri(s) => json!({"k":"uri","v":s}),
        V::Ref(s, d) => json!({"k":"ref","v":s,"dis":d}),
        V::Sym(s) => json!({"k":"symbol","v":s}),
        V::Date(y, m, d) => json!({"k":"date","v":[y,m,d]}),
        V::Time(h, m, s, n) => json!({"k":"time","v":[h,m,s,n]}),
        V::DateTime(d) => {
            json!({"k":"dateTime","secs":d.secs,"nanos":d.nanos,"offset":d.offset,"tz_full":d.tz_full,"tz":d.tz})
        }
        V::Coord(a, b) => json!({"k":"coord","lat":f_json(*a),"lng":f_json(*b)}),
        V::XStr(t, s) => json!({"k":"xstr","type":t,"v":s}),
        V::List(l) => json!({"k":"list","v":l.iter().map(to_json).collect::<Vec<_>>()}),
        V::Dict(d) => json!({"k":"dict","v":tags_json(d)}),
        V::Grid(g) => json!({"k":"grid","ver":g.ver,
            "meta": g.meta.as_ref().map(tags_json),
            "cols": g.cols.iter().map(|c| json!({"name":c.name,"meta":c.meta.as_ref().map(tags_json)})).collect::<Vec<_>>(),
            "rows": g.rows.iter().map(tags_json).collect::<Vec<_>>()}),
    }
}

fn s(j: &J) -> String {
    j.as_str().expect("string").to_string()
}
fn os(j: &J) -> Option<String> {
    j.as_str().map(|x| x.to_string())
}

pub fn from_json(j: &J) -> V {
    match j["k"].as_str().expect("k") {
        "null" => V::Null,
        "marker" => V::Marker,
        "remove" => V::Remove,
        "na" => V::Na,
        "bool" => V::Bool(j["v"].as_bool().unwrap()),
        "number" => V::Num(f_unjson(&j["v"]), os(&j["unit"])),
        "str" => V::Str(s(&j["v"])),
        "uri" => V::Uri(s(&j["v"])),
        "ref" => V::Ref(s(&j["v"]), os(&j["dis"])),
        "symbol" => V::Sym(s(&j["v"])),
        "date" => V::Date(
            j["v"][0].as_i64().unwrap() as i32,
            j["v"][1].as_u64().unwrap() as u32,
            j["v"][2].as_u64().unwrap() as u32,
        ),
        "time" => V::Time(
            j["v"][0].as_u64().unwrap() as u32,
            j["v"][1].as_u64().unwrap() as u32,
            j["v"][2].as_u64().unwrap() as u32,
            j["v"][3].as_u64().unwrap() as u32,
        ),
        "dateTime" => V::DateTime(DT {
            secs: j["secs"].as_i64().unwrap(),
            nanos: j["nanos"].as_u64().unwrap() as u32,
            offset: j["offset"].as_i64().unwrap() as i32,
            tz_full: s(&j["tz_full"]),
            tz: s(&j["tz"]),
        }),
        "coord" => V::Coord(f_unjson(&j["lat"]), f_unjson(&j["lng"])),
        "xstr" => V::XStr(s(&j["type"]), s(&j["v"])),
        "list" => V::List(j["v"].as_array().unwrap().iter().map(from_json).collect()),
        "dict" => V::Dict(tags_unjson(&j["v"])),
        "grid" => V::Grid(Box::new(G {
            ver: s(&j["ver"]),
            meta: if j["meta"].is_null() { None } else { Some(tags_unjson(&j["meta"])) },
            cols: j["cols"]
                .as_array()
                .unwrap()
                .iter()
                .map(|c| Col {
                    name: s(&c["name"]),
                    meta: if c["meta"].is_null() { None } else { Some(tags_unjson(&c["meta"])) },
                })
                .collect(),
            rows: j["rows"].as_array().unwrap().iter().map(tags_unjson).collect(),
        })),
        k => panic!("harness: unknown kind {k}"),
    }
}
