//! E1 — the bounded universes: scalar alphabet Σ and container universe U(d, w) (DESIGN §5).
//! Everything here is deterministic and explicitly constructed; no sampling.

use super::v::{mk_tags, Col, Tags, G, V};
use crate::engine::Tier;

/// The character alphabet Χ: one element per shortcut visible in encoder, lexer or visitor.
pub const CHI: &[char] = &[
    'a', ' ', '"', '\\', '$', '`', '\'', ',', ':', '\n', '\r', '\t', '\u{8}', '\u{c}', '\u{b}', '\u{f}', '\u{0}',
    '\u{1f}', '\u{7f}', '\u{80}', 'é', '\u{2028}', '\u{fffd}', '\u{ffff}', '😀', 'u', '0', '>', '<', ']', '}',
    '{', '[', '(', ')', '@', '^', '#', '?', '/', '&', '=', ';', 'N', '-', '.',
];

/// 12-character core for the longer strings
pub const CHI_CORE: &[char] = &['a', '"', '\\', '$', '`', '\n', 'é', '😀', 'u', '0', '>', ','];

/// Strings that look like tokens of the formats (keywords, numbers, dates, refs, escapes, Hayson
/// member names, display macros), strings with blanks at the ends, case-mapping oddities, a
/// combining sequence, a BOM, an interior NUL.
pub const WORDS: &[&str] = &[
    "INF", "-INF", "NaN", "NA", "N", "M", "T", "F", "R", "true", "false", "null", "1", "-1", "1e5", "1kW", "2021-01-01", "12:00:00", "2021-01-01T00:00:00Z",
    "2021-01-01T00:00:00Z UTC", "@a", "^a", "`u`", "C(1,2)", "Bin(\"x\")", "ver:\"3.0\"", "<<", ">>", "{a:1}", "[1]", "\"q\"", "_kind", "val", "$a", "${a}", "$<k>", "a b", " lead",
    "trail ", "  ", "\u{c0}\u{c9}", "\u{1c6}", "\u{df}", "e\u{301}", "\u{feff}bom", "a\u{0}b", "\\u0041", "\\n", "a,b", "a\nb\r\nc", "x\u{10ffff}",
];

/// Strings shaped like the type-prefixed scalars of other Haystack encodings (Haystack 3 JSON
/// `n:1 kW`, `r:id Dis`, `m:`, `s:text` …): every one-letter prefix a-z, `-`, and a few capitals,
/// followed by `:` and each of a few payloads. A Str stays a Str whatever it looks like.
pub fn prefixed_words() -> Vec<String> {
    let mut v = vec![];
    let prefixes: Vec<char> = ('a'..='z').chain(['-', 'N', 'M', 'T', 'X', '_']).collect();
    for c in prefixes {
        for payload in ["", "1", "-3.5e3 kW", "NaN", "abc Dis", "2021-01-01", "12:00:00", "2021-01-01T00:00:00Z UTC", "1.5,2.5", "Bin:abc", "http://x/y"] {
            v.push(format!("{c}:{payload}"));
        }
    }
    v
}

pub fn strings(tier: Tier) -> Vec<String> {
    let mut v = vec![String::new()];
    v.extend(WORDS.iter().map(|w| w.to_string()));
    v.extend(prefixed_words());
    for &c in CHI {
        v.push(c.to_string());
    }
    for &a in CHI {
        for &b in CHI {
            v.push(format!("{a}{b}"));
        }
    }
    if tier == Tier::Thorough {
        for &a in CHI_CORE {
            for &b in CHI_CORE {
                for &c in CHI_CORE {
                    v.push(format!("{a}{b}{c}"));
                    for &d in CHI_CORE {
                        v.push(format!("{a}{b}{c}{d}"));
                    }
                }
            }
        }
    }
    v
}

/// Smaller string set for the non-Str positions in the quick tier (all singles + pairs over the core)
pub fn strings_small() -> Vec<String> {
    let mut v = vec![String::new()];
    v.extend(WORDS.iter().map(|w| w.to_string()));
    v.extend(prefixed_words().into_iter().step_by(3));
    for &c in CHI {
        v.push(c.to_string());
    }
    for &a in CHI_CORE {
        for &b in CHI_CORE {
            v.push(format!("{a}{b}"));
        }
    }
    v
}

pub fn uri_ok(s: &str) -> bool {
    !s.chars().any(|c| c.is_control())
}

pub const NUMBERS: &[f64] = &[
    0.0,
    -0.0,
    1.0,
    -1.0,
    0.5,
    1e-7,
    123456789.125,
    9007199254740992.0,     // 2^53
    9223372036854775808.0,  // 2^63
    -9223372036854775808.0, // -2^63
    9007199254740993.0,     // 2^53 + 1 (rounds to even)
    1e21,
    -1e21,
    1.7976931348623157e308,
    5e-324,
    2.2250738585072014e-308,
    -2.5e-3,
    12345.678,
    100.0,
    1e15,
    1e16,
    0.1,
    // around the integer fast paths of the JSON encoder and the 64-bit limits
    9.0e15,
    8999999999999999.0,
    -9.0e15,
    4e18,
    -4e18,
    9223372036854777856.0,   // next above 2^63
    -9223372036854777856.0,  // next below -2^63
    9223372036854774784.0,   // next below 2^63
    1e19,
    -1e19,
    18446744073709551616.0,  // 2^64
    -18446744073709551616.0, // -2^64
    18446744073709555712.0,  // next above 2^64
    -1.8446744073709550e19,  // next above -2^64
    4294967296.0,            // 2^32
    -2147483649.0,
    // shortest decimal forms with 16/17 digits, famous rounding cases, exponent thresholds of Display
    0.30000000000000004,
    1.2345678901234568e17,
    1e22,
    1e23,
    9.999999999999999e22,
    1e-5,
    0.000001,
    1e7,
    123456789012345.67,
    -1e-300,
    1.5e300,
    // halves just below 2^53, 16 significant digits ending in 5, a negative subnormal
    4503599627370496.5,
    6755399441055743.5,
    9007199254740991.0,
    0.1234567890123455,
    1.000000000000005,
    -5e-324,
    2.5e-323,
];

pub const UNITS: &[&str] = &["kW", "°F", "%", "$", "m²", "kWh/m²", "gH₂O/kgAir", "W/ft²_irr", "Δ°C", "µs", "R$", "Ω", "inHg", "ft²"];

pub const REF_IDS: &[&str] = &["a", "A", "0", "a-b", "a:b.c~d_e", "1st", "p:demo:r:2a-b_c.d~e", "-", "_", "~"];
pub const SYMBOLS: &[&str] = &["a", "aB", "a-b", "a:b", "a.b~c_1", "site", "lib:ph", "hot-water-plant"];
pub const XSTR_TYPES: &[&str] = &["X", "Bin", "A_1z", "Span"];

pub const DATES: &[(i32, u32, u32)] =
    &[(0, 1, 1), (999, 12, 31), (2021, 2, 28), (2024, 2, 29), (9999, 12, 31), (1970, 1, 1), (2000, 10, 5)];
pub const TIMES: &[(u32, u32, u32, u32)] = &[
    (0, 0, 0, 0),
    (23, 59, 59, 0),
    (12, 0, 0, 1_000_000),
    (12, 0, 0, 1_000),
    (12, 0, 0, 1),
    (1, 2, 3, 120_000_000),
    (23, 59, 59, 999_999_999),
    (0, 0, 0, 100),
    (7, 8, 9, 123_400_000),
    (7, 8, 9, 10),
];

pub const ZONES: &[&str] = &[
    "UTC",
    "America/New_York",
    "Australia/Sydney",
    "Asia/Kolkata",
    "Asia/Kathmandu",
    "Pacific/Chatham",
    "Pacific/Kiritimati",
    "Pacific/Pago_Pago",
    "America/St_Johns",
    "Europe/London",
    "Etc/GMT+5",
    "Etc/GMT-14",
    "America/Argentina/Buenos_Aires",
    "America/Port-au-Prince",
    "America/Indiana/Knox",
    "Antarctica/DumontDUrville",
    "Africa/Abidjan",
    "Asia/Tokyo",
];

/// 12 base instants (seconds since epoch)
pub const INSTANTS: &[i64] = &[
    0,                 // 1970-01-01T00:00:00Z
    951_782_400,       // 2000-02-29T00:00:00Z
    1_610_000_000,     // 2021-01-07T06:13:20Z
    1_625_097_600,     // 2021-07-01T00:00:00Z
    1_636_264_800,     // 2021-11-07T06:00:00Z (US fall back)
    1_615_705_200,     // 2021-03-14T07:00:00Z (US spring forward)
    1_633_190_400,     // 2021-10-02T16:00:00Z (Sydney spring forward)
    1_617_467_400,     // 2021-04-03T16:30:00Z (Sydney fall back)
    315_532_800,       // 1980-01-01T00:00:00Z
    2_840_140_799,     // 2059-12-31T23:59:59Z
    1_709_251_199,     // 2024-02-29T23:59:59Z
    1_640_995_199,     // 2021-12-31T23:59:59Z
];
pub const FRACTIONS: &[u32] = &[0, 123_000_000, 123_456_000, 123_456_789, 100_000_000, 1, 120_000_000, 123_400_000, 100, 10, 999_999_999, 500_000];

pub const COORDS: &[f64] = &[0.0, -0.0, 37.545, 1e-7, -0.000001];

pub fn numbers() -> Vec<V> {
    let mut v = vec![];
    for &x in NUMBERS {
        v.push(V::num(x));
    }
    for x in [f64::NAN, f64::INFINITY, f64::NEG_INFINITY] {
        v.push(V::num(x));
    }
    for &u in UNITS {
        for &x in &[0.0, -0.0, 1.0, -1.0, 0.5, 1e-7, 123456789.125, 1e21, 5e-324, -5e-324, -2.5e-3, 100.0, 4503599627370496.5] {
            v.push(V::numu(x, u));
        }
    }
    v
}

/// Doubles chosen by the SHAPE of their decimal text rather than by value: every digit count
/// 1..=17 x every position of the decimal point (incl. "0.ddd" and trailing zeros) x several digit
/// patterns (all nines, 1 0..0 1, 97333.., 2^53 neighbours, 1234567.., all fives, 7 2 3 0..), and
/// single-precision readings widened to f64. The value is what a correct parser makes of the text.
pub fn digit_shape_numbers() -> Vec<f64> {
    let mut out: Vec<f64> = vec![];
    let mut seen = std::collections::HashSet::new();
    let mut push = |x: f64, out: &mut Vec<f64>| {
        if x.is_finite() && seen.insert(x.to_bits()) {
            out.push(x);
        }
    };
    let patterns: [&dyn Fn(usize) -> String; 7] = [
        &|d| "9".repeat(d),
        &|d| if d < 2 { "1".into() } else { format!("1{}1", "0".repeat(d - 2)) },
        &|d| if d < 2 { "9".into() } else { format!("97{}", "3".repeat(d - 2)) },
        &|d| "90071992547409931".chars().take(d).collect(),
        &|d| "12345678901234567".chars().take(d).collect(),
        &|d| "5".repeat(d),
        &|d| if d < 3 { "7".repeat(d) } else { format!("723{}1", "0".repeat(d.saturating_sub(4))).chars().take(d).collect() },
    ];
    for d in 1..=17usize {
        for pat in patterns.iter() {
            let digits = pat(d);
            for p in 0..=d {
                let text = if p == 0 { format!("0.{digits}") } else if p == d { digits.clone() } else { format!("{}.{}", &digits[..p], &digits[p..]) };
                if let Ok(x) = text.parse::<f64>() {
                    push(x, &mut out);
                    push(-x, &mut out);
                }
            }
            // small and large by exponent
            for e in [-9i32, -3, 3, 25] {
                if let Ok(x) = format!("{}.{}e{e}", &digits[..1], &digits[1..].to_string()).replace(".e", "e").parse::<f64>() {
                    push(x, &mut out);
                }
            }
        }
    }
    for lit in [72.3f32, 0.1, 101.325, 12.7, 98.6, 3.14159, 1e-3, 0.3, 21.1, 1234.56, 0.05, 99.9, 1e10, 16777217.0, 1.1754944e-38, 3.4028235e38, 7.0e-4, 45.67] {
        push(lit as f64, &mut out);
        push(-(lit as f64), &mut out);
        push((1.0f32 / lit) as f64, &mut out);
    }
    for n in [3.0f64, 7.0, 9.0, 11.0, 13.0] {
        for k in [1.0f64, 10.0, 292.0, 700.0, 1e6] {
            push(k / n, &mut out);
        }
    }
    out
}

pub fn datetimes() -> Vec<V> {
    let mut v = vec![];
    for &z in ZONES {
        for &t in INSTANTS {
            for &f in FRACTIONS {
                v.push(V::dt(t, f, z));
            }
        }
    }
    v
}

/// Σ: every well-formed scalar of the alphabet.
pub fn scalars(tier: Tier) -> Vec<V> {
    let mut v = vec![V::Null, V::Marker, V::Remove, V::Na, V::Bool(true), V::Bool(false)];
    v.extend(numbers());
    let strs = strings(tier);
    let small = if tier == Tier::Thorough { strings(Tier::Quick) } else { strings_small() };
    for s in &strs {
        v.push(V::Str(s.clone()));
    }
    for s in small.iter().filter(|s| uri_ok(s)) {
        v.push(V::Uri(s.clone()));
    }
    for &id in REF_IDS {
        v.push(V::Ref(id.to_string(), None));
    }
    for s in &small {
        v.push(V::Ref("a".to_string(), Some(s.clone())));
        v.push(V::XStr("Bin".to_string(), s.clone()));
    }
    for &id in REF_IDS {
        v.push(V::Ref(id.to_string(), Some("Dis \"x\"".to_string())));
    }
    for &s in SYMBOLS {
        v.push(V::Sym(s.to_string()));
    }
    for &t in XSTR_TYPES {
        v.push(V::XStr(t.to_string(), "v".to_string()));
    }
    for &(y, m, d) in DATES {
        v.push(V::Date(y, m, d));
    }
    for &(h, m, s, n) in TIMES {
        v.push(V::Time(h, m, s, n));
    }
    v.extend(datetimes());
    for &a in COORDS {
        for &b in COORDS {
            v.push(V::Coord(a, b));
        }
    }
    for (a, b) in [(90.0, 180.0), (-90.0, -180.0), (90.0, -180.0), (-90.0, 180.0)] {
        v.push(V::Coord(a, b));
    }
    v.extend(digit_shape_values());
    v
}

/// Numbers (bare, with "kW", with a rotating unit) and coordinates chosen by the shape of their
/// decimal text (see digit_shape_numbers); part of Σ.
pub fn digit_shape_values() -> Vec<V> {
    let mut v = vec![];
    let nums = digit_shape_numbers();
    for (i, &x) in nums.iter().enumerate() {
        v.push(V::num(x));
        v.push(V::numu(x, "kW"));
        v.push(V::numu(x, UNITS[i % UNITS.len()]));
    }
    let shaped: Vec<f64> = nums.into_iter().filter(|x| x.abs() <= 180.0).collect();
    for (i, &x) in shaped.iter().enumerate() {
        let other = shaped[(i * 7 + 3) % shaped.len()];
        if x.abs() <= 90.0 {
            v.push(V::Coord(x, if other.abs() <= 180.0 { other } else { 0.0 }));
        }
        v.push(V::Coord(if other.abs() <= 90.0 { other } else { 1.5 }, x));
    }
    v
}

/// Σ without the digit-shape family (for stages that explore several deviations per value)
pub fn scalars_classic(tier: Tier) -> Vec<V> {
    let n = digit_shape_values().len();
    let mut v = scalars(tier);
    v.truncate(v.len() - n);
    v
}

/// The scalar part of the container sub-pool: one value of every container-sensitive kind.
pub fn pool_scalars() -> Vec<V> {
    vec![
        V::Null,
        V::Marker,
        V::str("x,\n\">>"),
        V::numu(5.5, "kW"),
        V::Ref("a-b".into(), Some("Dis \"1\"".into())),
        V::dt(1_625_097_600, 500_000_000, "America/New_York"),
        V::Coord(37.545, -77.449),
        V::XStr("Bin".into(), "text/plain".into()),
        V::Uri("http://a/b?c=d,e".into()),
        V::Bool(true),
        V::Na,
        V::Remove,
        V::Sym("a-b".into()),
        V::Date(2021, 2, 28),
        V::Time(23, 59, 59, 0),
        V::num(-1.0),
        V::str(""),
    ]
}

pub fn small_grid() -> V {
    V::Grid(Box::new(G {
        ver: "3.0".into(),
        meta: None,
        cols: vec![Col { name: "a".into(), meta: None }, Col { name: "b".into(), meta: None }],
        rows: vec![mk_tags(&[("a", V::num(1.0)), ("b", V::str("s"))]), mk_tags(&[("b", V::Marker)])],
    }))
}

pub fn meta_grid() -> V {
    V::Grid(Box::new(G {
        ver: "3.0".into(),
        meta: Some(mk_tags(&[("dis", V::str("x")), ("m", V::Marker)])),
        cols: vec![Col { name: "a".into(), meta: Some(mk_tags(&[("dis", V::str("c"))])) }],
        rows: vec![mk_tags(&[("a", V::Null)])],
    }))
}

/// depth-1 containers that go into the pool of the next level
pub fn pool_containers1() -> Vec<V> {
    vec![
        V::List(vec![]),
        V::List(vec![V::num(1.0), V::str("s")]),
        V::Dict(vec![]),
        V::dict(&[("a", V::num(1.0)), ("b", V::Marker)]),
        small_grid(),
        meta_grid(),
    ]
}

/// depth-2 containers for the depth-3 pool (every container kind nested in every other)
pub fn pool_containers2() -> Vec<V> {
    let inner = pool_containers1();
    let mut v = vec![];
    for c in &inner {
        v.push(V::List(vec![c.clone()]));
        v.push(V::dict(&[("k", c.clone())]));
        v.push(V::Grid(Box::new(G {
            ver: "3.0".into(),
            meta: None,
            cols: vec![Col { name: "c".into(), meta: None }, Col { name: "d".into(), meta: None }],
            rows: vec![mk_tags(&[("c", c.clone())]), mk_tags(&[("d", c.clone())])],
        })));
    }
    v
}

const KEYS: &[&str] = &["a", "b", "zZ_9"];

fn grid_metas() -> Vec<Option<Tags>> {
    vec![
        None,
        Some(vec![]),
        Some(mk_tags(&[("m", V::Marker)])),
        Some(mk_tags(&[("dis", V::str("x")), ("n", V::num(1.0))])),
    ]
}
fn col_metas() -> Vec<Option<Tags>> {
    vec![None, Some(mk_tags(&[("m", V::Marker)])), Some(mk_tags(&[("dis", V::str("c"))]))]
}

/// every list of length <= w over pool
pub fn lists_over(pool: &[V], w: usize, out: &mut dyn FnMut(V)) {
    fn rec(pool: &[V], w: usize, cur: &mut Vec<V>, out: &mut dyn FnMut(V)) {
        out(V::List(cur.clone()));
        if cur.len() == w {
            return;
        }
        for p in pool {
            cur.push(p.clone());
            rec(pool, w, cur, out);
            cur.pop();
        }
    }
    rec(pool, w, &mut vec![], out);
}

/// every dict with keys ⊆ KEYS (at most w keys) and values in pool
pub fn dicts_over(pool: &[V], w: usize, out: &mut dyn FnMut(V)) {
    let n = KEYS.len();
    for mask in 0u32..(1 << n) {
        let keys: Vec<&str> = (0..n).filter(|i| mask & (1 << i) != 0).map(|i| KEYS[i]).collect();
        if keys.len() > w {
            continue;
        }
        let mut idx = vec![0usize; keys.len()];
        loop {
            let tags: Vec<(&str, V)> = keys.iter().zip(idx.iter()).map(|(k, &i)| (*k, pool[i].clone())).collect();
            out(V::dict(&tags));
            // increment
            let mut p = 0;
            loop {
                if p == idx.len() {
                    break;
                }
                idx[p] += 1;
                if idx[p] < pool.len() {
                    break;
                }
                idx[p] = 0;
                p += 1;
            }
            if p == idx.len() {
                break;
            }
        }
    }
}

/// A grid shape: number of columns, per-column meta variant, number of rows.
#[derive(Clone, Debug)]
pub struct GridShape {
    pub ncols: usize,
    pub col_meta: Vec<usize>,
    pub nrows: usize,
}

pub fn grid_shapes(max_cols: usize, max_rows: usize, col_meta_variants: usize, min_cols: usize) -> Vec<GridShape> {
    let mut v = vec![];
    for ncols in min_cols..=max_cols {
        let mut cmi = vec![0usize; ncols];
        loop {
            for nrows in 0..=max_rows {
                v.push(GridShape { ncols, col_meta: cmi.clone(), nrows });
            }
            let mut p = 0;
            loop {
                if p == cmi.len() {
                    break;
                }
                cmi[p] += 1;
                if cmi[p] < col_meta_variants {
                    break;
                }
                cmi[p] = 0;
                p += 1;
            }
            if p == cmi.len() {
                break;
            }
        }
    }
    v
}

/// every grid of the shape; cells range over `cp` ∪ {missing}; all four grid-meta variants.
/// A row of a one-column grid always has its cell (an empty line cannot be spelled in Zinc).
pub fn grids_of_shape(shape: &GridShape, cp: &[V], out: &mut dyn FnMut(V)) {
    let names = ["a", "b", "zZ_9"];
    let gm = grid_metas();
    let cm = col_metas();
    let ncols = shape.ncols;
    let nrows = shape.nrows;
    let ncells = ncols * nrows;
    let opts = cp.len() + 1; // + missing
    let mut ci = vec![0usize; ncells];
    loop {
        let mut rows: Vec<Tags> = vec![];
        let mut ok = true;
        for r in 0..nrows {
            let mut row: Vec<(&str, V)> = vec![];
            for c in 0..ncols {
                let k = ci[r * ncols + c];
                if k > 0 {
                    row.push((names[c], cp[k - 1].clone()));
                }
            }
            if ncols == 1 && row.is_empty() {
                ok = false;
            }
            rows.push(mk_tags(&row));
        }
        if ok {
            for meta in &gm {
                out(V::Grid(Box::new(G {
                    ver: "3.0".into(),
                    meta: meta.clone(),
                    cols: (0..ncols)
                        .map(|c| Col { name: names[c].to_string(), meta: cm[shape.col_meta[c]].clone() })
                        .collect(),
                    rows: rows.clone(),
                })));
            }
        }
        let mut p = 0;
        loop {
            if p == ci.len() {
                break;
            }
            ci[p] += 1;
            if ci[p] < opts {
                break;
            }
            ci[p] = 0;
            p += 1;
        }
        if p == ci.len() {
            break;
        }
    }
}

pub fn cell_pool() -> Vec<V> {
    vec![V::Null, V::str("x,\n\">>"), V::numu(5.5, "kW"), V::List(vec![V::num(1.0), V::str("s")]), small_grid()]
}

/// A shard of the container universe: a closure that enumerates one sub-space into a sink.
pub type Shard = Box<dyn Fn(&mut dyn FnMut(V)) + Send + Sync>;

fn grid_shards(pool: Vec<V>, cellp: Vec<V>, max_cols: usize, max_rows: usize, full_cells: usize, cmv: usize, min_cols: usize, out: &mut Vec<Shard>) {
    for sh in grid_shapes(max_cols, max_rows, cmv, min_cols) {
        let cp = if sh.ncols * sh.nrows <= full_cells { pool.clone() } else { cellp.clone() };
        out.push(Box::new(move |sink| grids_of_shape(&sh, &cp, sink)));
    }
}

/// Container universe as shards. quick: U(2,2) (+ 3 columns x <=1 row, + all 27 depth-3 chains);
/// thorough: lists/dicts of width 3, grids up to 3 columns x 2 rows, depth-3 pools of width 2.
pub fn container_shards(tier: Tier) -> Vec<Shard> {
    let mut pool = pool_scalars();
    pool.extend(pool_containers1());
    let mut out: Vec<Shard> = vec![];
    let w = tier.pick(2, 3);
    for first in 0..=pool.len() {
        // lists sharded by first element (first == len: the empty list)
        let p = pool.clone();
        out.push(Box::new(move |sink| {
            if first == p.len() {
                sink(V::List(vec![]));
            } else {
                let mut tails = vec![];
                lists_over(&p, w - 1, &mut |v| tails.push(v));
                for t in tails {
                    if let V::List(t) = t {
                        let mut l = vec![p[first].clone()];
                        l.extend(t);
                        sink(V::List(l));
                    }
                }
            }
        }));
    }
    {
        let p = pool.clone();
        out.push(Box::new(move |sink| dicts_over(&p, w, sink)));
    }
    let p2 = {
        let mut p2 = pool_containers2();
        if tier == Tier::Thorough {
            p2.extend(pool_scalars().into_iter().take(4));
        }
        p2
    };
    match tier {
        Tier::Quick => {
            grid_shards(pool.clone(), cell_pool(), 2, 2, 2, 3, 1, &mut out);
            grid_shards(pool.clone(), cell_pool(), 3, 1, 0, 2, 3, &mut out);
            let q = p2.clone();
            out.push(Box::new(move |sink| lists_over(&q, 1, sink)));
            let q = p2.clone();
            out.push(Box::new(move |sink| dicts_over(&q, 1, sink)));
            grid_shards(p2.clone(), p2.clone(), 1, 1, 1, 1, 1, &mut out);
        }
        Tier::Thorough => {
            grid_shards(pool.clone(), cell_pool(), 3, 2, 2, 3, 1, &mut out);
            let q = p2.clone();
            out.push(Box::new(move |sink| lists_over(&q, 2, sink)));
            let q = p2.clone();
            out.push(Box::new(move |sink| dicts_over(&q, 2, sink)));
            grid_shards(p2.clone(), p2.clone(), 2, 1, 2, 2, 1, &mut out);
        }
    }
    out.push(Box::new(ver_variants));
    out.push(Box::new(member_name_values));
    out.push(Box::new(unit_named_keys));
    out.push(Box::new(order_variants));
    out
}

/// Order and repetition: grids whose columns are not in name order, the same row / element /
/// value twice, a Ref and a Str with the same text side by side, two Numbers with the same unit,
/// rows whose cells are given in another order than the columns.
pub fn order_variants(sink: &mut dyn FnMut(V)) {
    let vals = [V::num(1.0), V::numu(1.0, "kW"), V::str("r"), V::Ref("r".into(), None), V::Ref("r".into(), Some("r".into())), V::Sym("r".into()), V::Uri("r".into()), V::Marker, V::dt(1_625_097_600, 0, "America/New_York")];
    for a in &vals {
        for b in &vals {
            sink(V::List(vec![a.clone(), b.clone(), a.clone()]));
            sink(V::dict(&[("a", a.clone()), ("b", b.clone()), ("c", a.clone())]));
            for cols in [["b", "a", "c"], ["c", "b", "a"], ["zZ_9", "a", "B"]] {
                let valid = cols.iter().all(|c| c.chars().next().unwrap().is_ascii_lowercase());
                if !valid {
                    continue;
                }
                let row = mk_tags(&[(cols[0], a.clone()), (cols[2], b.clone())]);
                sink(V::Grid(Box::new(G {
                    ver: "3.0".into(),
                    meta: Some(mk_tags(&[("m", a.clone()), ("n", b.clone())])),
                    cols: cols.iter().map(|c| Col { name: c.to_string(), meta: if *c == "a" { Some(mk_tags(&[("k", b.clone())])) } else { None } }).collect(),
                    rows: vec![row.clone(), mk_tags(&[(cols[1], b.clone())]), row],
                })));
            }
        }
    }
}

/// Grids whose `ver` is not the default, with every grid-meta variant (absent, empty, one tag,
/// two tags), three shapes, bare and nested in a list, a dict and a cell of a default-`ver` and of
/// a non-default-`ver` grid.
pub fn ver_variants(sink: &mut dyn FnMut(V)) {
    let cm = col_metas();
    for ver in ["2.0", "3.1"] {
        for meta in grid_metas() {
            let shapes: Vec<(Vec<Col>, Vec<Tags>)> = vec![
                (vec![Col { name: "a".into(), meta: None }], vec![]),
                (vec![Col { name: "a".into(), meta: None }], vec![mk_tags(&[("a", V::num(1.0))])]),
                (
                    vec![Col { name: "a".into(), meta: cm[1].clone() }, Col { name: "b".into(), meta: cm[2].clone() }],
                    vec![mk_tags(&[("a", V::str("x")), ("b", V::Null)]), mk_tags(&[("b", V::Marker)])],
                ),
            ];
            for (cols, rows) in shapes {
                let g = V::Grid(Box::new(G { ver: ver.into(), meta: meta.clone(), cols, rows }));
                sink(g.clone());
                sink(V::List(vec![g.clone(), V::num(1.0)]));
                sink(V::dict(&[("k", g.clone())]));
                for outer in ["3.0", ver] {
                    sink(V::Grid(Box::new(G {
                        ver: outer.into(),
                        meta: None,
                        cols: vec![Col { name: "c".into(), meta: None }, Col { name: "d".into(), meta: None }],
                        rows: vec![mk_tags(&[("c", g.clone())]), mk_tags(&[("d", V::num(2.0))])],
                    })));
                }
            }
        }
    }
}

/// Materialised container universe (quick tier sizes only).
pub fn containers(tier: Tier) -> Vec<V> {
    let mut v = vec![];
    for sh in container_shards(tier) {
        sh(&mut |x| v.push(x));
    }
    v
}

// ---------------------------------------------------------------------------------------------
// Size witnesses: values at and around the sizes where buffers, length fields and recursion
// limits live (2^6, 2^7, 2^8, 2^10, 2^12, 2^13, 2^16), which the small alphabets above never reach.

fn pattern_string(n: usize, plain: bool) -> String {
    const MIX: &[char] = &['a', 'Z', '0', ' ', 'é', '"', '\\', '\n', '😀', '$', 'x', ',', '`', '\t', 'Ω'];
    const PLAIN: &[char] = &['a', 'Z', '0', 'b', '_', 'c', '9'];
    let set = if plain { PLAIN } else { MIX };
    (0..n).map(|i| set[(i * 7 + i / set.len()) % set.len()]).collect()
}

pub const SIZE_LENGTHS: &[usize] = &[
    5, 6, 7, 8, 9, 10, 11, 12, 13, 14, 15, 16, 17, 18, 19, 20, 21, 22, 23, 24, 25, 26, 27, 28, 29, 30, 31, 32, 33, 34, 35, 36, 37, 38, 39, 40, 41, 42, 43, 44, 45, 46, 47, 48, 49, 50, 51, 52, 53, 54, 55, 56, 57,
    58, 59, 60, 61, 62, 63, 64, 65, 66, 67, 68, 69, 70, 71, 72, 127, 128, 129, 255, 256, 257, 1023, 1024, 1025, 4095, 4096, 4097, 8191, 8192, 8193, 65535, 65536, 65537,
];

pub fn size_witnesses(tier: Tier) -> Vec<V> {
    let mut v = vec![];
    let lens: Vec<usize> = SIZE_LENGTHS.iter().copied().filter(|&n| tier == Tier::Thorough || n <= 8193).collect();
    for &n in &lens {
        v.push(V::Str(pattern_string(n, false)));
        v.push(V::Str(pattern_string(n, true)));
        if n <= 8193 {
            let uri: String = pattern_string(n, false).chars().filter(|c| !c.is_control()).collect();
            v.push(V::Uri(uri));
            v.push(V::Ref(pattern_string(n, true), Some(pattern_string(n, false))));
            v.push(V::Sym(format!("s{}", pattern_string(n, true))));
            v.push(V::XStr("Bin".into(), pattern_string(n, false)));
            v.push(V::dict(&[(format!("t{}", pattern_string(n, true)).as_str(), V::Marker)]));
        }
    }
    // a special character at every byte offset up to 320 and around 512, 1024, 4096, 8192, 65536
    // (last character, and followed by one more): whatever the size of a scratch buffer, some offset
    // puts the character — raw, or as the escape the writer chooses for it — across its end
    let offsets: Vec<usize> = (0..=320usize).chain(508..=516).chain(1020..=1028).chain(4092..=4100).chain(8188..=8196).chain(if tier == Tier::Thorough { 65530..=65540 } else { 0..=0 }).collect();
    for k in offsets {
        for c in ['é', '€', '😀', '"', '\\', '$', '`', '\n'] {
            for tail in ["", "b"] {
                if k > 72 && !tail.is_empty() && k % 4 != 0 {
                    continue;
                }
                let t = format!("{}{c}{tail}", "a".repeat(k));
                v.push(V::Str(t.clone()));
                if k % 8 == 0 || k % 8 == 7 {
                    if !c.is_control() {
                        v.push(V::Uri(t.clone()));
                    }
                    v.push(V::Ref("r".into(), Some(t.clone())));
                    v.push(V::XStr("Bin".into(), t));
                }
            }
        }
    }
    // wide containers: every width up to 72, then around the powers of two
    let mut widths: Vec<usize> = (5..=72).collect();
    widths.extend([127, 128, 129, 255, 256, 257, 1000, 4096]);
    for &n in &widths {
        if tier == Tier::Quick && n > 1000 {
            continue;
        }
        v.push(V::List((0..n).map(|i| if i % 3 == 0 { V::num(i as f64) } else if i % 3 == 1 { V::Str(format!("s{i}")) } else { V::Marker }).collect()));
        let tags: Vec<(String, V)> = (0..n).map(|i| (format!("t{i}"), if i % 2 == 0 { V::num(i as f64 + 0.5) } else { V::Marker })).collect();
        let mut tags = tags;
        tags.sort_by(|a, b| a.0.cmp(&b.0));
        v.push(V::Dict(tags.clone()));
        // a grid with n columns and 2 rows, and one with 3 columns and n rows
        if n <= 1000 {
            let cols: Vec<Col> = (0..n).map(|i| Col { name: format!("c{i}"), meta: if i % 5 == 0 { Some(mk_tags(&[("dis", V::Str(format!("Col {i}")))])) } else { None } }).collect();
            let mut row: Tags = (0..n).filter(|i| i % 4 != 1).map(|i| (format!("c{i}"), if i % 4 == 0 { V::num(i as f64) } else { V::Str(format!("v{i}")) })).collect();
            row.sort_by(|a, b| a.0.cmp(&b.0));
            v.push(V::Grid(Box::new(G { ver: "3.0".into(), meta: None, cols, rows: vec![row.clone(), vec![], row] })));
        }
        let rows: Vec<Tags> = (0..n)
            .map(|i| {
                let mut t = vec![("a", V::num(i as f64))];
                if i % 2 == 0 {
                    t.push(("b", V::Str(pattern_string(i % 50, false))));
                }
                if i % 7 == 0 {
                    t.push(("c", V::List(vec![V::num(1.0), V::Marker])));
                }
                mk_tags(&t)
            })
            .collect();
        v.push(V::Grid(Box::new(G {
            ver: "3.0".into(),
            meta: Some(mk_tags(&[("dis", V::str("big"))])),
            cols: vec![Col { name: "a".into(), meta: None }, Col { name: "b".into(), meta: None }, Col { name: "c".into(), meta: None }],
            rows,
        })));
    }
    // many sibling containers at the same depth (a depth counter that leaks per container shows here)
    for &n in &widths {
        if n > 1000 {
            continue;
        }
        let g = |i: usize| V::Grid(Box::new(G { ver: "3.0".into(), meta: None, cols: vec![Col { name: "v".into(), meta: None }], rows: vec![mk_tags(&[("v", V::num(i as f64))])] }));
        v.push(V::List((0..n).map(g).collect()));
        v.push(V::List((0..n).map(|i| V::List(vec![V::num(i as f64)])).collect()));
        v.push(V::List((0..n).map(|i| V::dict(&[("k", V::num(i as f64))])).collect()));
        v.push(V::Grid(Box::new(G {
            ver: "3.0".into(),
            meta: None,
            cols: vec![Col { name: "id".into(), meta: None }, Col { name: "his".into(), meta: None }],
            rows: (0..n).map(|i| mk_tags(&[("id", V::Ref(format!("p{i}"), None)), ("his", g(i))])).collect(),
        })));
    }
    // deep nesting below the decoders' limit (128): list / dict / grid chains and mixed
    for &d in &[8usize, 16, 32, 40, 60, 100, 120, 126, 127] {
        for pat in [b"l".as_slice(), b"d", b"g", b"ldg", b"gl"] {
            let mut cur = V::num(1.0);
            for i in (0..d).rev() {
                cur = match pat[i % pat.len()] {
                    b'l' => V::List(vec![cur]),
                    b'd' => V::dict(&[("a", cur)]),
                    _ => V::Grid(Box::new(G { ver: "3.0".into(), meta: None, cols: vec![Col { name: "a".into(), meta: None }], rows: vec![mk_tags(&[("a", cur)])] })),
                };
            }
            v.push(cur);
        }
    }
    v
}

/// nesting depth of the Hayson document of a value (JSON arrays and objects)
pub fn json_depth(v: &V) -> usize {
    let tags = |t: &Tags| t.iter().map(|(_, x)| json_depth(x)).max().unwrap_or(0);
    match v {
        V::Null | V::Bool(_) | V::Str(_) => 0,
        V::Num(x, None) if x.is_finite() => 0,
        V::List(l) => 1 + l.iter().map(json_depth).max().unwrap_or(0),
        V::Dict(d) => 1 + tags(d),
        V::Grid(g) => {
            let meta = 1 + g.meta.as_ref().map_or(0, |m| tags(m));
            let cols = 2 + g.cols.iter().map(|c| c.meta.as_ref().map_or(0, |m| 1 + tags(m))).max().unwrap_or(0);
            let rows = 2 + g.rows.iter().map(|r| tags(r)).max().unwrap_or(0);
            1 + meta.max(cols).max(rows)
        }
        _ => 1,
    }
}

/// `size_witnesses`, built once per tier
pub fn size_witnesses_cached(tier: Tier) -> &'static Vec<V> {
    static Q: std::sync::OnceLock<Vec<V>> = std::sync::OnceLock::new();
    static T: std::sync::OnceLock<Vec<V>> = std::sync::OnceLock::new();
    match tier {
        Tier::Quick => Q.get_or_init(|| size_witnesses(Tier::Quick)),
        Tier::Thorough => T.get_or_init(|| size_witnesses(Tier::Thorough)),
    }
}

/// Tag names that are also member names of the Hayson encoding (or keywords of Zinc), as dict
/// tags, grid columns, grid meta and column meta tags: a decoder that guesses the kind from the
/// members present, or an encoder that confuses a tag with a member, shows here.
pub const MEMBER_NAMES: &[&str] = &["val", "unit", "dis", "tz", "cols", "rows", "meta", "type", "lat", "lng", "ver", "name", "id", "kind", "empty", "na", "inf", "nan", "t", "f", "n", "m", "r"];

pub fn member_name_values(sink: &mut dyn FnMut(V)) {
    let vals: Vec<V> = vec![
        V::str("x"),
        V::num(1.0),
        V::List(vec![]),
        V::List(vec![V::str("a")]),
        V::List(vec![V::dict(&[("name", V::str("a"))])]),
        V::Dict(vec![]),
        V::dict(&[("ver", V::str("3.0"))]),
        V::Marker,
        // strings that mean something to the member of that name
        V::str("kW"),
        V::str("New_York"),
        V::str("number"),
        V::str("2.0"),
    ];
    // the static list first (also paired with each other), then every name harvested from the source
    let mut all: Vec<String> = MEMBER_NAMES.iter().map(|s| s.to_string()).collect();
    for h in harvested_names() {
        if !all.contains(h) {
            all.push(h.clone());
        }
    }
    let names: Vec<&str> = all.iter().map(|s| s.as_str()).collect();
    let n_static = MEMBER_NAMES.len();
    let n = names.len();
    for i in 0..n {
        for a in &vals {
            let d = V::dict(&[(names[i], a.clone())]);
            sink(d.clone());
            sink(V::List(vec![d.clone()]));
            // as a column, with that tag in the row, in grid meta and in column meta
            sink(V::Grid(Box::new(G {
                ver: "3.0".into(),
                // `ver` is the one reserved grid-meta name: both formats carry the grid version there
                meta: if names[i] == "ver" { None } else { Some(mk_tags(&[(names[i], a.clone())])) },
                cols: vec![Col { name: names[i].to_string(), meta: Some(mk_tags(&[(names[i], a.clone())])) }, Col { name: "zz".into(), meta: None }],
                rows: vec![mk_tags(&[(names[i], a.clone())]), mk_tags(&[("zz", d.clone())]), mk_tags(&[(names[i], V::num(3.0)), ("zz", V::num(4.0))])],
            })));
            for j in (i + 1)..n_static.max(i + 1).min(n) {
                if i >= n_static {
                    break;
                }
                for b in &vals {
                    sink(V::dict(&[(names[i], a.clone()), (names[j], b.clone())]));
                }
            }
        }
    }
    // the three grid members together, and the members of each scalar kind together
    for a in &vals {
        for b in &vals {
            for c in &vals {
                sink(V::dict(&[("meta", a.clone()), ("cols", b.clone()), ("rows", c.clone())]));
            }
            sink(V::dict(&[("val", a.clone()), ("unit", b.clone()), ("kind", V::str("number"))]));
            sink(V::dict(&[("val", a.clone()), ("tz", b.clone())]));
            sink(V::dict(&[("lat", a.clone()), ("lng", b.clone())]));
            sink(V::dict(&[("type", a.clone()), ("val", b.clone())]));
            sink(V::dict(&[("val", a.clone()), ("dis", b.clone())]));
        }
    }
}

/// Every unit identifier that is also a legal tag name (`m`, `s`, `min`, `day`, `ph`, `volt` …) as the
/// tag that FOLLOWS a unit-less Number in a dict, in grid meta and in column meta (the
/// blank-separated contexts of Zinc), and as a column name after a Number cell.
pub fn unit_named_keys(sink: &mut dyn FnMut(V)) {
    let mut ids: Vec<String> = vec![];
    for u in &super::units_ref::db().units {
        for id in &u.ids {
            let mut cs = id.chars();
            let ok = cs.next().map_or(false, |c| c.is_ascii_lowercase()) && cs.all(|c| c.is_ascii_alphanumeric() || c == '_');
            if ok && id.as_str() > "a0" && !ids.contains(id) {
                ids.push(id.clone());
            }
        }
    }
    ids.sort();
    for id in &ids {
        for follower in [V::Marker, V::num(7.0), V::str("s")] {
            let tags = mk_tags(&[("a0", V::num(5.0)), (id.as_str(), follower.clone())]);
            sink(V::Dict(tags.clone()));
            sink(V::Grid(Box::new(G {
                ver: "3.0".into(),
                meta: Some(tags.clone()),
                cols: vec![Col { name: "a0".into(), meta: Some(tags.clone()) }, Col { name: id.clone(), meta: None }],
                rows: vec![tags.clone(), mk_tags(&[("a0", V::num(-1.5))])],
            })));
        }
        sink(V::List(vec![V::num(5.0), V::Sym(id.clone()), V::num(1e21), V::Str(id.clone())]));
    }
}

/// Identifier-like string literals of the library's own source (tag names, member names, keywords
/// the code gives a meaning to): read from /repo/src at run time, so a change that starts to treat
/// a new name specially brings that name into the alphabets by itself.
pub fn harvested_names() -> &'static Vec<String> {
    static N: std::sync::OnceLock<Vec<String>> = std::sync::OnceLock::new();
    N.get_or_init(|| {
        let mut out = std::collections::BTreeSet::new();
        fn walk(dir: &std::path::Path, out: &mut std::collections::BTreeSet<String>) {
            let Ok(rd) = std::fs::read_dir(dir) else { return };
            for e in rd.flatten() {
                let p = e.path();
                if p.is_dir() {
                    walk(&p, out);
                } else if p.extension().map_or(false, |x| x == "rs") && !p.ends_with("units_generated.rs") && !p.ends_with("verif_hooks.rs") {
                    let Ok(text) = std::fs::read_to_string(&p) else { continue };
                    // stop at the unit tests of the file
                    let text = text.split("#[cfg(test)]").next().unwrap_or("").to_string();
                    let b = text.as_bytes();
                    let mut i = 0;
                    while i < b.len() {
                        if b[i] == b'"' {
                            let st = i + 1;
                            let mut j = st;
                            while j < b.len() && b[j] != b'"' && b[j] != b'\\' && j - st < 40 {
                                j += 1;
                            }
                            if j < b.len() && b[j] == b'"' {
                                let w = &text[st..j];
                                let mut cs = w.chars();
                                if cs.next().map_or(false, |c| c.is_ascii_lowercase()) && w.len() <= 24 && cs.all(|c| c.is_ascii_alphanumeric() || c == '_') {
                                    out.insert(w.to_string());
                                }
                                i = j;
                            }
                        }
                        i += 1;
                    }
                }
            }
        }
        walk(std::path::Path::new(&format!("{}/src", crate::engine::repo_dir())), &mut out);
        out.into_iter().collect()
    })
}
