//! Pure-Rust model of the C API (DESIGN Appendix C) and the executor that drives the real
//! `extern "C"` functions in lock-step with it. Shared by C17 (behaviour) and C18 (memory safety).
//!
//! Pool: `SLOTS` value handles + one filter handle. Every operation is specified as: precondition
//! on kinds / indices -> Rust operation on the model -> documented return value; otherwise the
//! documented sentinel, an error message that can be retrieved exactly once, all handles unchanged.

use super::v::{from_lib, same_strict, to_lib, Tags, G, V};
use libhaystack::c_api::coord::*;
use libhaystack::c_api::date::*;
use libhaystack::c_api::datetime::*;
use libhaystack::c_api::dict::*;
use libhaystack::c_api::err::last_error_message;
use libhaystack::c_api::filter::*;
use libhaystack::c_api::grid::*;
use libhaystack::c_api::json::*;
use libhaystack::c_api::list::*;
use libhaystack::c_api::number::*;
use libhaystack::c_api::reference::*;
use libhaystack::c_api::str::*;
use libhaystack::c_api::symbol::*;
use libhaystack::c_api::time::*;
use libhaystack::c_api::uri::*;
use libhaystack::c_api::value::*;
use libhaystack::c_api::xstr::*;
use libhaystack::c_api::zinc::*;
use libhaystack::c_api::ResultType;
use libhaystack::filter::{Filter, Filtered, ListFiltered};
use libhaystack::val::Value;
use std::ffi::{CStr, CString};
use std::os::raw::c_char;

pub const SLOTS: usize = 3;

#[derive(Clone, Debug, PartialEq)]
pub enum Ctor {
    Init,
    Marker,
    Na,
    Remove,
    Bool(bool),
    Number,
    NumberUnit(&'static [u8]),
    Coord,
    Str(&'static [u8]),
    Ref(&'static [u8]),
    RefDis,
    Uri(&'static [u8]),
    Symbol(&'static [u8]),
    XStr(&'static [u8]),
    Time(u32, u32, u32),
    TimeMillis(u32),
    Date(i32, u32, u32),
    List,
    Dict,
    Grid,
    Zinc(&'static [u8]),
    Json(&'static [u8]),
    /// from the handles in two other slots
    UtcDt(usize, usize),
    TzDt(usize, usize, &'static [u8]),
    GridFromRows(usize),
    GridFromRowsMeta(usize, usize),
}

#[derive(Clone, Debug, PartialEq)]
pub enum Op {
    Make(usize, Ctor),
    Destroy(usize),
    Push(usize, usize),
    SetAt(usize, usize, usize),
    RemoveAt(usize, usize),
    GetAt(usize, usize),
    Insert(usize, &'static [u8], usize),
    RemoveKey(usize, &'static [u8]),
    GetKey(usize, &'static [u8]),
    Keys(usize, usize),
    RowAt(usize, usize, usize),
    DtDate(usize, bool, usize),
    DtTime(usize, bool, usize),
    FilterParse(&'static [u8]),
    MatchDict(usize),
    FirstMatch(usize, usize),
    MatchAll(usize, usize),
}

pub const BAD_UTF8: &[u8] = b"\xff\xfe";

/// the model pool
#[derive(Clone, Debug)]
pub struct Model {
    pub slots: Vec<Option<V>>,
    pub filter: Option<String>,
}

impl Model {
    pub fn new() -> Model {
        Model { slots: vec![None; SLOTS], filter: None }
    }
    pub fn key(&self) -> String {
        format!("{:?}|{:?}", self.slots, self.filter)
    }
}

fn utf8(b: &[u8]) -> Option<&str> {
    std::str::from_utf8(b).ok()
}

/// outcome of one operation in the model: what the C function must return
#[derive(Clone, Debug, PartialEq)]
pub enum Ret {
    /// a new handle was produced (constructors) / TRUE
    Ok,
    /// FALSE (absent key / no match)
    False,
    /// documented failure: sentinel + error pending, nothing changed
    Fail,
}

fn rows_of(list: &[V]) -> Vec<Tags> {
    list.iter()
        .filter_map(|v| match v {
            V::Dict(d) => Some(d.clone()),
            _ => None,
        })
        .collect()
}

fn grid_from_rows(rows: Vec<Tags>, meta: Option<Tags>) -> V {
    let mut cols: Vec<String> = rows.iter().flat_map(|r| r.iter().map(|(k, _)| k.clone())).collect();
    cols.sort();
    cols.dedup();
    V::Grid(Box::new(G { ver: "3.0".into(), meta, cols: cols.into_iter().map(|name| super::v::Col { name, meta: None }).collect(), rows }))
}

/// value a constructor produces in the model; None = documented failure
pub fn ctor_value(m: &Model, c: &Ctor) -> Option<V> {
    Some(match c {
        Ctor::Init => V::Null,
        Ctor::Marker => V::Marker,
        Ctor::Na => V::Na,
        Ctor::Remove => V::Remove,
        Ctor::Bool(b) => V::Bool(*b),
        Ctor::Number => V::num(5.5),
        Ctor::NumberUnit(u) => {
            let u = utf8(u)?;
            V::Num(5.0, Some(super::units_ref::canonical(u)?))
        }
        Ctor::Coord => V::Coord(37.5, -77.25),
        Ctor::Str(s) => V::Str(utf8(s)?.to_string()),
        Ctor::Ref(s) => V::Ref(utf8(s)?.to_string(), None),
        Ctor::RefDis => V::Ref("r".into(), Some("Dis".into())),
        Ctor::Uri(s) => V::Uri(utf8(s)?.to_string()),
        Ctor::Symbol(s) => V::Sym(utf8(s)?.to_string()),
        Ctor::XStr(s) => V::XStr("Bin".into(), utf8(s)?.to_string()),
        Ctor::Time(h, mi, s) => {
            if *h > 23 || *mi > 59 || *s > 59 {
                return None;
            }
            V::Time(*h, *mi, *s, 0)
        }
        Ctor::TimeMillis(ms) => {
            if *ms > 999 {
                // chrono accepts 1000..1999 only for second 59 (leap second); we use second 3
                return None;
            }
            V::Time(1, 2, 3, ms * 1_000_000)
        }
        Ctor::Date(y, mo, d) => {
            chrono::NaiveDate::from_ymd_opt(*y, *mo, *d)?;
            V::Date(*y, *mo, *d)
        }
        Ctor::List => V::List(vec![]),
        Ctor::Dict => V::Dict(vec![]),
        Ctor::Grid => V::Grid(Box::new(G { ver: "3.0".into(), meta: None, cols: vec![super::v::Col { name: "empty".into(), meta: None }], rows: vec![] })),
        Ctor::Zinc(t) => {
            let t = utf8(t)?;
            // the Rust decoder is the reference ("return what the Rust codecs return")
            from_lib(&libhaystack::encoding::zinc::decode::from_str(t).ok()?)
        }
        Ctor::Json(t) => {
            let t = utf8(t)?;
            from_lib(&serde_json::from_str::<Value>(t).ok()?)
        }
        Ctor::UtcDt(a, b) => match (m.slots[*a].as_ref()?, m.slots[*b].as_ref()?) {
            (V::Date(y, mo, d), V::Time(h, mi, s, n)) => {
                let secs = super::time_ref::days_from_civil(*y as i64, *mo as i64, *d as i64) * 86400 + (*h as i64) * 3600 + (*mi as i64) * 60 + *s as i64;
                V::dt(secs, *n, "UTC")
            }
            _ => return None,
        },
        Ctor::TzDt(a, b, tz) => match (m.slots[*a].as_ref()?, m.slots[*b].as_ref()?) {
            (V::Date(y, mo, d), V::Time(h, mi, s, n)) => {
                let tz = utf8(tz)?;
                let full = match tz {
                    "New_York" => "America/New_York",
                    "UTC" => "UTC",
                    _ => return None,
                };
                // the date and time are the UTC fields of the instant (as in make_utc_datetime)
                let secs = super::time_ref::days_from_civil(*y as i64, *mo as i64, *d as i64) * 86400 + (*h as i64) * 3600 + (*mi as i64) * 60 + *s as i64;
                V::dt(secs, *n, full)
            }
            _ => return None,
        },
        Ctor::GridFromRows(a) => match m.slots[*a].as_ref()? {
            V::List(l) => {
                let rows = rows_of(l);
                if rows.is_empty() {
                    return None;
                }
                grid_from_rows(rows, None)
            }
            _ => return None,
        },
        Ctor::GridFromRowsMeta(a, b) => match (m.slots[*a].as_ref()?, m.slots[*b].as_ref()?) {
            (V::List(l), V::Dict(meta)) => {
                let rows = rows_of(l);
                if rows.is_empty() {
                    return None;
                }
                grid_from_rows(rows, Some(meta.clone()))
            }
            _ => return None,
        },
    })
}

fn lib_filter(text: &str) -> Option<Filter> {
    Filter::try_from(text).ok()
}

fn dict_of(v: &V) -> libhaystack::val::Dict {
    match to_lib(v) {
        Value::Dict(d) => d,
        _ => unreachable!(),
    }
}

/// expected borrowed / out value of the read-only operations
#[derive(Clone, Debug)]
pub struct Expect {
    pub ret: Ret,
    /// value a borrowed entry pointer must point to (GetAt / GetKey)
    pub borrowed: Option<V>,
}

/// apply the operation to the model
pub fn model_step(m: &mut Model, op: &Op) -> Expect {
    let fail = Expect { ret: Ret::Fail, borrowed: None };
    let ok = Expect { ret: Ret::Ok, borrowed: None };
    match op {
        Op::Make(s, c) => match ctor_value(m, c) {
            Some(v) => {
                m.slots[*s] = Some(v);
                ok
            }
            None => fail,
        },
        Op::Destroy(s) => {
            m.slots[*s] = None;
            ok
        }
        Op::Push(s, t) => {
            let entry = m.slots[*t].clone().unwrap();
            match m.slots[*s].as_mut().unwrap() {
                V::List(l) => {
                    l.push(entry);
                    ok
                }
                _ => fail,
            }
        }
        Op::SetAt(s, i, t) => {
            let entry = m.slots[*t].clone().unwrap();
            match m.slots[*s].as_mut().unwrap() {
                V::List(l) if *i < l.len() => {
                    l[*i] = entry;
                    ok
                }
                _ => fail,
            }
        }
        Op::RemoveAt(s, i) => match m.slots[*s].as_mut().unwrap() {
            V::List(l) if *i < l.len() => {
                l.remove(*i);
                ok
            }
            _ => fail,
        },
        Op::GetAt(s, i) => match m.slots[*s].as_ref().unwrap() {
            V::List(l) if *i < l.len() => Expect { ret: Ret::Ok, borrowed: Some(l[*i].clone()) },
            _ => fail,
        },
        Op::Insert(s, k, t) => {
            let entry = m.slots[*t].clone().unwrap();
            let key = match utf8(k) {
                Some(k) => k.to_string(),
                None => return fail,
            };
            match m.slots[*s].as_mut().unwrap() {
                V::Dict(d) => {
                    d.retain(|(n, _)| *n != key);
                    d.push((key, entry));
                    d.sort_by(|a, b| a.0.cmp(&b.0));
                    ok
                }
                _ => fail,
            }
        }
        Op::RemoveKey(s, k) => {
            let key = match utf8(k) {
                Some(k) => k.to_string(),
                None => return fail,
            };
            match m.slots[*s].as_mut().unwrap() {
                V::Dict(d) => {
                    d.retain(|(n, _)| *n != key);
                    ok
                }
                _ => fail,
            }
        }
        Op::GetKey(s, k) => {
            let key = match utf8(k) {
                Some(k) => k,
                None => return fail,
            };
            match m.slots[*s].as_ref().unwrap() {
                V::Dict(d) => match d.iter().find(|(n, _)| n == key) {
                    Some((_, v)) => Expect { ret: Ret::Ok, borrowed: Some(v.clone()) },
                    None => Expect { ret: Ret::False, borrowed: None },
                },
                _ => fail,
            }
        }
        Op::Keys(s, t) => match m.slots[*s].clone().unwrap() {
            V::Dict(d) => {
                m.slots[*t] = Some(V::List(d.iter().map(|(k, _)| V::Str(k.clone())).collect()));
                ok
            }
            _ => fail,
        },
        Op::RowAt(s, i, t) => match m.slots[*s].clone().unwrap() {
            V::Grid(g) if *i < g.rows.len() => {
                m.slots[*t] = Some(V::Dict(g.rows[*i].clone()));
                ok
            }
            _ => fail,
        },
        Op::DtDate(s, utc, t) => match m.slots[*s].clone().unwrap() {
            V::DateTime(d) => {
                let local = if *utc { d.secs } else { d.secs + d.offset as i64 };
                let (y, mo, da) = super::time_ref::civil_from_days(local.div_euclid(86400));
                m.slots[*t] = Some(V::Date(y as i32, mo as u32, da as u32));
                ok
            }
            _ => fail,
        },
        Op::DtTime(s, utc, t) => match m.slots[*s].clone().unwrap() {
            V::DateTime(d) => {
                let local = if *utc { d.secs } else { d.secs + d.offset as i64 };
                let sod = local.rem_euclid(86400) as u32;
                m.slots[*t] = Some(V::Time(sod / 3600, (sod / 60) % 60, sod % 60, d.nanos));
                ok
            }
            _ => fail,
        },
        Op::FilterParse(text) => match utf8(text).and_then(|t| lib_filter(t).map(|_| t.to_string())) {
            Some(t) => {
                m.filter = Some(t);
                ok
            }
            None => fail,
        },
        Op::MatchDict(s) => {
            let f = lib_filter(m.filter.as_ref().unwrap()).unwrap();
            match m.slots[*s].as_ref().unwrap() {
                v @ V::Dict(_) => {
                    if dict_of(v).filter(&f) {
                        ok
                    } else {
                        Expect { ret: Ret::False, borrowed: None }
                    }
                }
                _ => fail,
            }
        }
        Op::FirstMatch(s, t) => {
            let f = lib_filter(m.filter.as_ref().unwrap()).unwrap();
            match m.slots[*s].clone().unwrap() {
                V::Grid(g) => {
                    let lg = super::v::g_to_lib(&g);
                    match lg.filter(&f) {
                        Some(d) => {
                            m.slots[*t] = Some(from_lib(&Value::Dict(d.clone())));
                            ok
                        }
                        None => Expect { ret: Ret::False, borrowed: None },
                    }
                }
                _ => fail,
            }
        }
        Op::MatchAll(s, t) => {
            let f = lib_filter(m.filter.as_ref().unwrap()).unwrap();
            match m.slots[*s].clone().unwrap() {
                V::Grid(g) => {
                    let lg = super::v::g_to_lib(&g);
                    let rows: Vec<Tags> = lg.filter_all(&f).into_iter().map(|d| match from_lib(&Value::Dict(d.clone())) {
                        V::Dict(t) => t,
                        _ => vec![],
                    }).collect();
                    let empty = rows.is_empty();
                    m.slots[*t] = Some(grid_from_rows(rows, g.meta.clone()));
                    if empty {
                        Expect { ret: Ret::False, borrowed: None }
                    } else {
                        ok
                    }
                }
                _ => fail,
            }
        }
    }
}

const KEYS: [&[u8]; 3] = [b"a", b"b", BAD_UTF8];
const IDX: [usize; 3] = [0, 1, 7];
pub const FILTERS: [&[u8]; 5] = [b"a", b"a == 5.5 or b", b"not a and b->c", b"( a", BAD_UTF8];

pub fn ctors_plain() -> Vec<Ctor> {
    vec![
        Ctor::Init,
        Ctor::Marker,
        Ctor::Na,
        Ctor::Remove,
        Ctor::Bool(true),
        Ctor::Number,
        Ctor::NumberUnit(b"kW"),
        Ctor::NumberUnit(b"nope"),
        Ctor::NumberUnit(BAD_UTF8),
        Ctor::Coord,
        Ctor::Str(b"s"),
        Ctor::Str(BAD_UTF8),
        Ctor::Ref(b"r"),
        Ctor::RefDis,
        Ctor::Uri(b"http://u"),
        Ctor::Symbol(b"sym"),
        Ctor::XStr(b"x"),
        Ctor::Time(12, 30, 15),
        Ctor::Time(25, 0, 0),
        Ctor::TimeMillis(456),
        Ctor::TimeMillis(5000),
        Ctor::Date(2021, 2, 28),
        Ctor::Date(2021, 2, 30),
        Ctor::List,
        Ctor::Dict,
        Ctor::Grid,
        Ctor::Zinc(b"[1,\"a\",{b:5.5}]"),
        Ctor::Zinc(b"ver:\"3.0\" m\na,b\n5.5,M\n,\"x\"\n"),
        Ctor::Zinc(b"2021-07-01T12:00:00.5-04:00 New_York"),
        Ctor::Zinc(b"[1"),
        Ctor::Zinc(BAD_UTF8),
        Ctor::Json(b"{\"a\":5.5,\"b\":{\"_kind\":\"marker\"}}"),
        Ctor::Json(b"[{\"a\":1},{\"b\":\"x\"},3]"),
        Ctor::Json(b"{\"_kind\":\"ref\"}"),
    ]
}

/// operations enabled in a model state (protocol-respecting: live handles only; a constructor
/// needs an empty slot; out-parameter operations need a live result handle)
pub fn enabled(m: &Model) -> Vec<Op> {
    let mut ops = vec![];
    let live: Vec<usize> = (0..SLOTS).filter(|&i| m.slots[i].is_some()).collect();
    let free: Option<usize> = (0..SLOTS).find(|&i| m.slots[i].is_none());
    if let Some(f) = free {
        // symmetric states are merged by always constructing into the first free slot
        for c in ctors_plain() {
            ops.push(Op::Make(f, c));
        }
        for &a in &live {
            ops.push(Op::Make(f, Ctor::GridFromRows(a)));
            for &b in &live {
                ops.push(Op::Make(f, Ctor::UtcDt(a, b)));
                ops.push(Op::Make(f, Ctor::TzDt(a, b, b"New_York")));
                ops.push(Op::Make(f, Ctor::TzDt(a, b, b"Nowhere")));
                ops.push(Op::Make(f, Ctor::GridFromRowsMeta(a, b)));
            }
        }
    }
    for &s in &live {
        ops.push(Op::Destroy(s));
        for i in IDX {
            ops.push(Op::RemoveAt(s, i));
            ops.push(Op::GetAt(s, i));
        }
        for k in KEYS {
            ops.push(Op::RemoveKey(s, k));
            ops.push(Op::GetKey(s, k));
        }
        for &t in &live {
            ops.push(Op::Push(s, t));
            for i in IDX {
                ops.push(Op::SetAt(s, i, t));
            }
            for k in KEYS {
                ops.push(Op::Insert(s, k, t));
            }
            if s != t {
                ops.push(Op::Keys(s, t));
                for i in [0usize, 1, 7] {
                    ops.push(Op::RowAt(s, i, t));
                }
                for utc in [true, false] {
                    ops.push(Op::DtDate(s, utc, t));
                    ops.push(Op::DtTime(s, utc, t));
                }
            }
        }
        if m.filter.is_some() {
            ops.push(Op::MatchDict(s));
            for &t in &live {
                if s != t {
                    ops.push(Op::FirstMatch(s, t));
                    ops.push(Op::MatchAll(s, t));
                }
            }
        }
    }
    if m.filter.is_none() {
        for f in FILTERS {
            ops.push(Op::FilterParse(f));
        }
    }
    ops
}

// =================================================================================== real side

pub struct Real {
    pub slots: Vec<*mut Value>,
    pub filter: *mut Filter,
    /// false: the error message is never fetched between calls (a caller that only checks the
    /// sentinels); a pending message must not change what later calls do
    pub drain: bool,
}

fn cs(b: &[u8]) -> CString {
    CString::new(b.to_vec()).expect("no interior NUL in harness strings")
}

/// take the pending error message (if any) and destroy it; Some(text) if there was one
pub unsafe fn take_error() -> Option<String> {
    let p = last_error_message();
    if p.is_null() {
        None
    } else {
        let s = CStr::from_ptr(p).to_string_lossy().to_string();
        haystack_string_destroy(p as *mut c_char);
        Some(s)
    }
}

/// the error protocol after a call: a failure leaves a message that can be taken exactly once;
/// a success leaves none
pub unsafe fn check_error(failed: bool, what: &str) -> Result<(), String> {
    let first = take_error();
    let second = take_error();
    if failed {
        if first.is_none() {
            return Err(format!("{what}: failure without a retrievable error message"));
        }
    } else if let Some(m) = first {
        return Err(format!("{what}: success but an error message is pending: {m:?}"));
    }
    if let Some(m) = second {
        return Err(format!("{what}: the error message could be retrieved twice: {m:?}"));
    }
    Ok(())
}

unsafe fn take_string(p: *const c_char) -> Option<String> {
    if p.is_null() {
        None
    } else {
        let s = CStr::from_ptr(p).to_string_lossy().to_string();
        haystack_string_destroy(p as *mut c_char);
        Some(s)
    }
}

fn opt_box(b: Option<Box<Value>>) -> *mut Value {
    match b {
        Some(b) => Box::into_raw(b),
        None => std::ptr::null_mut(),
    }
}

fn rt(r: ResultType) -> i32 {
    match r {
        ResultType::TRUE => 1,
        ResultType::FALSE => 0,
        ResultType::ERR => -1,
    }
}

impl Real {
    pub fn new() -> Real {
        Real { slots: vec![std::ptr::null_mut(); SLOTS], filter: std::ptr::null_mut(), drain: true }
    }

    /// run the real constructor; null = failure
    unsafe fn construct(&self, c: &Ctor) -> *mut Value {
        match c {
            Ctor::Init => Box::into_raw(haystack_value_init()),
            Ctor::Marker => Box::into_raw(haystack_value_make_marker()),
            Ctor::Na => Box::into_raw(haystack_value_make_na()),
            Ctor::Remove => Box::into_raw(haystack_value_make_remove()),
            Ctor::Bool(b) => Box::into_raw(haystack_value_make_bool(*b)),
            Ctor::Number => Box::into_raw(haystack_value_make_number(5.5)),
            Ctor::NumberUnit(u) => opt_box(haystack_value_make_number_with_unit(5.0, cs(u).as_ptr())),
            Ctor::Coord => Box::into_raw(haystack_value_make_coord(37.5, -77.25)),
            Ctor::Str(s) => opt_box(haystack_value_make_str(cs(s).as_ptr())),
            Ctor::Ref(s) => opt_box(haystack_value_make_ref(cs(s).as_ptr())),
            Ctor::RefDis => opt_box(haystack_value_make_ref_with_dis(cs(b"r").as_ptr(), cs(b"Dis").as_ptr())),
            Ctor::Uri(s) => opt_box(haystack_value_make_uri(cs(s).as_ptr())),
            Ctor::Symbol(s) => opt_box(haystack_value_make_symbol(cs(s).as_ptr())),
            Ctor::XStr(s) => opt_box(haystack_value_make_xstr(cs(b"Bin").as_ptr(), cs(s).as_ptr())),
            Ctor::Time(h, m, s) => opt_box(haystack_value_make_time(*h, *m, *s)),
            Ctor::TimeMillis(ms) => opt_box(haystack_value_make_time_millis(1, 2, 3, *ms)),
            Ctor::Date(y, m, d) => opt_box(haystack_value_make_date(*y, *m, *d)),
            Ctor::List => Box::into_raw(haystack_value_make_list()),
            Ctor::Dict => Box::into_raw(haystack_value_make_dict()),
            Ctor::Grid => Box::into_raw(haystack_value_make_grid()),
            Ctor::Zinc(t) => opt_box(haystack_value_from_zinc_string(cs(t).as_ptr())),
            Ctor::Json(t) => opt_box(haystack_value_from_json_string(cs(t).as_ptr())),
            Ctor::UtcDt(a, b) => opt_box(haystack_value_make_utc_datetime(self.slots[*a], self.slots[*b])),
            Ctor::TzDt(a, b, tz) => opt_box(haystack_value_make_tz_datetime(self.slots[*a], self.slots[*b], cs(tz).as_ptr())),
            Ctor::GridFromRows(a) => opt_box(haystack_value_make_grid_from_rows(self.slots[*a])),
            Ctor::GridFromRowsMeta(a, b) => opt_box(haystack_value_make_grid_from_rows_with_meta(self.slots[*a], self.slots[*b])),
        }
    }

    /// execute the operation on the real API and compare its return value (and borrowed value)
    /// with the model's expectation
    pub unsafe fn step(&mut self, op: &Op, want: &Expect) -> Result<(), String> {
        if self.drain {
            let _ = take_error();
        }
        let name = format!("{op:?}");
        let got: i32 = match op {
            Op::Make(s, c) => {
                let p = self.construct(c);
                if p.is_null() {
                    -1
                } else {
                    self.slots[*s] = p;
                    1
                }
            }
            Op::Destroy(s) => {
                haystack_value_destroy(self.slots[*s]);
                self.slots[*s] = std::ptr::null_mut();
                1
            }
            Op::Push(s, t) => rt(haystack_value_push_list_entry(self.slots[*s], self.slots[*t])),
            Op::SetAt(s, i, t) => rt(haystack_value_set_list_entry_at(self.slots[*s], *i, self.slots[*t])),
            Op::RemoveAt(s, i) => rt(haystack_value_remove_list_entry_at(self.slots[*s], *i)),
            Op::GetAt(s, i) => {
                let mut out: *const Value = std::ptr::null();
                let r = rt(haystack_value_get_list_entry_at(self.slots[*s], *i, &mut out));
                if r == 1 {
                    // borrowed pointer: used immediately, container alive and unmodified
                    if out.is_null() {
                        return Err(format!("{name}: TRUE but the entry pointer is null"));
                    }
                    let b = from_lib(&*out);
                    if let Some(w) = &want.borrowed {
                        same_strict(w, &b).map_err(|d| format!("{name}: borrowed entry differs: {d}"))?;
                    }
                }
                r
            }
            Op::Insert(s, k, t) => rt(haystack_value_insert_dict_entry(self.slots[*s], cs(k).as_ptr(), self.slots[*t])),
            Op::RemoveKey(s, k) => rt(haystack_value_remove_dict_entry(self.slots[*s], cs(k).as_ptr())),
            Op::GetKey(s, k) => {
                let mut out: *const Value = std::ptr::null();
                let r = rt(haystack_value_get_dict_entry(self.slots[*s], cs(k).as_ptr(), &mut out));
                if r == 1 {
                    if out.is_null() {
                        return Err(format!("{name}: TRUE but the entry pointer is null"));
                    }
                    let b = from_lib(&*out);
                    if let Some(w) = &want.borrowed {
                        same_strict(w, &b).map_err(|d| format!("{name}: borrowed entry differs: {d}"))?;
                    }
                }
                r
            }
            Op::Keys(s, t) => rt(haystack_value_get_dict_keys(self.slots[*s], self.slots[*t])),
            Op::RowAt(s, i, t) => rt(haystack_value_get_grid_row_at(self.slots[*s], *i, self.slots[*t])),
            Op::DtDate(s, utc, t) => rt(haystack_value_get_datetime_date(self.slots[*s], *utc, self.slots[*t])),
            Op::DtTime(s, utc, t) => rt(haystack_value_get_datetime_time(self.slots[*s], *utc, self.slots[*t])),
            Op::FilterParse(text) => match haystack_filter_parse(cs(text).as_ptr()) {
                Some(f) => {
                    self.filter = Box::into_raw(f);
                    1
                }
                None => -1,
            },
            Op::MatchDict(s) => rt(haystack_filter_match_dict(self.filter, self.slots[*s])),
            Op::FirstMatch(s, t) => rt(haystack_filter_first_match_in_grid(self.filter, self.slots[*s], self.slots[*t])),
            Op::MatchAll(s, t) => rt(haystack_filter_match_all_grid(self.filter, self.slots[*s], self.slots[*t])),
        };
        let want_code = match want.ret {
            Ret::Ok => 1,
            Ret::False => 0,
            Ret::Fail => -1,
        };
        if got != want_code {
            let e = take_error();
            return Err(format!("{name}: returned {got}, the Rust operation gives {want_code} (error message: {e:?})"));
        }
        if self.drain {
            check_error(got == -1, &name)
        } else {
            Ok(())
        }
    }

    /// destroy every live handle exactly once (end of a protocol-respecting history)
    pub unsafe fn cleanup(&mut self) {
        for s in self.slots.iter_mut() {
            if !s.is_null() {
                haystack_value_destroy(*s);
                *s = std::ptr::null_mut();
            }
        }
        if !self.filter.is_null() {
            crate::model::capi::destroy_filter(self.filter);
            self.filter = std::ptr::null_mut();
        }
        let _ = take_error();
    }

    /// deep comparison of the real pool with the model
    pub unsafe fn compare(&self, m: &Model) -> Result<(), String> {
        for i in 0..SLOTS {
            match (&m.slots[i], self.slots[i].is_null()) {
                (None, true) => {}
                (Some(v), false) => same_strict(v, &from_lib(&*self.slots[i])).map_err(|d| format!("handle {i} differs from the model: {d}"))?,
                (a, b) => return Err(format!("handle {i}: model {a:?}, real null={b}")),
            }
        }
        Ok(())
    }

    /// every predicate and getter on one live handle, against the model value
    pub unsafe fn inspect(&self, i: usize, v: &V) -> Result<(), String> {
        let p = self.slots[i] as *const Value;
        let _ = take_error();
        let kind = v.kind_name();
        let preds: [(&str, bool); 18] = [
            ("null", haystack_value_is_null(p)),
            ("marker", haystack_value_is_marker(p)),
            ("na", haystack_value_is_na(p)),
            ("remove", haystack_value_is_remove(p)),
            ("bool", haystack_value_is_bool(p)),
            ("number", haystack_value_is_number(p)),
            ("coord", haystack_value_is_coord(p)),
            ("str", haystack_value_is_str(p)),
            ("ref", haystack_value_is_ref(p)),
            ("uri", haystack_value_is_uri(p)),
            ("symbol", haystack_value_is_symbol(p)),
            ("xstr", haystack_value_is_xstr(p)),
            ("time", haystack_value_is_time(p)),
            ("date", haystack_value_is_date(p)),
            ("dateTime", haystack_value_is_datetime(p)),
            ("list", haystack_value_is_list(p)),
            ("dict", haystack_value_is_dict(p)),
            ("grid", haystack_value_is_grid(p)),
        ];
        for (k, got) in preds {
            if got != (k == kind) {
                return Err(format!("is_{k} on a {kind} handle = {got}"));
            }
        }
        check_error(false, "predicates")?;
        // numeric getters with NaN / MAX sentinels
        macro_rules! f64_getter {
            ($f:ident, $want:expr) => {{
                let got = $f(p);
                match $want {
                    Some(w) => {
                        let w: f64 = w;
                        if !(got == w || (got.is_nan() && w.is_nan())) {
                            return Err(format!("{} on a {kind} = {got}, expected {w}", stringify!($f)));
                        }
                        check_error(false, stringify!($f))?;
                    }
                    None => {
                        if !got.is_nan() {
                            return Err(format!("{} on a {kind} = {got}, expected the NaN sentinel", stringify!($f)));
                        }
                        check_error(true, stringify!($f))?;
                    }
                }
            }};
        }
        macro_rules! int_getter {
            ($f:ident, $max:expr, $want:expr) => {{
                let got = $f(p as _) as u64;
                match $want {
                    Some(w) => {
                        if got != w as u64 {
                            return Err(format!("{} on a {kind} = {got}, expected {}", stringify!($f), w));
                        }
                        check_error(false, stringify!($f))?;
                    }
                    None => {
                        if got != $max as u64 {
                            return Err(format!("{} on a {kind} = {got}, expected the MAX sentinel", stringify!($f)));
                        }
                        check_error(true, stringify!($f))?;
                    }
                }
            }};
        }
        /// string getters: Some(Some(s)) = string, Some(None) = null without error, None = null + error
        macro_rules! str_getter {
            ($f:ident, $want:expr) => {{
                let got = take_string($f(p));
                let want: Option<Option<String>> = $want;
                // text with an interior NUL has no C string: the documented failure (null + message)
                let want = match want {
                    Some(Some(t)) if t.contains('\0') => None,
                    w => w,
                };
                match want {
                    Some(w) => {
                        if got != w {
                            return Err(format!("{} on a {kind} = {got:?}, expected {w:?}", stringify!($f)));
                        }
                        check_error(false, stringify!($f))?;
                    }
                    None => {
                        if got.is_some() {
                            return Err(format!("{} on a {kind} = {got:?}, expected null", stringify!($f)));
                        }
                        check_error(true, stringify!($f))?;
                    }
                }
            }};
        }
        let num = match v {
            V::Num(x, u) => Some((*x, u.clone())),
            _ => None,
        };
        f64_getter!(haystack_value_get_number_value, num.as_ref().map(|n| n.0));
        {
            let got = rt(haystack_value_number_has_unit(p));
            let want = match &num {
                Some((_, Some(_))) => 1,
                Some((_, None)) => 0,
                None => -1,
            };
            if got != want {
                return Err(format!("number_has_unit on a {kind} = {got}, expected {want}"));
            }
            check_error(want == -1, "number_has_unit")?;
        }
        str_getter!(haystack_value_get_number_unit, num.as_ref().map(|n| n.1.clone()));
        let coord = match v {
            V::Coord(a, b) => Some((*a, *b)),
            _ => None,
        };
        f64_getter!(haystack_value_get_coord_lat, coord.map(|c| c.0));
        f64_getter!(haystack_value_get_coord_long, coord.map(|c| c.1));
        let s = match v {
            V::Str(s) => Some(s.clone()),
            _ => None,
        };
        int_getter!(haystack_value_get_str_len, usize::MAX, s.as_ref().map(|s| s.len()));
        str_getter!(haystack_value_get_str_value, s.clone().map(Some));
        let r = match v {
            V::Ref(id, d) => Some((id.clone(), d.clone())),
            _ => None,
        };
        int_getter!(haystack_value_get_ref_value_len, usize::MAX, r.as_ref().map(|r| r.0.len()));
        str_getter!(haystack_value_get_ref_value, r.as_ref().map(|r| Some(r.0.clone())));
        str_getter!(haystack_value_get_ref_dis, r.as_ref().map(|r| r.1.clone()));
        let sy = match v {
            V::Sym(s) => Some(s.clone()),
            _ => None,
        };
        int_getter!(haystack_value_get_symbol_value_len, usize::MAX, sy.as_ref().map(|s| s.len()));
        str_getter!(haystack_value_get_symbol_value, sy.clone().map(Some));
        let ur = match v {
            V::Uri(s) => Some(s.clone()),
            _ => None,
        };
        int_getter!(haystack_value_get_uri_value_len, usize::MAX, ur.as_ref().map(|s| s.len()));
        str_getter!(haystack_value_get_uri_value, ur.clone().map(Some));
        let xs = match v {
            V::XStr(t, s) => Some((t.clone(), s.clone())),
            _ => None,
        };
        str_getter!(haystack_value_get_xstr_type, xs.as_ref().map(|x| Some(x.0.clone())));
        str_getter!(haystack_value_get_xstr_value, xs.as_ref().map(|x| Some(x.1.clone())));
        let da = match v {
            V::Date(y, m, d) => Some((*y, *m, *d)),
            _ => None,
        };
        int_getter!(haystack_value_get_date_year, u32::MAX, da.map(|d| d.0 as u32));
        int_getter!(haystack_value_get_date_month, u32::MAX, da.map(|d| d.1));
        int_getter!(haystack_value_get_date_day, u32::MAX, da.map(|d| d.2));
        let ti = match v {
            V::Time(h, m, s, n) => Some((*h, *m, *s, *n)),
            _ => None,
        };
        int_getter!(haystack_value_get_time_hour, u32::MAX, ti.map(|t| t.0));
        int_getter!(haystack_value_get_time_minutes, u32::MAX, ti.map(|t| t.1));
        int_getter!(haystack_value_get_time_seconds, u32::MAX, ti.map(|t| t.2));
        int_getter!(haystack_value_get_time_millis, u32::MAX, ti.map(|t| t.3 / 1_000_000));
        let tz = match v {
            V::DateTime(d) => Some(d.tz.clone()),
            _ => None,
        };
        str_getter!(haystack_value_get_datetime_timezone, tz.map(Some));
        int_getter!(haystack_value_get_list_len, usize::MAX, match v {
            V::List(l) => Some(l.len()),
            _ => None,
        });
        int_getter!(haystack_value_get_dict_len, usize::MAX, match v {
            V::Dict(d) => Some(d.len()),
            _ => None,
        });
        int_getter!(haystack_value_get_grid_len, usize::MAX, match v {
            V::Grid(g) => Some(g.rows.len()),
            _ => None,
        });
        // encoders return what the Rust codecs return
        let lv = to_lib(v);
        let zr = libhaystack::encoding::zinc::encode::to_zinc_string(&lv).ok();
        str_getter!(haystack_value_to_zinc_string, zr.map(Some));
        let jr = serde_json::to_string(&lv).ok();
        str_getter!(haystack_value_to_json_string, jr.map(Some));
        Ok(())
    }
}

/// filter handles: destroyed through the API's destroy function
pub unsafe fn destroy_filter(f: *mut Filter) {
    libhaystack::c_api::filter::haystack_filter_destroy(f);
}

// =================================================================================== null sweep

/// Every non-destroy function with each pointer parameter replaced by NULL (one at a time, and
/// all together): must return its sentinel with an error pending, and must not crash.
/// `h` = a live value handle (or null when the pool is empty), `f` = a live filter (or null).
/// Returns the number of calls made; Err = first protocol breach.
pub unsafe fn null_sweep(h: *mut Value, f: *mut Filter) -> Result<u64, String> {
    let mut calls = 0u64;
    let key = cs(b"a");
    let txt = cs(b"x");
    let null_v: *mut Value = std::ptr::null_mut();
    let null_c: *const c_char = std::ptr::null();
    let null_f: *mut Filter = std::ptr::null_mut();
    let _ = take_error();
    macro_rules! expect_fail {
        ($name:expr, $failed:expr) => {{
            calls += 1;
            let failed: bool = $failed;
            if !failed {
                return Err(format!("{} with a null pointer argument did not return its failure sentinel", $name));
            }
            check_error(true, $name)?;
        }};
    }
    // predicates: false + error
    macro_rules! pred {
        ($f:ident) => {
            expect_fail!(stringify!($f), !$f(null_v));
        };
    }
    pred!(haystack_value_is_null);
    pred!(haystack_value_is_marker);
    pred!(haystack_value_is_na);
    pred!(haystack_value_is_remove);
    pred!(haystack_value_is_bool);
    pred!(haystack_value_is_number);
    pred!(haystack_value_is_coord);
    pred!(haystack_value_is_str);
    pred!(haystack_value_is_ref);
    pred!(haystack_value_is_uri);
    pred!(haystack_value_is_symbol);
    pred!(haystack_value_is_xstr);
    pred!(haystack_value_is_time);
    pred!(haystack_value_is_date);
    pred!(haystack_value_is_datetime);
    pred!(haystack_value_is_list);
    pred!(haystack_value_is_dict);
    pred!(haystack_value_is_grid);
    // scalar getters
    expect_fail!("get_number_value", haystack_value_get_number_value(null_v).is_nan());
    expect_fail!("number_has_unit", haystack_value_number_has_unit(null_v) == ResultType::ERR);
    expect_fail!("get_coord_lat", haystack_value_get_coord_lat(null_v).is_nan());
    expect_fail!("get_coord_long", haystack_value_get_coord_long(null_v).is_nan());
    expect_fail!("get_str_len", haystack_value_get_str_len(null_v) == usize::MAX);
    expect_fail!("get_ref_value_len", haystack_value_get_ref_value_len(null_v) == usize::MAX);
    expect_fail!("get_symbol_value_len", haystack_value_get_symbol_value_len(null_v) == usize::MAX);
    expect_fail!("get_uri_value_len", haystack_value_get_uri_value_len(null_v) == usize::MAX);
    expect_fail!("get_list_len", haystack_value_get_list_len(null_v) == usize::MAX);
    expect_fail!("get_dict_len", haystack_value_get_dict_len(null_v) == usize::MAX);
    expect_fail!("get_grid_len", haystack_value_get_grid_len(null_v) == usize::MAX);
    expect_fail!("get_date_year", haystack_value_get_date_year(null_v) == u32::MAX);
    expect_fail!("get_date_month", haystack_value_get_date_month(null_v) == u32::MAX);
    expect_fail!("get_date_day", haystack_value_get_date_day(null_v) == u32::MAX);
    expect_fail!("get_time_hour", haystack_value_get_time_hour(null_v) == u32::MAX);
    expect_fail!("get_time_minutes", haystack_value_get_time_minutes(null_v) == u32::MAX);
    expect_fail!("get_time_seconds", haystack_value_get_time_seconds(null_v) == u32::MAX);
    expect_fail!("get_time_millis", haystack_value_get_time_millis(null_v) == u32::MAX);
    // string getters
    macro_rules! strg {
        ($f:ident) => {
            expect_fail!(stringify!($f), take_string($f(null_v)).is_none());
        };
    }
    strg!(haystack_value_get_number_unit);
    strg!(haystack_value_get_str_value);
    strg!(haystack_value_get_ref_value);
    strg!(haystack_value_get_ref_dis);
    strg!(haystack_value_get_symbol_value);
    strg!(haystack_value_get_uri_value);
    strg!(haystack_value_get_xstr_type);
    strg!(haystack_value_get_xstr_value);
    strg!(haystack_value_get_datetime_timezone);
    strg!(haystack_value_to_zinc_string);
    strg!(haystack_value_to_json_string);
    // checked constructors
    macro_rules! ctor {
        ($name:expr, $e:expr) => {{
            let r: Option<Box<Value>> = $e;
            let failed = r.is_none();
            drop(r);
            expect_fail!($name, failed);
        }};
    }
    ctor!("make_number_with_unit", haystack_value_make_number_with_unit(1.0, null_c));
    ctor!("make_str", haystack_value_make_str(null_c));
    ctor!("make_ref", haystack_value_make_ref(null_c));
    ctor!("make_ref_with_dis(null,x)", haystack_value_make_ref_with_dis(null_c, txt.as_ptr()));
    ctor!("make_ref_with_dis(x,null)", haystack_value_make_ref_with_dis(txt.as_ptr(), null_c));
    ctor!("make_ref_with_dis(null,null)", haystack_value_make_ref_with_dis(null_c, null_c));
    ctor!("make_uri", haystack_value_make_uri(null_c));
    ctor!("make_symbol", haystack_value_make_symbol(null_c));
    ctor!("make_xstr(null,x)", haystack_value_make_xstr(null_c, txt.as_ptr()));
    ctor!("make_xstr(x,null)", haystack_value_make_xstr(txt.as_ptr(), null_c));
    ctor!("make_xstr(null,null)", haystack_value_make_xstr(null_c, null_c));
    ctor!("make_utc_datetime(null,h)", haystack_value_make_utc_datetime(null_v, h));
    ctor!("make_utc_datetime(h,null)", haystack_value_make_utc_datetime(h, null_v));
    ctor!("make_utc_datetime(null,null)", haystack_value_make_utc_datetime(null_v, null_v));
    ctor!("make_tz_datetime(null,h,tz)", haystack_value_make_tz_datetime(null_v, h, txt.as_ptr()));
    ctor!("make_tz_datetime(h,null,tz)", haystack_value_make_tz_datetime(h, null_v, txt.as_ptr()));
    ctor!("make_tz_datetime(h,h,null)", haystack_value_make_tz_datetime(h, h, null_c));
    ctor!("make_tz_datetime(null,null,null)", haystack_value_make_tz_datetime(null_v, null_v, null_c));
    ctor!("make_grid_from_rows", haystack_value_make_grid_from_rows(null_v));
    ctor!("make_grid_from_rows_with_meta(null,h)", haystack_value_make_grid_from_rows_with_meta(null_v, h));
    ctor!("make_grid_from_rows_with_meta(h,null)", haystack_value_make_grid_from_rows_with_meta(h, null_v));
    ctor!("make_grid_from_rows_with_meta(null,null)", haystack_value_make_grid_from_rows_with_meta(null_v, null_v));
    ctor!("from_zinc_string", haystack_value_from_zinc_string(null_c));
    ctor!("from_json_string", haystack_value_from_json_string(null_c));
    {
        let r = haystack_filter_parse(null_c);
        let failed = r.is_none();
        if let Some(b) = r {
            destroy_filter(Box::into_raw(b));
        }
        expect_fail!("filter_parse", failed);
    }
    // mutators and out-parameter getters
    let err = |r: ResultType| r == ResultType::ERR;
    let mut outp: *const Value = std::ptr::null();
    expect_fail!("push_list_entry(null,h)", err(haystack_value_push_list_entry(null_v, h)));
    expect_fail!("push_list_entry(h,null)", err(haystack_value_push_list_entry(h, null_v)));
    expect_fail!("push_list_entry(null,null)", err(haystack_value_push_list_entry(null_v, null_v)));
    expect_fail!("get_list_entry_at(null,0,out)", err(haystack_value_get_list_entry_at(null_v, 0, &mut outp)));
    expect_fail!("get_list_entry_at(h,0,null)", err(haystack_value_get_list_entry_at(h, 0, std::ptr::null_mut())));
    expect_fail!("get_list_entry_at(null,0,null)", err(haystack_value_get_list_entry_at(null_v, 0, std::ptr::null_mut())));
    expect_fail!("set_list_entry_at(null,0,h)", err(haystack_value_set_list_entry_at(null_v, 0, h)));
    expect_fail!("set_list_entry_at(h,0,null)", err(haystack_value_set_list_entry_at(h, 0, null_v)));
    expect_fail!("set_list_entry_at(null,0,null)", err(haystack_value_set_list_entry_at(null_v, 0, null_v)));
    expect_fail!("remove_list_entry_at(null,0)", err(haystack_value_remove_list_entry_at(null_v, 0)));
    expect_fail!("get_dict_keys(null,h)", err(haystack_value_get_dict_keys(null_v, h)));
    expect_fail!("get_dict_keys(h,null)", err(haystack_value_get_dict_keys(h, null_v)));
    expect_fail!("get_dict_keys(null,null)", err(haystack_value_get_dict_keys(null_v, null_v)));
    expect_fail!("insert_dict_entry(null,k,h)", err(haystack_value_insert_dict_entry(null_v, key.as_ptr(), h)));
    expect_fail!("insert_dict_entry(h,null,h)", err(haystack_value_insert_dict_entry(h, null_c, h)));
    expect_fail!("insert_dict_entry(h,k,null)", err(haystack_value_insert_dict_entry(h, key.as_ptr(), null_v)));
    expect_fail!("insert_dict_entry(null,null,null)", err(haystack_value_insert_dict_entry(null_v, null_c, null_v)));
    expect_fail!("get_dict_entry(null,k,out)", err(haystack_value_get_dict_entry(null_v, key.as_ptr(), &mut outp)));
    expect_fail!("get_dict_entry(h,null,out)", err(haystack_value_get_dict_entry(h, null_c, &mut outp)));
    expect_fail!("get_dict_entry(h,k,null)", err(haystack_value_get_dict_entry(h, key.as_ptr(), std::ptr::null_mut())));
    expect_fail!("get_dict_entry(null,null,null)", err(haystack_value_get_dict_entry(null_v, null_c, std::ptr::null_mut())));
    expect_fail!("remove_dict_entry(null,k)", err(haystack_value_remove_dict_entry(null_v, key.as_ptr())));
    expect_fail!("remove_dict_entry(h,null)", err(haystack_value_remove_dict_entry(h, null_c)));
    expect_fail!("remove_dict_entry(null,null)", err(haystack_value_remove_dict_entry(null_v, null_c)));
    expect_fail!("get_grid_row_at(null,0,h)", err(haystack_value_get_grid_row_at(null_v, 0, h)));
    expect_fail!("get_grid_row_at(h,0,null)", err(haystack_value_get_grid_row_at(h, 0, null_v)));
    expect_fail!("get_grid_row_at(null,0,null)", err(haystack_value_get_grid_row_at(null_v, 0, null_v)));
    for utc in [true, false] {
        expect_fail!("get_datetime_date(null,utc,h)", err(haystack_value_get_datetime_date(null_v, utc, h)));
        expect_fail!("get_datetime_date(h,utc,null)", err(haystack_value_get_datetime_date(h, utc, null_v)));
        expect_fail!("get_datetime_date(null,utc,null)", err(haystack_value_get_datetime_date(null_v, utc, null_v)));
        expect_fail!("get_datetime_time(null,utc,h)", err(haystack_value_get_datetime_time(null_v, utc, h)));
        expect_fail!("get_datetime_time(h,utc,null)", err(haystack_value_get_datetime_time(h, utc, null_v)));
        expect_fail!("get_datetime_time(null,utc,null)", err(haystack_value_get_datetime_time(null_v, utc, null_v)));
    }
    expect_fail!("filter_match_dict(null,h)", err(haystack_filter_match_dict(null_f, h)));
    expect_fail!("filter_match_dict(f,null)", err(haystack_filter_match_dict(f, null_v)));
    expect_fail!("filter_match_dict(null,null)", err(haystack_filter_match_dict(null_f, null_v)));
    expect_fail!("filter_first_match_in_grid(null,h,h)", err(haystack_filter_first_match_in_grid(null_f, h, h)));
    expect_fail!("filter_first_match_in_grid(f,null,h)", err(haystack_filter_first_match_in_grid(f, null_v, h)));
    expect_fail!("filter_first_match_in_grid(f,h,null)", err(haystack_filter_first_match_in_grid(f, h, null_v)));
    expect_fail!("filter_first_match_in_grid(null,null,null)", err(haystack_filter_first_match_in_grid(null_f, null_v, null_v)));
    expect_fail!("filter_match_all_grid(null,h,h)", err(haystack_filter_match_all_grid(null_f, h, h)));
    expect_fail!("filter_match_all_grid(f,null,h)", err(haystack_filter_match_all_grid(f, null_v, h)));
    expect_fail!("filter_match_all_grid(f,h,null)", err(haystack_filter_match_all_grid(f, h, null_v)));
    expect_fail!("filter_match_all_grid(null,null,null)", err(haystack_filter_match_all_grid(null_f, null_v, null_v)));
    Ok(calls)
}

/// Every function that takes a C string, called with bytes that are not UTF-8 ("invalid text"):
/// must return its failure sentinel with a retrievable message, must not crash, and must leave
/// the handles it was given unchanged. Returns the number of calls made.
pub unsafe fn bad_string_sweep() -> Result<u64, String> {
    let mut calls = 0u64;
    let bad = CString::new(vec![0x61u8, 0xff, 0xfe, 0x80]).expect("no NUL");
    let ok = cs(b"a");
    let _ = take_error();
    macro_rules! expect_fail {
        ($name:expr, $failed:expr) => {{
            calls += 1;
            let failed: bool = $failed;
            if !failed {
                return Err(format!("{} with a non-UTF-8 string did not return its failure sentinel", $name));
            }
            check_error(true, $name)?;
        }};
    }
    macro_rules! ctor {
        ($name:expr, $e:expr) => {{
            let r: Option<Box<Value>> = $e;
            let failed = r.is_none();
            drop(r);
            expect_fail!($name, failed);
        }};
    }
    ctor!("make_str", haystack_value_make_str(bad.as_ptr()));
    ctor!("make_number_with_unit", haystack_value_make_number_with_unit(1.0, bad.as_ptr()));
    ctor!("make_ref", haystack_value_make_ref(bad.as_ptr()));
    ctor!("make_ref_with_dis(bad,ok)", haystack_value_make_ref_with_dis(bad.as_ptr(), ok.as_ptr()));
    ctor!("make_ref_with_dis(ok,bad)", haystack_value_make_ref_with_dis(ok.as_ptr(), bad.as_ptr()));
    ctor!("make_uri", haystack_value_make_uri(bad.as_ptr()));
    ctor!("make_symbol", haystack_value_make_symbol(bad.as_ptr()));
    ctor!("make_xstr(bad,ok)", haystack_value_make_xstr(bad.as_ptr(), ok.as_ptr()));
    ctor!("make_xstr(ok,bad)", haystack_value_make_xstr(ok.as_ptr(), bad.as_ptr()));
    ctor!("from_zinc_string", haystack_value_from_zinc_string(bad.as_ptr()));
    ctor!("from_json_string", haystack_value_from_json_string(bad.as_ptr()));
    {
        let r = haystack_filter_parse(bad.as_ptr());
        let failed = r.is_none();
        if let Some(b) = r {
            destroy_filter(Box::into_raw(b));
        }
        expect_fail!("filter_parse", failed);
    }
    // timestamp constructor with a zone name that is not UTF-8
    let date = Box::into_raw(haystack_value_make_date(2021, 3, 4).expect("date"));
    let time = Box::into_raw(haystack_value_make_time(5, 6, 7).expect("time"));
    ctor!("make_tz_datetime", haystack_value_make_tz_datetime(date, time, bad.as_ptr()));
    let intact = matches!(&*date, Value::Date(_)) && matches!(&*time, Value::Time(_));
    haystack_value_destroy(date);
    haystack_value_destroy(time);
    if !intact {
        return Err("make_tz_datetime with a non-UTF-8 zone changed its date/time arguments".into());
    }
    // dict entry points with a key that is not UTF-8: failure, and the dict keeps its one entry
    let dict = Box::into_raw(haystack_value_make_dict());
    let entry = Box::into_raw(haystack_value_make_number(1.0));
    if haystack_value_insert_dict_entry(dict, ok.as_ptr(), entry) != ResultType::TRUE {
        return Err("insert_dict_entry failed on a fresh dict".into());
    }
    check_error(false, "insert_dict_entry")?;
    expect_fail!("insert_dict_entry", haystack_value_insert_dict_entry(dict, bad.as_ptr(), entry) == ResultType::ERR);
    let mut borrowed: *const Value = std::ptr::null();
    expect_fail!("get_dict_entry", haystack_value_get_dict_entry(dict, bad.as_ptr(), &mut borrowed) == ResultType::ERR);
    expect_fail!("remove_dict_entry", haystack_value_remove_dict_entry(dict, bad.as_ptr()) == ResultType::ERR);
    let len = haystack_value_get_dict_len(dict);
    let intact = len == 1 && borrowed.is_null() && matches!(&*entry, Value::Number(n) if n.value == 1.0);
    haystack_value_destroy(dict);
    haystack_value_destroy(entry);
    if !intact {
        return Err(format!("dict entry points with a non-UTF-8 key changed their arguments (dict len {len})"));
    }
    Ok(calls)
}

/// The last-error slot belongs to the calling thread (the harness itself relies on it: it drives
/// the API from 16 threads). Two threads, strictly serialised by channels: thread A makes a failing
/// call; thread B then does one of {nothing, a failing call, a failing call + fetch, a successful
/// call, a fetch}; A then fetches: it must get the message of its own failure (the text the same
/// call leaves when made alone), B's slot must hold what B's own calls left, and a thread that
/// never failed sees no message — also after the failing thread has exited. Returns calls made.
pub fn thread_sweep() -> Result<u64, String> {
    use std::sync::mpsc::channel;
    // failing calls with distinct messages (index -> call)
    fn failing(k: usize) {
        unsafe {
            match k {
                0 => {
                    let l = Box::into_raw(haystack_value_make_list());
                    let _ = haystack_value_remove_list_entry_at(l, 3);
                    haystack_value_destroy(l);
                }
                1 => {
                    let _ = haystack_value_make_number_with_unit(1.0, cs(b"notAUnit").as_ptr());
                }
                2 => {
                    let _ = haystack_value_from_zinc_string(cs(b"{a:").as_ptr());
                }
                3 => {
                    let n = Box::into_raw(haystack_value_make_number(1.0));
                    let _ = take_string(haystack_value_get_str_value(n));
                    haystack_value_destroy(n);
                }
                _ => {
                    let _ = haystack_value_from_json_string(cs(b"{\"_kind\":").as_ptr());
                }
            }
        }
    }
    fn succeeding() {
        unsafe {
            let n = Box::into_raw(haystack_value_make_number(1.0));
            let _ = haystack_value_is_number(n);
            haystack_value_destroy(n);
        }
    }
    let alone: Vec<Option<String>> = (0..5)
        .map(|k| {
            std::thread::spawn(move || {
                failing(k);
                unsafe { take_error() }
            })
            .join()
            .unwrap()
        })
        .collect();
    if alone.iter().any(|m| m.is_none()) {
        return Err(format!("thread sweep: a failing call leaves no message even alone: {alone:?}"));
    }
    let mut calls = 0u64;
    for ka in 0..5usize {
        for kb in 0..5usize {
            for b_mode in 0..5usize {
                // b_mode: 0 nothing, 1 failing, 2 failing + fetch, 3 successful call, 4 fetch only
                let (to_b, b_rx) = channel::<u8>();
                let (to_a, a_rx) = channel::<Option<String>>();
                let b = std::thread::spawn(move || {
                    let _ = b_rx.recv(); // A has failed
                    let mut seen: Option<String> = None;
                    match b_mode {
                        1 => failing(kb),
                        2 => {
                            failing(kb);
                            seen = unsafe { take_error() };
                        }
                        3 => succeeding(),
                        4 => seen = unsafe { take_error() },
                        _ => {}
                    }
                    let _ = to_a.send(seen);
                    let _ = b_rx.recv(); // A has fetched
                    unsafe { take_error() }
                });
                failing(ka);
                let _ = to_b.send(1);
                let b_seen = a_rx.recv().map_err(|e| e.to_string())?;
                let a_msg = unsafe { take_error() };
                let a_again = unsafe { take_error() };
                let _ = to_b.send(2);
                let b_left = b.join().map_err(|_| "thread B panicked".to_string())?;
                calls += 4;
                let what = format!("thread A fails with call #{ka}, then thread B (mode {b_mode}, call #{kb}), then A fetches");
                if a_msg != alone[ka] {
                    return Err(format!("error-slot-not-per-thread: {what}: A gets {a_msg:?}, the same call alone leaves {:?}", alone[ka]));
                }
                if a_again.is_some() {
                    return Err(format!("error-slot-not-per-thread: {what}: A can fetch a second message {a_again:?}"));
                }
                let (want_seen, want_left) = match b_mode {
                    1 => (None, alone[kb].clone()),
                    2 => (alone[kb].clone(), None),
                    _ => (None, None),
                };
                if b_seen != want_seen || b_left != want_left {
                    return Err(format!("error-slot-not-per-thread: {what}: B fetched {b_seen:?} / was left with {b_left:?}, its own calls leave {want_seen:?} / {want_left:?}"));
                }
            }
        }
    }
    // a thread that failed and exited without fetching leaves nothing behind for later threads
    for k in 0..5usize {
        std::thread::spawn(move || failing(k)).join().map_err(|_| "thread panicked".to_string())?;
        let later = std::thread::spawn(|| unsafe { take_error() }).join().map_err(|_| "thread panicked".to_string())?;
        let here = unsafe { take_error() };
        calls += 2;
        if later.is_some() || here.is_some() {
            return Err(format!("error-slot-not-per-thread: after a thread failed (call #{k}) and exited, another thread finds {later:?} and this thread {here:?}"));
        }
    }
    Ok(calls)
}

/// Every integer argument of every function over its extremes: list / grid indices 0, 1, len-1,
/// len, len+1, 7, 2^31, 2^32 ± 1, 2^63 ± 1, usize::MAX - 1, usize::MAX on containers of 0, 1 and 3
/// entries through get / set / remove / row-at; hour / minute / second / millisecond / year / month
/// / day over 0, 1, the field's limit ± 1, 999, 1000, 2^31, u32::MAX (i32::MIN / MAX for the year).
/// In range: the Rust answer. Out of range: the sentinel and a message, the container unchanged —
/// never a panic inside the C boundary. Returns the number of calls made.
pub unsafe fn numeric_sweep() -> Result<u64, String> {
    let mut calls = 0u64;
    let _ = take_error();
    let idx: Vec<usize> = vec![0, 1, 2, 3, 4, 7, 1 << 31, (1 << 32) - 1, 1 << 32, (1 << 32) + 1, (1 << 63) - 1, 1 << 63, (1 << 63) + 1, usize::MAX - 1, usize::MAX];
    for len in [0usize, 1, 3] {
        for &i in &idx {
            let text = format!("[{}]", (0..len).map(|k| k.to_string()).collect::<Vec<_>>().join(","));
            let gtext = format!("ver:\"3.0\"\na\n{}", (0..len).map(|k| format!("{k}\n")).collect::<String>());
            // get
            let list = opt_box(haystack_value_from_zinc_string(cs(text.as_bytes()).as_ptr()));
            let mut out: *const Value = std::ptr::null();
            let r = haystack_value_get_list_entry_at(list, i, &mut out);
            calls += 1;
            let ok = if i < len { r == ResultType::TRUE && !out.is_null() && matches!(&*out, Value::Number(n) if n.value == i as f64) } else { r == ResultType::ERR };
            if !ok {
                haystack_value_destroy(list);
                return Err(format!("get_list_entry_at(list of {len}, {i}) returned {}", rt(r)));
            }
            check_error(i >= len, &format!("get_list_entry_at(list of {len}, {i})"))?;
            // set
            let e = Box::into_raw(haystack_value_make_str(cs(b"new").as_ptr()).expect("str"));
            let r = haystack_value_set_list_entry_at(list, i, e);
            calls += 1;
            let ok = if i < len { r == ResultType::TRUE } else { r == ResultType::ERR };
            let n_after = haystack_value_get_list_len(list);
            haystack_value_destroy(e);
            if !ok || n_after != len {
                haystack_value_destroy(list);
                return Err(format!("set_list_entry_at(list of {len}, {i}) returned {}, length afterwards {n_after}", rt(r)));
            }
            check_error(i >= len, &format!("set_list_entry_at(list of {len}, {i})"))?;
            // remove
            let r = haystack_value_remove_list_entry_at(list, i);
            calls += 1;
            let n_after = haystack_value_get_list_len(list);
            let ok = if i < len { r == ResultType::TRUE && n_after == len - 1 } else { r == ResultType::ERR && n_after == len };
            haystack_value_destroy(list);
            if !ok {
                return Err(format!("remove_list_entry_at(list of {len}, {i}) returned {}, length afterwards {n_after}", rt(r)));
            }
            check_error(i >= len, &format!("remove_list_entry_at(list of {len}, {i})"))?;
            // grid row
            let grid = opt_box(haystack_value_from_zinc_string(cs(gtext.as_bytes()).as_ptr()));
            if grid.is_null() {
                return Err(format!("numeric sweep: set-up grid does not decode: {gtext:?}"));
            }
            let row = Box::into_raw(haystack_value_init());
            let r = haystack_value_get_grid_row_at(grid, i, row);
            calls += 1;
            let ok = if i < len { r == ResultType::TRUE && matches!(&*row, Value::Dict(_)) } else { r == ResultType::ERR };
            let glen = haystack_value_get_grid_len(grid);
            haystack_value_destroy(row);
            haystack_value_destroy(grid);
            if !ok || glen != len {
                return Err(format!("get_grid_row_at(grid of {len}, {i}) returned {}, rows afterwards {glen}", rt(r)));
            }
            check_error(i >= len, &format!("get_grid_row_at(grid of {len}, {i})"))?;
        }
    }
    let small: Vec<u32> = vec![0, 1, 11, 12, 13, 23, 24, 25, 28, 29, 30, 31, 32, 59, 60, 61, 99, 100, 999, 1000, 1001, 1 << 31, u32::MAX - 1, u32::MAX];
    for &a in &small {
        for &b in &[0u32, 1, 59, 60, 999, 1000, u32::MAX] {
            for k in 0..7 {
                let (what, r) = match k {
                    0 => (format!("make_time({a},{b},{b})"), haystack_value_make_time(a, b, b)),
                    1 => (format!("make_time({b},{a},{b})"), haystack_value_make_time(b, a, b)),
                    2 => (format!("make_time({b},{b},{a})"), haystack_value_make_time(b, b, a)),
                    3 => (format!("make_time_millis({b},{b},{b},{a})"), haystack_value_make_time_millis(b, b, b, a)),
                    4 => (format!("make_time_millis({a},{b},{b},{b})"), haystack_value_make_time_millis(a, b, b, b)),
                    5 => (format!("make_date(2021,{a},{b})"), haystack_value_make_date(2021, a, b)),
                    _ => (format!("make_date(2020,{b},{a})"), haystack_value_make_date(2020, b, a)),
                };
                calls += 1;
                let failed = r.is_none();
                drop(r);
                check_error(failed, &what)?;
            }
        }
    }
    for y in [i32::MIN, i32::MIN + 1, -262_144, -262_143, -10_000, -1, 0, 1, 9999, 10_000, 262_142, 262_143, 262_144, i32::MAX - 1, i32::MAX] {
        for (m, d) in [(1u32, 1u32), (2, 29), (12, 31), (0, 0), (13, 32)] {
            let r = haystack_value_make_date(y, m, d);
            calls += 1;
            let failed = r.is_none();
            drop(r);
            check_error(failed, &format!("make_date({y},{m},{d})"))?;
        }
    }
    Ok(calls)
}

/// Failing calls whose error message quotes long caller text: every text-taking entry point is
/// given malformed input built from 1-, 2-, 3- and 4-byte characters, preceded by 0..3 ASCII
/// bytes, of total sizes around 60, 120, 250..260, 510..515, 1020..1030, 4090..4100 and 65 536
/// bytes; the failure must be reported by the sentinel and the message must be retrievable
/// exactly once (and destroyable). Returns the number of calls made.
pub unsafe fn long_error_sweep() -> Result<u64, String> {
    let mut calls = 0u64;
    let _ = take_error();
    let mut sizes: Vec<usize> = vec![60, 120];
    sizes.extend(248..=262);
    sizes.extend(508..=516);
    sizes.extend(1020..=1030);
    sizes.extend(4092..=4100);
    sizes.push(65_536);
    let date = Box::into_raw(haystack_value_make_date(2021, 3, 4).expect("date"));
    let time = Box::into_raw(haystack_value_make_time(5, 6, 7).expect("time"));
    let result = (|| -> Result<(), String> {
        for unit_char in ["x", "é", "€", "😀", "д"] {
            for pad in 0..4usize {
                for &size in &sizes {
                    let mut body = "p".repeat(pad);
                    while body.len() + unit_char.len() <= size {
                        body.push_str(unit_char);
                    }
                    // malformed in each grammar, quoting the body in different places
                    let texts: Vec<(&str, String)> = vec![
                        ("zinc-unterminated-dict", format!("{{\"{body}\"}}")),
                        ("zinc-bad-token", format!("{body}")),
                        ("zinc-unknown-unit", format!("5{body}")),
                        ("json-bad-kind", format!("{{\"_kind\":\"{body}\"}}")),
                        ("json-not-json", format!("{body}")),
                        ("filter-bad", format!("site and \"{body}\"")),
                        ("filter-bad-token", format!("{body} ==")),
                    ];
                    for (what, t) in &texts {
                        let c = match CString::new(t.as_bytes()) {
                            Ok(c) => c,
                            Err(_) => continue,
                        };
                        let (failed, name) = if what.starts_with("zinc") {
                            let r = haystack_value_from_zinc_string(c.as_ptr());
                            (r.is_none(), "from_zinc_string")
                        } else if what.starts_with("json") {
                            let r = haystack_value_from_json_string(c.as_ptr());
                            (r.is_none(), "from_json_string")
                        } else {
                            let r = haystack_filter_parse(c.as_ptr());
                            let f = r.is_none();
                            if let Some(b) = r {
                                destroy_filter(Box::into_raw(b));
                            }
                            (f, "filter_parse")
                        };
                        calls += 1;
                        // (some of these texts are legal, e.g. a long identifier is a filter)
                        check_error(failed, &format!("{name}({what}, {} bytes of {unit_char:?} after {pad})", t.len()))?;
                    }
                    let c = CString::new(body.as_bytes()).expect("no NUL");
                    let r = haystack_value_make_number_with_unit(1.0, c.as_ptr());
                    calls += 1;
                    check_error(r.is_none(), &format!("make_number_with_unit({} bytes of {unit_char:?})", body.len()))?;
                    let r = haystack_value_make_tz_datetime(date, time, c.as_ptr());
                    calls += 1;
                    check_error(r.is_none(), &format!("make_tz_datetime(zone of {} bytes of {unit_char:?})", body.len()))?;
                }
            }
        }
        Ok(())
    })();
    haystack_value_destroy(date);
    haystack_value_destroy(time);
    result.map(|_| calls)
}

/// Borrowed entry pointers stay valid — and keep pointing at the same entry — across every
/// read-only call on their container (the protocol: "while the container is alive and
/// unmodified"); every returned string is a fresh allocation that can be destroyed on its own.
/// Returns the number of calls made.
pub unsafe fn borrow_sweep() -> Result<u64, String> {
    let mut calls = 0u64;
    let _ = take_error();
    // a list of five, a dict of five (from text), a grid of five rows
    let list = opt_box(haystack_value_from_zinc_string(cs(b"[1,\"two\",@three,{k:4},[5,6]]").as_ptr()));
    let dict = opt_box(haystack_value_from_zinc_string(cs(b"{a:1,b:\"two\",siteRef:@three,d:{k:4},e:[5,6]}").as_ptr()));
    let grid = opt_box(haystack_value_from_zinc_string(cs(b"ver:\"3.0\"\na,b\n1,2\n3,4\n5,6\n7,8\n9,10\n").as_ptr()));
    let out = Box::into_raw(haystack_value_init());
    if list.is_null() || dict.is_null() || grid.is_null() {
        return Err("borrow sweep: set-up values do not decode".into());
    }
    let result = (|| -> Result<(), String> {
        let want_list: Vec<Value> = match &*list {
            Value::List(l) => l.clone(),
            _ => return Err("not a list".into()),
        };
        let mut ptrs: Vec<*const Value> = vec![];
        for i in 0..want_list.len() {
            let mut p: *const Value = std::ptr::null();
            if haystack_value_get_list_entry_at(list, i, &mut p) != ResultType::TRUE || p.is_null() {
                return Err(format!("get_list_entry_at({i}) failed"));
            }
            ptrs.push(p);
            calls += 1;
        }
        let keys: Vec<&[u8]> = vec![b"a", b"b", b"siteRef", b"d", b"e"];
        let want_dict: Vec<Value> = match &*dict {
            Value::Dict(d) => keys.iter().map(|k| d.get(std::str::from_utf8(k).unwrap()).cloned().unwrap()).collect(),
            _ => return Err("not a dict".into()),
        };
        let mut dptrs: Vec<*const Value> = vec![];
        for k in &keys {
            let mut p: *const Value = std::ptr::null();
            if haystack_value_get_dict_entry(dict, cs(k).as_ptr(), &mut p) != ResultType::TRUE || p.is_null() {
                return Err(format!("get_dict_entry({:?}) failed", String::from_utf8_lossy(k)));
            }
            dptrs.push(p);
            calls += 1;
        }
        // every read-only call on the containers, twice; strings destroyed one by one
        for _ in 0..2 {
            for h in [list, dict, grid] {
                for f in [haystack_value_to_zinc_string as unsafe extern "C" fn(*const Value) -> *const c_char, haystack_value_to_json_string] {
                    let (a, b) = (f(h), f(h));
                    calls += 2;
                    if a.is_null() || b.is_null() {
                        return Err("encoding a container failed".into());
                    }
                    if a == b {
                        return Err("a string getter returned the same pointer twice: destroying both frees it twice".into());
                    }
                    haystack_string_destroy(a as *mut c_char);
                    haystack_string_destroy(b as *mut c_char);
                }
                let _ = haystack_value_is_list(h);
                let _ = haystack_value_is_dict(h);
                let _ = haystack_value_is_grid(h);
                let _ = haystack_value_get_list_len(h);
                let _ = haystack_value_get_dict_len(h);
                let _ = haystack_value_get_grid_len(h);
                let _ = take_error();
                calls += 6;
            }
            let _ = haystack_value_get_dict_keys(dict, out);
            for i in 0..5 {
                let _ = haystack_value_get_grid_row_at(grid, i, out);
                let mut p: *const Value = std::ptr::null();
                let _ = haystack_value_get_list_entry_at(list, 4 - i, &mut p);
                calls += 2;
            }
            let mut p: *const Value = std::ptr::null();
            let _ = haystack_value_get_dict_entry(dict, cs(b"nope").as_ptr(), &mut p);
            let _ = haystack_value_get_list_entry_at(list, 99, &mut p);
            let _ = take_error();
            // the borrowed pointers still point at their entries
            for (i, p) in ptrs.iter().enumerate() {
                if **p != want_list[i] {
                    return Err(format!("the entry pointer of list element {i} no longer points at it after read-only calls: {:?}", **p));
                }
            }
            for (i, p) in dptrs.iter().enumerate() {
                if **p != want_dict[i] {
                    return Err(format!("the entry pointer of dict key {:?} no longer points at it after read-only calls: {:?}", String::from_utf8_lossy(keys[i]), **p));
                }
            }
        }
        // borrowed pointers fed back into the API: "append a copy of the first element" etc. The
        // container is alive and unmodified when the call starts, so this is inside the protocol;
        // the list grows past several capacities
        {
            let l2 = opt_box(haystack_value_from_zinc_string(cs(b"[\"entry number 0\",{k:[1,2,3]},3]").as_ptr()));
            let d2 = opt_box(haystack_value_from_zinc_string(cs(b"{a:\"entry a\",b:{k:[1,2,3]}}").as_ptr()));
            let mut model: Vec<Value> = match &*l2 {
                Value::List(l) => l.clone(),
                _ => vec![],
            };
            let mut verdict: Result<(), String> = Ok(());
            for round in 0..40usize {
                let idx = round % model.len();
                let mut p: *const Value = std::ptr::null();
                if haystack_value_get_list_entry_at(l2, idx, &mut p) != ResultType::TRUE {
                    verdict = Err("get_list_entry_at failed".into());
                    break;
                }
                calls += 2;
                let expect = model[idx].clone();
                match round % 3 {
                    0 => {
                        if haystack_value_push_list_entry(l2, p) != ResultType::TRUE {
                            verdict = Err("push_list_entry(list, borrowed entry of the same list) failed".into());
                            break;
                        }
                        model.push(expect);
                    }
                    1 => {
                        // twice in a row from the same borrowed pointer is NOT allowed (the first
                        // push modified the container): borrow again
                        if haystack_value_push_list_entry(l2, p) != ResultType::TRUE {
                            verdict = Err("push_list_entry(list, borrowed entry of the same list) failed".into());
                            break;
                        }
                        model.push(expect.clone());
                        let mut p2: *const Value = std::ptr::null();
                        let _ = haystack_value_get_list_entry_at(l2, model.len() - 1, &mut p2);
                        let _ = haystack_value_push_list_entry(l2, p2);
                        model.push(expect);
                    }
                    _ => {
                        let key = cs(format!("k{round}").as_bytes());
                        if haystack_value_insert_dict_entry(d2, key.as_ptr(), p) != ResultType::TRUE {
                            verdict = Err("insert_dict_entry(dict, key, borrowed list entry) failed".into());
                            break;
                        }
                        let mut q: *const Value = std::ptr::null();
                        if haystack_value_get_dict_entry(d2, cs(b"b").as_ptr(), &mut q) == ResultType::TRUE {
                            // a borrowed dict entry into the same dict under a new key
                            let key2 = cs(format!("c{round}").as_bytes());
                            let _ = haystack_value_insert_dict_entry(d2, key2.as_ptr(), q);
                            let _ = haystack_value_push_list_entry(l2, q);
                            model.push(match &*d2 {
                                Value::Dict(d) => d.get("b").cloned().unwrap_or_default(),
                                _ => Value::default(),
                            });
                        }
                    }
                }
                match &*l2 {
                    Value::List(l) if *l == model => {}
                    other => {
                        verdict = Err(format!("after feeding a borrowed entry back into its list (round {round}) the list is {:?}, expected {:?}", other, model).chars().take(700).collect());
                        break;
                    }
                }
            }
            haystack_value_destroy(l2);
            haystack_value_destroy(d2);
            let _ = take_error();
            verdict?;
        }
        // scalar string getters twice
        let s = opt_box(haystack_value_from_zinc_string(cs(b"[\"str\",`uri`,@ref \"dis\",^sym,Bin(\"x\"),5kW,2021-07-01T12:00:00-04:00 New_York,\"\"]").as_ptr()));
        if s.is_null() {
            return Err("borrow sweep: scalar list does not decode".into());
        }
        let getters: Vec<unsafe extern "C" fn(*const Value) -> *const c_char> = vec![
            haystack_value_get_str_value,
            haystack_value_get_uri_value,
            haystack_value_get_ref_value,
            haystack_value_get_ref_dis,
            haystack_value_get_symbol_value,
            haystack_value_get_xstr_type,
            haystack_value_get_xstr_value,
            haystack_value_get_number_unit,
            haystack_value_get_datetime_timezone,
        ];
        let mut verdict = Ok(());
        for i in 0..8usize {
            let mut p: *const Value = std::ptr::null();
            let _ = haystack_value_get_list_entry_at(s, i, &mut p);
            for g in &getters {
                let (a, b) = (g(p), g(p));
                calls += 2;
                let _ = take_error();
                if !a.is_null() && a == b {
                    verdict = Err("a scalar string getter returned the same pointer twice".to_string());
                }
                if !a.is_null() {
                    haystack_string_destroy(a as *mut c_char);
                }
                if !b.is_null() && b != a {
                    haystack_string_destroy(b as *mut c_char);
                }
            }
        }
        haystack_value_destroy(s);
        verdict
    })();
    haystack_value_destroy(list);
    haystack_value_destroy(dict);
    haystack_value_destroy(grid);
    haystack_value_destroy(out);
    result.map(|_| calls)
}
