//! Reference taxonomy for C13/C14: a plain adjacency map built from the `is` lists.

use super::v::{Tags, V};
use std::collections::{BTreeMap, BTreeSet};

pub type Names = BTreeSet<String>;

#[derive(Clone, Debug, Default)]
pub struct RefNs {
    /// def name -> supertypes named in its `is` list (Symbols only, in list order, defined or not)
    pub is_: BTreeMap<String, Vec<String>>,
    pub choice_roots: BTreeSet<String>,
}

fn tag<'a>(t: &'a Tags, k: &str) -> Option<&'a V> {
    t.iter().find(|(n, _)| n == k).map(|(_, v)| v)
}

impl RefNs {
    /// from the rows of a defs grid: rows without a Symbol `def` tag are ignored
    pub fn make(rows: &[Tags]) -> RefNs {
        let mut ns = RefNs::default();
        for r in rows {
            if let Some(V::Sym(name)) = tag(r, "def") {
                let is_: Vec<String> = match tag(r, "is") {
                    Some(V::List(l)) => l
                        .iter()
                        .filter_map(|x| match x {
                            V::Sym(s) => Some(s.clone()),
                            _ => None,
                        })
                        .collect(),
                    _ => vec![],
                };
                // a later row with the same def replaces an earlier one (map semantics)
                ns.is_.insert(name.clone(), is_);
            }
        }
        ns
    }
    pub fn defined(&self, s: &str) -> bool {
        self.is_.contains_key(s)
    }
    pub fn supertypes(&self, s: &str) -> Names {
        self.is_.get(s).map(|v| v.iter().filter(|x| self.defined(x)).cloned().collect()).unwrap_or_default()
    }
    pub fn all_supertypes(&self, s: &str) -> Names {
        let mut out = Names::new();
        let mut stack: Vec<String> = self.supertypes(s).into_iter().collect();
        while let Some(x) = stack.pop() {
            if out.insert(x.clone()) {
                stack.extend(self.supertypes(&x));
            }
        }
        out
    }
    /// direct subtypes: defs whose `is` names s (s need not be defined)
    pub fn subtypes(&self, s: &str) -> Names {
        self.is_.iter().filter(|(_, v)| v.iter().any(|x| x == s)).map(|(k, _)| k.clone()).collect()
    }
    pub fn all_subtypes(&self, s: &str) -> Names {
        let mut out = Names::new();
        let mut stack: Vec<String> = self.subtypes(s).into_iter().collect();
        while let Some(x) = stack.pop() {
            if out.insert(x.clone()) {
                stack.extend(self.subtypes(&x));
            }
        }
        out
    }
    pub fn inheritance(&self, s: &str) -> Names {
        if !self.defined(s) {
            return Names::new();
        }
        let mut out = self.all_supertypes(s);
        out.insert(s.to_string());
        out
    }
    pub fn fits(&self, a: &str, b: &str) -> bool {
        self.defined(b) && self.defined(a) && self.inheritance(a).contains(b)
    }
    pub fn is_choice(&self, s: &str) -> bool {
        self.is_.get(s).map_or(false, |v| v.iter().any(|x| x == "choice"))
    }
    pub fn choices_for(&self, s: &str) -> Names {
        if self.is_choice(s) {
            self.subtypes(s)
        } else {
            Names::new()
        }
    }
    pub fn conjuncts(&self) -> Vec<String> {
        self.is_.keys().filter(|k| k.contains('-')).cloned().collect()
    }
    /// defs of the record's tags, of every conjunct whose parts are all marker tags of the
    /// record, and all their supertypes
    pub fn reflect(&self, rec: &Tags) -> Names {
        let mut base = Names::new();
        for (k, _) in rec {
            if self.defined(k) {
                base.insert(k.clone());
            }
        }
        for c in self.conjuncts() {
            if c.split('-').all(|part| matches!(tag(rec, part), Some(V::Marker))) {
                base.insert(c);
            }
        }
        let mut out = base.clone();
        for b in &base {
            out.extend(self.all_supertypes(b));
        }
        out
    }
    pub fn reflection_fits(&self, rec: &Tags, sym: &str) -> bool {
        self.defined(sym) && self.reflect(rec).iter().any(|d| self.fits(d, sym))
    }
}
