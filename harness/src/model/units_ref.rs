//! Reference unit table parsed from /repo/unit-gen/units.txt by the harness itself
//! (format: `name[, name…][, symbol] ; dims ; scale ; offset` under `-- quantity (dim)` sections).

use std::collections::BTreeMap;
use std::sync::OnceLock;

#[derive(Clone, Debug, PartialEq)]
pub struct RefUnit {
    pub quantity: String,
    pub ids: Vec<String>,
    /// kg, m, sec, K, A, mol, cd — None = dimensionless (no dims column)
    pub dims: Option<[i8; 7]>,
    pub scale: f64,
    pub offset: f64,
}

impl RefUnit {
    pub fn name(&self) -> &str {
        &self.ids[0]
    }
    pub fn symbol(&self) -> &str {
        self.ids.last().unwrap()
    }
}

pub struct RefDb {
    pub units: Vec<RefUnit>,
    pub by_id: BTreeMap<String, usize>,
    pub duplicate_ids: Vec<String>,
}

fn parse_dims(s: &str) -> Option<[i8; 7]> {
    let s = s.trim();
    if s.is_empty() {
        return None;
    }
    let mut d = [0i8; 7];
    for part in s.split('*') {
        let part = part.trim();
        let bases = ["kg", "mol", "sec", "cd", "m", "K", "A"];
        let idx = [0usize, 5, 2, 6, 1, 3, 4];
        let mut found = false;
        for (b, i) in bases.iter().zip(idx.iter()) {
            if let Some(rest) = part.strip_prefix(b) {
                if let Ok(e) = rest.parse::<i8>() {
                    d[*i] = e;
                    found = true;
                    break;
                }
            }
        }
        if !found {
            crate::engine::machinery(&format!("units.txt: cannot parse dimension {part:?}"));
        }
    }
    Some(d)
}

pub fn db() -> &'static RefDb {
    static DB: OnceLock<RefDb> = OnceLock::new();
    DB.get_or_init(|| {
        let path = format!("{}/unit-gen/units.txt", crate::engine::repo_dir());
        let path = path.as_str();
        let text = std::fs::read_to_string(path).unwrap_or_else(|e| crate::engine::machinery(&format!("{path}: {e}")));
        let mut quantity = String::new();
        let mut units = vec![];
        for line in text.lines() {
            let line = line.trim();
            if line.is_empty() || line.starts_with("//") {
                continue;
            }
            if let Some(q) = line.strip_prefix("--") {
                let q = q.trim();
                quantity = match q.find('(') {
                    Some(i) => q[..i].trim().to_string(),
                    None => q.to_string(),
                };
                continue;
            }
            let cols: Vec<&str> = line.split(';').collect();
            let ids: Vec<String> = cols[0].split(',').map(|s| s.trim().to_string()).filter(|s| !s.is_empty()).collect();
            let dims = cols.get(1).and_then(|s| parse_dims(s));
            let scale = cols.get(2).map(|s| s.trim()).filter(|s| !s.is_empty()).map_or(1.0, |s| s.parse::<f64>().expect("scale"));
            let offset = cols.get(3).map(|s| s.trim()).filter(|s| !s.is_empty()).map_or(0.0, |s| s.parse::<f64>().expect("offset"));
            units.push(RefUnit { quantity: quantity.clone(), ids, dims, scale, offset });
        }
        let mut by_id = BTreeMap::new();
        let mut duplicate_ids = vec![];
        for (i, u) in units.iter().enumerate() {
            for id in &u.ids {
                if let Some(prev) = by_id.insert(id.clone(), i) {
                    if prev != i {
                        duplicate_ids.push(id.clone());
                    }
                }
            }
        }
        RefDb { units, by_id, duplicate_ids }
    })
}

/// canonical symbol (last id) of the unit an id names
pub fn canonical(id: &str) -> Option<String> {
    let d = db();
    d.by_id.get(id).map(|&i| d.units[i].symbol().to_string())
}
