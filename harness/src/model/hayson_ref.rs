//! Reference Hayson (Haystack JSON) mapping, written from DESIGN.md Appendix A.2 — not from
//! libhaystack: value -> JSON tree (with choice points for the optional parts), a JSON text
//! emitter of its own (member order, number spelling, string escapes, white space are choice
//! points), and tree -> value.

use super::time_ref::{civil_from_days, days_from_civil, rfc3339_instant};
use super::units_ref;
use super::v::{Col, Tags, DT, G, V};
use crate::engine::choice::Chooser;

#[derive(Clone, Debug, PartialEq)]
pub enum JT {
    Null,
    Bool(bool),
    Num(f64),
    Str(String),
    Arr(Vec<JT>),
    Obj(Vec<(String, JT)>),
}

pub struct Enc<'a> {
    pub ch: &'a mut Chooser,
    pub deviated: Vec<&'static str>,
}

impl<'a> Enc<'a> {
    fn pick(&mut self, name: &'static str, n: u32) -> u32 {
        let c = self.ch.choose(n);
        if c != 0 {
            self.deviated.push(name);
        }
        c
    }
}

fn obj(kind: &str, rest: Vec<(&str, JT)>) -> JT {
    let mut m = vec![("_kind".to_string(), JT::Str(kind.to_string()))];
    for (k, v) in rest {
        m.push((k.to_string(), v));
    }
    JT::Obj(m)
}

fn time_text(h: u32, m: u32, s: u32, nanos: u32, e: &mut Enc) -> String {
    let mut t = format!("{h:02}:{m:02}:{s:02}");
    let mut f = format!("{nanos:09}");
    while f.ends_with('0') {
        f.pop();
    }
    let mut alts = vec![f.clone()];
    for n in [3usize, 6, 9] {
        if n > f.len() {
            let mut g = f.clone();
            while g.len() < n {
                g.push('0');
            }
            alts.push(g);
        }
    }
    let k = e.pick("fraction-digits", alts.len() as u32) as usize;
    if !alts[k].is_empty() {
        t.push('.');
        t.push_str(&alts[k]);
    }
    t
}

fn tags_tree(t: &Tags, e: &mut Enc) -> Vec<(String, JT)> {
    t.iter().map(|(k, v)| (k.clone(), to_tree(v, e))).collect()
}

/// value -> Hayson tree; optional parts are choice points
pub fn to_tree(v: &V, e: &mut Enc) -> JT {
    match v {
        V::Null => JT::Null,
        V::Bool(b) => JT::Bool(*b),
        V::Str(s) => JT::Str(s.clone()),
        V::Marker => obj("marker", vec![]),
        V::Na => obj("na", vec![]),
        V::Remove => obj("remove", vec![]),
        V::Num(x, None) if x.is_finite() => JT::Num(*x),
        V::Num(x, None) => obj("number", vec![("val", JT::Str(if x.is_nan() { "NaN".into() } else if *x > 0.0 { "INF".into() } else { "-INF".into() }))]),
        V::Num(x, Some(u)) => {
            let val = if x.is_finite() { JT::Num(*x) } else { JT::Str(if x.is_nan() { "NaN".into() } else if *x > 0.0 { "INF".into() } else { "-INF".into() }) };
            obj("number", vec![("val", val), ("unit", JT::Str(u.clone()))])
        }
        V::Ref(id, None) => obj("ref", vec![("val", JT::Str(id.clone()))]),
        V::Ref(id, Some(d)) => obj("ref", vec![("val", JT::Str(id.clone())), ("dis", JT::Str(d.clone()))]),
        V::Sym(s) => obj("symbol", vec![("val", JT::Str(s.clone()))]),
        V::Uri(s) => obj("uri", vec![("val", JT::Str(s.clone()))]),
        V::Date(y, m, d) => obj("date", vec![("val", JT::Str(format!("{y:04}-{m:02}-{d:02}")))]),
        V::Time(h, m, s, n) => {
            let t = time_text(*h, *m, *s, *n, e);
            obj("time", vec![("val", JT::Str(t))])
        }
        V::DateTime(dt) => {
            // the instant may be spelled at the zone's offset or in UTC with the zone named in "tz"
            // (writers that keep the instant as a UTC ISO string do the latter)
            let in_utc = dt.tz != "UTC" && dt.offset != 0 && dt.offset % 60 == 0 && e.pick("val-in-utc", 2) == 1;
            let spelled_offset = if in_utc { 0 } else { dt.offset };
            let local = dt.secs + spelled_offset as i64;
            let days = local.div_euclid(86400);
            let sod = local.rem_euclid(86400) as u32;
            let (y, mo, d) = civil_from_days(days);
            let mut s = format!("{y:04}-{mo:02}-{d:02}T");
            s.push_str(&time_text(sod / 3600, (sod / 60) % 60, sod % 60, dt.nanos, e));
            if spelled_offset == 0 {
                match e.pick("zero-offset-spelling", 2) {
                    0 => s.push('Z'),
                    _ => s.push_str("+00:00"),
                }
            } else {
                let a = dt.offset.abs();
                s.push_str(&format!("{}{:02}:{:02}", if dt.offset < 0 { '-' } else { '+' }, a / 3600, (a / 60) % 60));
            }
            if dt.tz == "UTC" {
                if e.pick("utc-tz-member", 2) == 1 {
                    obj("dateTime", vec![("val", JT::Str(s)), ("tz", JT::Str("UTC".into()))])
                } else {
                    obj("dateTime", vec![("val", JT::Str(s))])
                }
            } else {
                obj("dateTime", vec![("val", JT::Str(s)), ("tz", JT::Str(dt.tz.clone()))])
            }
        }
        V::Coord(a, b) => obj("coord", vec![("lat", JT::Num(*a)), ("lng", JT::Num(*b))]),
        V::XStr(t, s) => obj("xstr", vec![("type", JT::Str(t.clone())), ("val", JT::Str(s.clone()))]),
        V::List(l) => JT::Arr(l.iter().map(|x| to_tree(x, e)).collect()),
        V::Dict(d) => {
            let mut m = tags_tree(d, e);
            if e.pick("dict-kind-member", 2) == 1 {
                m.insert(0, ("_kind".to_string(), JT::Str("dict".into())));
            }
            JT::Obj(m)
        }
        V::Grid(g) => {
            let mut m = vec![("_kind".to_string(), JT::Str("grid".into()))];
            // meta: {…} | {"ver":"3.0",…} | absent (only when there are no tags)
            let tags = g.meta.clone().unwrap_or_default();
            let mut meta = tags_tree(&tags, e);
            let n = if tags.is_empty() && g.ver == "3.0" { 3 } else { 2 };
            let c = if g.ver != "3.0" { 1 } else { e.pick("grid-meta-spelling", n) };
            if c == 1 {
                meta.insert(0, ("ver".to_string(), JT::Str(g.ver.clone())));
            }
            if c != 2 {
                m.push(("meta".to_string(), JT::Obj(meta)));
            }
            let cols = g
                .cols
                .iter()
                .map(|col| {
                    let mut cm = vec![("name".to_string(), JT::Str(col.name.clone()))];
                    match &col.meta {
                        Some(t) if !t.is_empty() => cm.push(("meta".to_string(), JT::Obj(tags_tree(t, e)))),
                        _ => {
                            if e.pick("column-meta-spelling", 2) == 1 {
                                cm.push(("meta".to_string(), JT::Obj(vec![])));
                            }
                        }
                    }
                    JT::Obj(cm)
                })
                .collect();
            m.push(("cols".to_string(), JT::Arr(cols)));
            m.push(("rows".to_string(), JT::Arr(g.rows.iter().map(|r| JT::Obj(tags_tree(r, e))).collect())));
            JT::Obj(m)
        }
    }
}

// ------------------------------------------------------------------------------ text emitter

fn permutations(n: usize) -> Vec<Vec<usize>> {
    fn rec(cur: &mut Vec<usize>, used: &mut Vec<bool>, n: usize, out: &mut Vec<Vec<usize>>) {
        if cur.len() == n {
            out.push(cur.clone());
            return;
        }
        for i in 0..n {
            if !used[i] {
                used[i] = true;
                cur.push(i);
                rec(cur, used, n, out);
                cur.pop();
                used[i] = false;
            }
        }
    }
    let mut out = vec![];
    rec(&mut vec![], &mut vec![false; n], n, &mut out);
    out
}

fn num_text(x: f64, e: &mut Enc) -> String {
    let canon = if x == 0.0 && x.is_sign_negative() { "-0.0".to_string() } else { format!("{x}") };
    let (neg, body) = match canon.strip_prefix('-') {
        Some(b) => (true, b.to_string()),
        None => (false, canon.clone()),
    };
    let (ip, fp) = match body.find('.') {
        Some(i) => (body[..i].to_string(), body[i + 1..].to_string()),
        None => (body.clone(), String::new()),
    };
    let mut alts = vec![body.clone()];
    if fp.is_empty() {
        alts.push(format!("{ip}.0"));
    } else {
        alts.push(format!("{body}0"));
    }
    alts.push(format!("{body}e0"));
    alts.push(format!("{body}E0"));
    alts.push(format!("{body}e+0"));
    alts.push(format!("{body}E-0"));
    if fp.is_empty() {
        if ip != "0" {
            alts.push(format!("{ip}0e-1"));
        }
    } else {
        let (f1, fr) = fp.split_at(1);
        let int = if ip == "0" { String::new() } else { ip.clone() };
        let lead = format!("{int}{f1}");
        let lead = lead.trim_start_matches('0');
        let lead = if lead.is_empty() { "0" } else { lead };
        alts.push(if fr.is_empty() { format!("{lead}e-1") } else { format!("{lead}.{fr}e-1") });
    }
    {
        let (ih, il) = ip.split_at(ip.len() - 1);
        let head = if ih.is_empty() { "0" } else { ih };
        alts.push(format!("{head}.{il}{fp}e1"));
        alts.push(format!("{head}.{il}{fp}E+1"));
    }
    // JSON numbers have no leading zeros; keep spellings denoting exactly the same f64
    let valid_json = |a: &str| {
        let int_end = a.find(|c: char| !c.is_ascii_digit()).unwrap_or(a.len());
        int_end > 0 && !(int_end > 1 && a.starts_with('0'))
    };
    let alts: Vec<String> = alts.into_iter().filter(|a| valid_json(a) && a.parse::<f64>().map_or(false, |y| y == x.abs())).collect();
    let k = e.pick("number-spelling", alts.len() as u32) as usize;
    format!("{}{}", if neg { "-" } else { "" }, alts[k])
}

fn str_text(s: &str, e: &mut Enc) -> String {
    let mut out = String::from("\"");
    for c in s.chars() {
        let cp = c as u32;
        let short: Option<&str> = match c {
            '"' => Some("\\\""),
            '\\' => Some("\\\\"),
            '\n' => Some("\\n"),
            '\r' => Some("\\r"),
            '\t' => Some("\\t"),
            '\u{8}' => Some("\\b"),
            '\u{c}' => Some("\\f"),
            _ => None,
        };
        let uni = if cp > 0xffff {
            let v = cp - 0x10000;
            format!("\\u{:04x}\\u{:04x}", 0xd800 + (v >> 10), 0xdc00 + (v & 0x3ff))
        } else {
            format!("\\u{cp:04x}")
        };
        let must = short.is_some() || cp < 0x20;
        if must {
            match short {
                Some(sh) => match e.pick("escape-spelling", 3) {
                    0 => out.push_str(sh),
                    1 => out.push_str(&uni),
                    _ => out.push_str(&uni.to_uppercase().replace("\\U", "\\u")),
                },
                None => match e.pick("escape-spelling", 2) {
                    0 => out.push_str(&uni),
                    _ => out.push_str(&uni.to_uppercase().replace("\\U", "\\u")),
                },
            }
        } else {
            let n = if c == '/' { 3 } else { 2 };
            match e.pick("escape-spelling", n) {
                0 => out.push(c),
                1 => out.push_str(&uni),
                _ => out.push_str("\\/"),
            }
        }
    }
    out.push('"');
    out
}

fn ws(e: &mut Enc) -> &'static str {
    match e.pick("whitespace", 3) {
        0 => "",
        1 => " ",
        _ => "\n\t",
    }
}

pub fn emit(t: &JT, e: &mut Enc, out: &mut String) {
    match t {
        JT::Null => out.push_str("null"),
        JT::Bool(b) => out.push_str(if *b { "true" } else { "false" }),
        JT::Num(x) => out.push_str(&num_text(*x, e)),
        JT::Str(s) => out.push_str(&str_text(s, e)),
        JT::Arr(a) => {
            out.push('[');
            for (i, x) in a.iter().enumerate() {
                if i > 0 {
                    out.push(',');
                    out.push_str(ws(e));
                }
                emit(x, e, out);
            }
            out.push(']');
        }
        JT::Obj(m) => {
            // member order: all permutations for <= 4 members, all rotations + reversal beyond
            let order: Vec<usize> = if m.len() <= 1 {
                (0..m.len()).collect()
            } else if m.len() <= 4 {
                let perms = permutations(m.len());
                let k = e.pick("member-order", perms.len() as u32) as usize;
                perms[k].clone()
            } else {
                let n = m.len();
                let k = e.pick("member-order", n as u32 + 1) as usize;
                if k == n {
                    (0..n).rev().collect()
                } else {
                    (0..n).map(|i| (i + k) % n).collect()
                }
            };
            out.push('{');
            for (i, &idx) in order.iter().enumerate() {
                if i > 0 {
                    out.push(',');
                    out.push_str(ws(e));
                }
                out.push_str(&str_text(&m[idx].0, e));
                out.push(':');
                out.push_str(ws(e));
                emit(&m[idx].1, e, out);
            }
            out.push('}');
        }
    }
}

/// one Hayson document for v under the choices of `ch`
pub fn write(v: &V, ch: &mut Chooser) -> (String, Vec<&'static str>) {
    let mut e = Enc { ch, deviated: vec![] };
    let tree = to_tree(v, &mut e);
    let mut out = String::new();
    emit(&tree, &mut e, &mut out);
    (out, e.deviated)
}

pub fn canonical_tree(v: &V) -> JT {
    let mut ch = Chooser::replaying(vec![]);
    let mut e = Enc { ch: &mut ch, deviated: vec![] };
    to_tree(v, &mut e)
}

// ------------------------------------------------------------------------------ reader

pub fn from_serde(j: &serde_json::Value) -> JT {
    match j {
        serde_json::Value::Null => JT::Null,
        serde_json::Value::Bool(b) => JT::Bool(*b),
        serde_json::Value::Number(n) => JT::Num(n.as_f64().unwrap_or(f64::NAN)),
        serde_json::Value::String(s) => JT::Str(s.clone()),
        serde_json::Value::Array(a) => JT::Arr(a.iter().map(from_serde).collect()),
        serde_json::Value::Object(m) => JT::Obj(m.iter().map(|(k, v)| (k.clone(), from_serde(v))).collect()),
    }
}

fn get<'a>(m: &'a [(String, JT)], k: &str) -> Option<&'a JT> {
    m.iter().find(|(n, _)| n == k).map(|(_, v)| v)
}
fn get_str(m: &[(String, JT)], k: &str) -> Result<String, String> {
    match get(m, k) {
        Some(JT::Str(s)) => Ok(s.clone()),
        other => Err(format!("member {k:?}: expected string, found {other:?}")),
    }
}
fn get_num(m: &[(String, JT)], k: &str) -> Result<f64, String> {
    match get(m, k) {
        Some(JT::Num(x)) => Ok(*x),
        other => Err(format!("member {k:?}: expected number, found {other:?}")),
    }
}

fn parse_time(s: &str) -> Result<(u32, u32, u32, u32), String> {
    let b = s.as_bytes();
    if b.len() < 8 || b[2] != b':' || b[5] != b':' {
        return Err(format!("bad time {s:?}"));
    }
    let n = |r: std::ops::Range<usize>| s.get(r).and_then(|t| t.parse::<u32>().ok()).ok_or_else(|| format!("bad time {s:?}"));
    let (h, m, se) = (n(0..2)?, n(3..5)?, n(6..8)?);
    let mut nanos = 0;
    if b.len() > 8 {
        if b[8] != b'.' || b.len() == 9 || b.len() > 18 || !s[9..].bytes().all(|c| c.is_ascii_digit()) {
            return Err(format!("bad time fraction {s:?}"));
        }
        let mut f = s[9..].to_string();
        while f.len() < 9 {
            f.push('0');
        }
        nanos = f.parse().unwrap();
    }
    if h > 23 || m > 59 || se > 59 {
        return Err(format!("time out of range {s:?}"));
    }
    Ok((h, m, se, nanos))
}

fn tags_from(m: &[(String, JT)]) -> Result<Tags, String> {
    let mut t: Tags = vec![];
    for (k, v) in m {
        if k == "_kind" {
            continue;
        }
        t.push((k.clone(), from_tree(v)?));
    }
    t.sort_by(|a, b| a.0.cmp(&b.0));
    Ok(t)
}

/// Hayson tree -> value (strict on kinds and member types, liberal on optional members)
pub fn from_tree(t: &JT) -> Result<V, String> {
    Ok(match t {
        JT::Null => V::Null,
        JT::Bool(b) => V::Bool(*b),
        JT::Num(x) => V::Num(*x, None),
        JT::Str(s) => V::Str(s.clone()),
        JT::Arr(a) => V::List(a.iter().map(from_tree).collect::<Result<Vec<_>, _>>()?),
        JT::Obj(m) => {
            let kind = match get(m, "_kind") {
                None => return Ok(V::Dict(tags_from(m)?)),
                Some(JT::Str(k)) => k.clone(),
                Some(other) => return Err(format!("_kind is not a string: {other:?}")),
            };
            match kind.as_str() {
                "dict" => V::Dict(tags_from(m)?),
                "marker" => V::Marker,
                "na" => V::Na,
                "remove" => V::Remove,
                "number" => {
                    let x = match get(m, "val") {
                        Some(JT::Num(x)) => *x,
                        Some(JT::Str(s)) if s == "INF" => f64::INFINITY,
                        Some(JT::Str(s)) if s == "-INF" => f64::NEG_INFINITY,
                        Some(JT::Str(s)) if s == "NaN" => f64::NAN,
                        other => return Err(format!("number val {other:?}")),
                    };
                    match get(m, "unit") {
                        None => V::Num(x, None),
                        Some(JT::Str(u)) => V::Num(x, Some(units_ref::canonical(u).ok_or_else(|| format!("unknown unit {u:?}"))?)),
                        Some(other) => return Err(format!("unit {other:?}")),
                    }
                }
                "ref" => V::Ref(get_str(m, "val")?, match get(m, "dis") {
                    None => None,
                    Some(JT::Str(d)) => Some(d.clone()),
                    Some(o) => return Err(format!("dis {o:?}")),
                }),
                "symbol" => V::Sym(get_str(m, "val")?),
                "uri" => V::Uri(get_str(m, "val")?),
                "date" => {
                    let s = get_str(m, "val")?;
                    let p: Vec<&str> = s.split('-').collect();
                    if p.len() != 3 || p[0].len() != 4 || p[1].len() != 2 || p[2].len() != 2 {
                        return Err(format!("bad date {s:?}"));
                    }
                    let (y, mo, d) = (p[0].parse::<i64>().map_err(|e| e.to_string())?, p[1].parse::<i64>().map_err(|e| e.to_string())?, p[2].parse::<i64>().map_err(|e| e.to_string())?);
                    if civil_from_days(days_from_civil(y, mo, d)) != (y, mo, d) {
                        return Err(format!("no such date {s:?}"));
                    }
                    V::Date(y as i32, mo as u32, d as u32)
                }
                "time" => {
                    let (h, mi, s, n) = parse_time(&get_str(m, "val")?)?;
                    V::Time(h, mi, s, n)
                }
                "dateTime" => {
                    let s = get_str(m, "val")?;
                    let (secs, nanos, off) = rfc3339_instant(&s).ok_or_else(|| format!("bad RFC 3339 {s:?}"))?;
                    let tz = match get(m, "tz") {
                        None => "UTC".to_string(),
                        Some(JT::Str(z)) => z.clone(),
                        Some(o) => return Err(format!("tz {o:?}")),
                    };
                    // the instant comes from "val"; the local offset is the named zone's at that instant
                    let off = match super::time_ref::zone_of_city(&tz) {
                        Some(z) if tz != "UTC" => super::time_ref::offset_at(&z, secs),
                        _ => off,
                    };
                    V::DateTime(DT { secs, nanos, offset: off, tz_full: tz.clone(), tz })
                }
                "coord" => V::Coord(get_num(m, "lat")?, get_num(m, "lng")?),
                "xstr" => V::XStr(get_str(m, "type")?, get_str(m, "val")?),
                "grid" => {
                    let mut ver = "3.0".to_string();
                    let meta = match get(m, "meta") {
                        None => None,
                        Some(JT::Obj(mm)) => {
                            let mut t = tags_from(mm)?;
                            if let Some(i) = t.iter().position(|(k, _)| k == "ver") {
                                if let V::Str(s) = &t[i].1 {
                                    ver = s.clone();
                                }
                                t.remove(i);
                            }
                            Some(t)
                        }
                        Some(o) => return Err(format!("grid meta {o:?}")),
                    };
                    let cols = match get(m, "cols") {
                        Some(JT::Arr(a)) => a
                            .iter()
                            .map(|c| match c {
                                JT::Obj(cm) => Ok(Col {
                                    name: get_str(cm, "name")?,
                                    meta: match get(cm, "meta") {
                                        None => None,
                                        Some(JT::Obj(mm)) => Some(tags_from(mm)?),
                                        Some(o) => return Err(format!("column meta {o:?}")),
                                    },
                                }),
                                o => Err(format!("column {o:?}")),
                            })
                            .collect::<Result<Vec<_>, String>>()?,
                        o => return Err(format!("grid cols {o:?}")),
                    };
                    let rows = match get(m, "rows") {
                        Some(JT::Arr(a)) => a
                            .iter()
                            .map(|r| match r {
                                JT::Obj(rm) => tags_from(rm),
                                o => Err(format!("row {o:?}")),
                            })
                            .collect::<Result<Vec<_>, String>>()?,
                        o => return Err(format!("grid rows {o:?}")),
                    };
                    V::Grid(Box::new(G { ver, meta, cols, rows }))
                }
                other => return Err(format!("unknown _kind {other:?}")),
            }
        }
    })
}
