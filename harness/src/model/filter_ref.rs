//! Reference model of the Haystack filter language (DESIGN Appendix A.3): an AST of its own, an
//! evaluator written from the statement of C07, a printer with spacing choice points (C08), and the
//! conversion to libhaystack's public node structs (so that evaluator checks do not depend on the
//! parser and vice versa).

use super::v::{to_lib, Tags, V};
use crate::engine::choice::Chooser;
use libhaystack::filter::nodes as n;
use libhaystack::filter::path::Path;
use libhaystack::filter::Filter;
use libhaystack::val::{Ref, Symbol};
use std::collections::BTreeMap;

#[derive(Clone, Copy, Debug, PartialEq, Eq)]
pub enum Op {
    Eq,
    Ne,
    Lt,
    Le,
    Gt,
    Ge,
}

pub const OPS: [Op; 6] = [Op::Eq, Op::Ne, Op::Lt, Op::Le, Op::Gt, Op::Ge];

impl Op {
    pub fn text(&self) -> &'static str {
        match self {
            Op::Eq => "==",
            Op::Ne => "!=",
            Op::Lt => "<",
            Op::Le => "<=",
            Op::Gt => ">",
            Op::Ge => ">=",
        }
    }
}

#[derive(Clone, Debug)]
pub enum F {
    Or(Vec<F>),
    And(Vec<F>),
    Parens(Box<F>),
    Has(Vec<String>),
    Missing(Vec<String>),
    Cmp(Vec<String>, Op, V),
    IsA(String),
    Wild(Vec<String>, String, Option<String>),
    Rel(String, Option<String>, Option<(String, Option<String>)>),
}

fn path(p: &[String]) -> Path {
    Path::from(p.iter().map(|s| s.as_str().into()).collect::<Vec<_>>())
}

fn term(f: &F) -> n::Term {
    match f {
        F::Parens(inner) => n::Term::Parens(n::Parens { or: or_of(inner) }),
        F::Has(p) => n::Term::Has(n::Has { path: path(p) }),
        F::Missing(p) => n::Term::Missing(n::Missing { path: path(p) }),
        F::Cmp(p, op, v) => n::Term::Cmp(n::Cmp {
            path: path(p),
            op: match op {
                Op::Eq => n::CmpOp::Eq,
                Op::Ne => n::CmpOp::NotEq,
                Op::Lt => n::CmpOp::LessThan,
                Op::Le => n::CmpOp::LessThanEq,
                Op::Gt => n::CmpOp::GreatThan,
                Op::Ge => n::CmpOp::GreatThanEq,
            },
            value: to_lib(v),
        }),
        F::IsA(s) => n::Term::IsA(n::IsA { symbol: Symbol::from(s.as_str()) }),
        F::Wild(p, r, d) => n::Term::WildcardEq(n::WildcardEq { id: path(p), ref_value: Ref::make(r, d.as_deref()) }),
        F::Rel(rel, t, r) => n::Term::Relation(n::Relation {
            rel: Symbol::from(rel.as_str()),
            rel_term: t.as_ref().map(|t| Symbol::from(t.as_str())),
            ref_value: r.as_ref().map(|(id, d)| Ref::make(id, d.as_deref())),
        }),
        // an or/and directly in term position cannot be represented without parens
        F::Or(_) | F::And(_) => n::Term::Parens(n::Parens { or: or_of(f) }),
    }
}

fn and_of(f: &F) -> n::And {
    match f {
        F::And(ts) => n::And { terms: ts.iter().map(term).collect() },
        other => n::And { terms: vec![term(other)] },
    }
}

fn or_of(f: &F) -> n::Or {
    match f {
        F::Or(as_) => n::Or { ands: as_.iter().map(and_of).collect() },
        other => n::Or { ands: vec![and_of(other)] },
    }
}

/// the libhaystack tree for a reference filter (built from the public node structs, no parser)
pub fn to_lib_filter(f: &F) -> Filter {
    Filter { or: or_of(f) }
}

// ------------------------------------------------------------------------------ evaluation

fn get<'a>(t: &'a Tags, k: &str) -> Option<&'a V> {
    t.iter().find(|(n, _)| n == k).map(|(_, v)| v)
}

/// `a->b->c`: look each segment up in the dict the previous one resolved to; Null counts as absent
pub fn resolve<'a>(rec: &'a Tags, p: &[String]) -> Option<&'a V> {
    let mut cur: &Tags = rec;
    for (i, seg) in p.iter().enumerate() {
        match get(cur, seg) {
            None | Some(V::Null) => return None,
            Some(v) => {
                if i + 1 == p.len() {
                    return Some(v);
                }
                match v {
                    V::Dict(d) => cur = d,
                    _ => return None,
                }
            }
        }
    }
    None
}

fn kind_eq(a: &V, b: &V) -> bool {
    std::mem::discriminant(a) == std::mem::discriminant(b)
}

/// value equality of the filter language: same kind and same value; Ref by id; DateTime by instant
fn v_eq(a: &V, b: &V) -> bool {
    match (a, b) {
        (V::Ref(x, _), V::Ref(y, _)) => x == y,
        (V::DateTime(x), V::DateTime(y)) => x.secs == y.secs && x.nanos == y.nanos,
        (V::Num(x, u), V::Num(y, w)) => x == y && u == w,
        (V::Coord(a1, a2), V::Coord(b1, b2)) => a1 == b1 && a2 == b2,
        _ => kind_eq(a, b) && format!("{a:?}") == format!("{b:?}"),
    }
}

/// natural order of two values of the same kind; None = not ordered / unconstrained
fn v_cmp(a: &V, b: &V) -> Option<std::cmp::Ordering> {
    match (a, b) {
        (V::Num(x, u), V::Num(y, w)) => {
            if u == w {
                x.partial_cmp(y)
            } else {
                None // how Numbers with different units are ordered is left open
            }
        }
        (V::Str(x), V::Str(y)) | (V::Uri(x), V::Uri(y)) | (V::Sym(x), V::Sym(y)) => Some(x.cmp(y)),
        (V::Ref(x, _), V::Ref(y, _)) => Some(x.cmp(y)),
        (V::Bool(x), V::Bool(y)) => Some(x.cmp(y)),
        (V::Date(a1, a2, a3), V::Date(b1, b2, b3)) => Some((a1, a2, a3).cmp(&(b1, b2, b3))),
        (V::Time(a1, a2, a3, a4), V::Time(b1, b2, b3, b4)) => Some((a1, a2, a3, a4).cmp(&(b1, b2, b3, b4))),
        (V::DateTime(x), V::DateTime(y)) => Some((x.secs, x.nanos).cmp(&(y.secs, y.nanos))),
        _ => None,
    }
}

/// does x stand in relation op to the literal? None = the statement leaves it open
fn relation(x: &V, op: Op, lit: &V) -> Option<bool> {
    if let V::List(items) = x {
        if !matches!(lit, V::List(_)) {
            // some element does
            let mut open = false;
            for it in items {
                match relation(it, op, lit) {
                    Some(true) => return Some(true),
                    None => open = true,
                    Some(false) => {}
                }
            }
            return if open { None } else { Some(false) };
        }
    }
    if matches!(x, V::Null) {
        return Some(false);
    }
    match op {
        Op::Eq => Some(v_eq(x, lit)),
        Op::Ne => Some(!v_eq(x, lit)),
        _ => {
            if !kind_eq(x, lit) {
                return Some(false);
            }
            if let (V::Num(_, u), V::Num(_, w)) = (x, lit) {
                if u != w {
                    return None;
                }
            }
            let o = v_cmp(x, lit)?;
            use std::cmp::Ordering::*;
            Some(match op {
                Op::Lt => o == Less,
                Op::Le => o != Greater,
                Op::Gt => o == Greater,
                Op::Ge => o != Less,
                _ => unreachable!(),
            })
        }
    }
}

/// records a Ref resolves to (for `*==`)
pub type RefMap = BTreeMap<String, Tags>;

/// Truth value per the statement of C07. None = unconstrained (skipped by the oracle).
pub fn eval(f: &F, rec: &Tags, refs: &RefMap) -> Option<bool> {
    match f {
        F::Or(v) => {
            let mut open = false;
            for x in v {
                match eval(x, rec, refs) {
                    Some(true) => return Some(true),
                    None => open = true,
                    _ => {}
                }
            }
            if open {
                None
            } else {
                Some(false)
            }
        }
        F::And(v) => {
            let mut open = false;
            for x in v {
                match eval(x, rec, refs) {
                    Some(false) => return Some(false),
                    None => open = true,
                    _ => {}
                }
            }
            if open {
                None
            } else {
                Some(true)
            }
        }
        F::Parens(x) => eval(x, rec, refs),
        F::Has(p) => Some(resolve(rec, p).is_some()),
        F::Missing(p) => Some(resolve(rec, p).is_none()),
        F::Cmp(p, op, lit) => match resolve(rec, p) {
            None => Some(false),
            Some(x) => relation(x, *op, lit),
        },
        F::Wild(p, target, _) => {
            // reachability of the target along the chain of records the refs designate
            let mut seen = std::collections::BTreeSet::new();
            let mut cur: &Tags = rec;
            loop {
                match resolve(cur, p) {
                    Some(V::Ref(id, _)) => {
                        if id == target {
                            return Some(true);
                        }
                        if !seen.insert(id.clone()) {
                            return Some(false);
                        }
                        match refs.get(id) {
                            Some(next) if !next.is_empty() => cur = next,
                            _ => return Some(false),
                        }
                    }
                    _ => return Some(false),
                }
            }
        }
        F::IsA(_) | F::Rel(..) => None,
    }
}

// ------------------------------------------------------------------------------ printing

pub struct Printer<'a> {
    pub out: String,
    ch: &'a mut Chooser,
    pub deviated: Vec<&'static str>,
    pending_after_word: bool,
}

impl<'a> Printer<'a> {
    fn pick(&mut self, name: &'static str, n: u32) -> u32 {
        let c = self.ch.choose(n);
        if c != 0 {
            self.deviated.push(name);
        }
        c
    }
    /// white space that the grammar requires (between two words)
    fn ws1(&mut self) {
        match self.pick("required-space", 4) {
            0 => self.out.push(' '),
            1 => self.out.push_str("  "),
            2 => self.out.push('\n'),
            _ => self.out.push('\t'),
        }
    }
    /// white space that the grammar allows but does not require (around operators and parens)
    fn ws0(&mut self, default_space: bool) {
        let c = self.pick("optional-space", 4);
        let s = match (default_space, c) {
            (true, 0) => " ",
            (true, 1) => "",
            (false, 0) => "",
            (false, 1) => " ",
            (_, 2) => "\n",
            _ => "  ",
        };
        self.out.push_str(s);
    }
    fn path(&mut self, p: &[String]) {
        for (i, s) in p.iter().enumerate() {
            if i > 0 {
                self.ws0(false);
                self.out.push_str("->");
                self.ws0(false);
            }
            self.out.push_str(s);
        }
    }
    fn literal(&mut self, v: &V) {
        match v {
            V::Bool(b) => self.out.push_str(if *b { "true" } else { "false" }),
            other => {
                // literal syntax = Zinc scalar syntax (canonical spelling of the reference writer)
                let t = super::zinc_ref::write_canonical(other);
                self.out.push_str(&t);
            }
        }
    }
    fn ends_with_word(&self) -> bool {
        self.out.chars().last().map_or(false, |c| c.is_ascii_alphanumeric() || c == '_' || c == '"' || c == '`' || c == '.' || c == '-' || c == ':' || c == '~' || c as u32 > 0x7f || c == '%' || c == '$' || c == '/')
    }
    pub fn f(&mut self, f: &F) {
        match f {
            F::Or(v) => {
                for (i, x) in v.iter().enumerate() {
                    if i > 0 {
                        self.sep_word("or");
                    }
                    self.f(x);
                }
            }
            F::And(v) => {
                for (i, x) in v.iter().enumerate() {
                    if i > 0 {
                        self.sep_word("and");
                    }
                    self.f(x);
                }
            }
            F::Parens(x) => {
                self.out.push('(');
                self.ws0(true);
                self.f(x);
                if self.ends_with_word() {
                    self.ws0(true);
                } else {
                    self.ws0(true);
                }
                self.out.push(')');
            }
            F::Has(p) => self.path(p),
            F::Missing(p) => {
                self.out.push_str("not");
                self.ws1();
                self.path(p);
            }
            F::Cmp(p, op, v) => {
                self.path(p);
                self.ws0(true);
                self.out.push_str(op.text());
                // a '-' right after '<' or '>' is fine; a space is optional before any literal
                self.ws0(true);
                self.literal(v);
            }
            F::IsA(s) => {
                self.out.push('^');
                self.out.push_str(s);
            }
            F::Wild(p, r, d) => {
                self.path(p);
                self.ws0(true);
                self.out.push_str("*==");
                self.ws0(true);
                self.literal(&V::Ref(r.clone(), d.clone()));
            }
            F::Rel(rel, t, r) => {
                self.out.push_str(rel);
                self.out.push('?');
                if let Some(t) = t {
                    self.ws0(true);
                    self.out.push('^');
                    self.out.push_str(t);
                }
                if let Some((id, d)) = r {
                    // '@' cannot continue a symbol or a '?', so the space is optional
                    self.ws0(true);
                    self.literal(&V::Ref(id.clone(), d.clone()));
                }
            }
        }
    }
    /// `and` / `or` between two operands: a space is required next to a word character and
    /// optional next to a parenthesis
    fn sep_word(&mut self, w: &str) {
        if self.out.ends_with(')') {
            self.ws0(true);
        } else {
            self.ws1();
        }
        self.out.push_str(w);
        self.pending_after_word = true;
        // the space after the keyword is decided when the next operand starts
        self.after_word();
    }
    fn after_word(&mut self) {
        // next operand starts with '(' -> optional, else required; we do not know yet, so emit a
        // required space (a '(' may always be preceded by a space)
        self.ws1();
        self.pending_after_word = false;
    }
}

impl<'a> Printer<'a> {
    pub fn new(ch: &'a mut Chooser) -> Printer<'a> {
        Printer { out: String::new(), ch, deviated: vec![], pending_after_word: false }
    }
}

pub fn print(f: &F, ch: &mut Chooser) -> (String, Vec<&'static str>) {
    let mut p = Printer::new(ch);
    p.f(f);
    (p.out, p.deviated)
}

pub fn print_canonical(f: &F) -> String {
    let mut ch = Chooser::replaying(vec![]);
    print(f, &mut ch).0
}
