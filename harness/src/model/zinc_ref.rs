//! Reference Zinc reader and writer, written from the grammar in DESIGN.md Appendix A.1 — not from
//! libhaystack. The reader is strict except where marked (L) (liberal: accepted, never written).
//! The writer spells a value with a choice point (engine E2) wherever the grammar offers
//! alternatives; with all choices 0 it produces the canonical spelling.

use super::time_ref::{civil_from_days, days_from_civil};
use super::units_ref;
use super::v::{city_of, Col, Tags, DT, G, V};
use crate::engine::choice::Chooser;

// =================================================================================== reader

pub struct Reader {
    ch: Vec<char>,
    pos: usize,
}

type R<T> = Result<T, String>;

fn is_id_start(c: char) -> bool {
    c.is_ascii_lowercase()
}
fn is_id_char(c: char) -> bool {
    c.is_ascii_alphanumeric() || c == '_'
}
fn is_ref_char(c: char) -> bool {
    c.is_ascii_alphanumeric() || matches!(c, '_' | ':' | '.' | '~' | '-')
}
fn is_unit_char(c: char) -> bool {
    c.is_ascii_alphabetic() || matches!(c, '%' | '_' | '/' | '$') || (c as u32) > 0x7f
}

impl Reader {
    pub fn new(text: &str) -> Reader {
        Reader { ch: text.chars().collect(), pos: 0 }
    }
    fn peek(&self) -> Option<char> {
        self.ch.get(self.pos).copied()
    }
    fn peek_at(&self, k: usize) -> Option<char> {
        self.ch.get(self.pos + k).copied()
    }
    fn eof(&self) -> bool {
        self.pos >= self.ch.len()
    }
    fn err<T>(&self, msg: &str) -> R<T> {
        Err(format!("{msg} at {}", self.pos))
    }
    fn eat(&mut self, c: char) -> bool {
        if self.peek() == Some(c) {
            self.pos += 1;
            true
        } else {
            false
        }
    }
    fn expect(&mut self, c: char) -> R<()> {
        if self.eat(c) {
            Ok(())
        } else {
            self.err(&format!("expected {c:?}, found {:?}", self.peek()))
        }
    }
    fn starts_with(&self, s: &str) -> bool {
        let cs: Vec<char> = s.chars().collect();
        self.ch.len() >= self.pos + cs.len() && self.ch[self.pos..self.pos + cs.len()] == cs[..]
    }
    fn spaces(&mut self) -> usize {
        let st = self.pos;
        while matches!(self.peek(), Some(' ') | Some('\t')) {
            self.pos += 1;
        }
        self.pos - st
    }
    /// LF | CR LF | (L) lone CR
    fn newline(&mut self) -> bool {
        if self.eat('\n') {
            return true;
        }
        if self.eat('\r') {
            self.eat('\n');
            return true;
        }
        false
    }
    fn at_newline(&self) -> bool {
        matches!(self.peek(), Some('\n') | Some('\r'))
    }

    fn id(&mut self) -> R<String> {
        match self.peek() {
            Some(c) if is_id_start(c) => {}
            other => return self.err(&format!("expected identifier, found {other:?}")),
        }
        let st = self.pos;
        while matches!(self.peek(), Some(c) if is_id_char(c)) {
            self.pos += 1;
        }
        Ok(self.ch[st..self.pos].iter().collect())
    }

    fn hex4(&mut self) -> R<u32> {
        let mut v = 0u32;
        for _ in 0..4 {
            match self.peek().and_then(|c| c.to_digit(16)) {
                Some(d) => {
                    v = v * 16 + d;
                    self.pos += 1;
                }
                None => return self.err("expected 4 hex digits"),
            }
        }
        Ok(v)
    }

    fn str_lit(&mut self) -> R<String> {
        self.expect('"')?;
        let mut out = String::new();
        loop {
            match self.peek() {
                None => return self.err("unterminated string"),
                Some('"') => {
                    self.pos += 1;
                    return Ok(out);
                }
                Some('\\') => {
                    self.pos += 1;
                    let c = match self.peek() {
                        Some(c) => c,
                        None => return self.err("unterminated escape"),
                    };
                    self.pos += 1;
                    match c {
                        'b' => out.push('\u{8}'),
                        'f' => out.push('\u{c}'),
                        'n' => out.push('\n'),
                        'r' => out.push('\r'),
                        't' => out.push('\t'),
                        '"' => out.push('"'),
                        '\\' => out.push('\\'),
                        '$' => out.push('$'),
                        'u' => {
                            let v = self.hex4()?;
                            match char::from_u32(v) {
                                Some(ch) => out.push(ch),
                                None => out.push('\u{fffd}'), // (L) lone surrogate
                            }
                        }
                        other => return self.err(&format!("invalid string escape \\{other}")),
                    }
                }
                Some(c) if (c as u32) < 0x20 => return self.err("raw control character in string"),
                Some(c) => {
                    out.push(c);
                    self.pos += 1;
                }
            }
        }
    }

    /// returns both readings of the (L) escapes: (backslash dropped, backslash kept)
    fn uri_lit(&mut self) -> R<(String, String)> {
        self.expect('`')?;
        let (mut a, mut b) = (String::new(), String::new());
        loop {
            match self.peek() {
                None => return self.err("unterminated uri"),
                Some('`') => {
                    self.pos += 1;
                    return Ok((a, b));
                }
                Some('\\') => {
                    self.pos += 1;
                    let c = match self.peek() {
                        Some(c) => c,
                        None => return self.err("unterminated escape"),
                    };
                    self.pos += 1;
                    match c {
                        '`' | '\\' => {
                            a.push(c);
                            b.push(c);
                        }
                        'u' => {
                            let v = self.hex4()?;
                            let ch = char::from_u32(v).unwrap_or('\u{fffd}');
                            a.push(ch);
                            b.push(ch);
                        }
                        ':' | '/' | '?' | '#' | '[' | ']' | '@' | '&' | '=' | ';' => {
                            a.push(c);
                            b.push('\\');
                            b.push(c);
                        }
                        other => return self.err(&format!("invalid uri escape \\{other}")),
                    }
                }
                Some(c) if (c as u32) < 0x20 => return self.err("raw control character in uri"),
                Some(c) => {
                    a.push(c);
                    b.push(c);
                    self.pos += 1;
                }
            }
        }
    }

    fn digits(&mut self, allow_underscore: bool) -> R<String> {
        match self.peek() {
            Some(c) if c.is_ascii_digit() => {}
            other => return self.err(&format!("expected digit, found {other:?}")),
        }
        let mut out = String::new();
        while let Some(c) = self.peek() {
            if c.is_ascii_digit() {
                out.push(c);
                self.pos += 1;
            } else if c == '_' && allow_underscore {
                self.pos += 1;
            } else {
                break;
            }
        }
        Ok(out)
    }

    fn fixed_digits(&mut self, n: usize) -> R<i64> {
        let mut v = 0i64;
        for _ in 0..n {
            match self.peek().and_then(|c| c.to_digit(10)) {
                Some(d) => {
                    v = v * 10 + d as i64;
                    self.pos += 1;
                }
                None => return self.err("expected digit"),
            }
        }
        Ok(v)
    }

    fn looks_like_date(&self) -> bool {
        let p = |k: usize| self.peek_at(k);
        (0..4).all(|k| p(k).map_or(false, |c| c.is_ascii_digit()))
            && p(4) == Some('-')
            && p(5).map_or(false, |c| c.is_ascii_digit())
            && p(6).map_or(false, |c| c.is_ascii_digit())
            && p(7) == Some('-')
    }
    fn looks_like_time(&self) -> bool {
        let p = |k: usize| self.peek_at(k);
        p(0).map_or(false, |c| c.is_ascii_digit()) && p(1).map_or(false, |c| c.is_ascii_digit()) && p(2) == Some(':')
    }

    fn time(&mut self) -> R<(u32, u32, u32, u32)> {
        let h = self.fixed_digits(2)?;
        self.expect(':')?;
        let m = self.fixed_digits(2)?;
        self.expect(':')?;
        let s = self.fixed_digits(2)?;
        let mut nanos = 0u32;
        if self.peek() == Some('.') {
            self.pos += 1;
            let d = self.digits(false)?;
            if d.len() > 9 {
                return self.err("more than 9 fraction digits");
            }
            let mut f = d.clone();
            while f.len() < 9 {
                f.push('0');
            }
            nanos = f.parse().unwrap();
        }
        if h > 23 || m > 59 || s > 59 {
            return self.err("time out of range");
        }
        Ok((h as u32, m as u32, s as u32, nanos))
    }

    fn date(&mut self) -> R<(i32, u32, u32)> {
        let y = self.fixed_digits(4)?;
        self.expect('-')?;
        let m = self.fixed_digits(2)?;
        self.expect('-')?;
        let d = self.fixed_digits(2)?;
        if !(1..=12).contains(&m) || d < 1 || d > 31 {
            return self.err("date out of range");
        }
        // calendar validity
        let days = days_from_civil(y, m, d);
        if civil_from_days(days) != (y, m, d) {
            return self.err("no such calendar date");
        }
        Ok((y as i32, m as u32, d as u32))
    }

    fn tzname(&mut self) -> R<String> {
        match self.peek() {
            Some(c) if c.is_ascii_uppercase() => {}
            other => return self.err(&format!("expected zone name, found {other:?}")),
        }
        let st = self.pos;
        while matches!(self.peek(), Some(c) if c.is_ascii_alphanumeric() || matches!(c, '_' | '/' | '+' | '-')) {
            self.pos += 1;
        }
        Ok(self.ch[st..self.pos].iter().collect())
    }

    fn date_or_datetime(&mut self) -> R<V> {
        let (y, mo, d) = self.date()?;
        if self.peek() != Some('T') {
            return Ok(V::Date(y, mo, d));
        }
        self.pos += 1;
        let (h, mi, s, nanos) = self.time()?;
        let local = days_from_civil(y as i64, mo as i64, d as i64) * 86400 + h as i64 * 3600 + mi as i64 * 60 + s as i64;
        if self.eat('Z') {
            // "Z", "Z UTC", or "Z <zone with zero offset>"
            if self.peek() == Some(' ') && self.peek_at(1).map_or(false, |c| c.is_ascii_uppercase()) {
                self.pos += 1;
                let name = self.tzname()?;
                let full = if name == "UTC" { "UTC".to_string() } else { name.clone() };
                // the fields are UTC; the local offset is the named zone's at that instant
                let off = match super::time_ref::zone_of_city(&name) {
                    Some(z) if name != "UTC" => super::time_ref::offset_at(&z, local),
                    _ => 0,
                };
                return Ok(V::DateTime(DT { secs: local, nanos, offset: off, tz_full: full, tz: name }));
            }
            return Ok(V::DateTime(DT { secs: local, nanos, offset: 0, tz_full: "UTC".into(), tz: "UTC".into() }));
        }
        let sign = match self.peek() {
            Some('+') => 1,
            Some('-') => -1,
            other => return self.err(&format!("expected Z or offset, found {other:?}")),
        };
        self.pos += 1;
        let oh = self.fixed_digits(2)?;
        self.expect(':')?;
        let om = self.fixed_digits(2)?;
        let off = sign * (oh * 3600 + om * 60) as i32;
        self.expect(' ')?;
        let name = self.tzname()?;
        Ok(V::DateTime(DT { secs: local - off as i64, nanos, offset: off, tz_full: name.clone(), tz: name }))
    }

    fn number(&mut self) -> R<V> {
        if self.starts_with("-INF") {
            self.pos += 4;
            return Ok(V::Num(f64::NEG_INFINITY, None));
        }
        let mut text = String::new();
        if self.eat('-') {
            text.push('-');
        }
        text.push_str(&self.digits(true)?);
        if self.peek() == Some('.') && self.peek_at(1).map_or(false, |c| c.is_ascii_digit()) {
            self.pos += 1;
            text.push('.');
            text.push_str(&self.digits(true)?);
        }
        if matches!(self.peek(), Some('e') | Some('E')) {
            let k = if matches!(self.peek_at(1), Some('+') | Some('-')) { 2 } else { 1 };
            if self.peek_at(k).map_or(false, |c| c.is_ascii_digit()) {
                text.push('e');
                self.pos += 1;
                if k == 2 {
                    text.push(self.peek().unwrap());
                    self.pos += 1;
                }
                text.push_str(&self.digits(true)?);
            }
        }
        let x: f64 = text.parse().map_err(|_| format!("bad number {text}"))?;
        let st = self.pos;
        while matches!(self.peek(), Some(c) if is_unit_char(c)) {
            self.pos += 1;
        }
        if self.pos > st {
            let u: String = self.ch[st..self.pos].iter().collect();
            match units_ref::canonical(&u) {
                Some(sym) => Ok(V::Num(x, Some(sym))),
                None => self.err(&format!("unknown unit {u:?}")),
            }
        } else {
            Ok(V::Num(x, None))
        }
    }

    fn coord_num(&mut self) -> R<f64> {
        let mut t = String::new();
        if self.eat('-') {
            t.push('-');
        }
        t.push_str(&self.digits(false)?);
        if self.eat('.') {
            t.push('.');
            t.push_str(&self.digits(false)?);
        }
        // (L) exponent in coordinates
        if matches!(self.peek(), Some('e') | Some('E')) {
            t.push('e');
            self.pos += 1;
            if matches!(self.peek(), Some('+') | Some('-')) {
                t.push(self.peek().unwrap());
                self.pos += 1;
            }
            t.push_str(&self.digits(false)?);
        }
        t.parse().map_err(|_| format!("bad coordinate {t}"))
    }

    pub fn value(&mut self) -> R<V> {
        let c = match self.peek() {
            Some(c) => c,
            None => return self.err("expected value, found end of input"),
        };
        match c {
            '"' => Ok(V::Str(self.str_lit()?)),
            '`' => Ok(V::Uri(self.uri_lit()?.0)),
            '@' => {
                self.pos += 1;
                let st = self.pos;
                while matches!(self.peek(), Some(c) if is_ref_char(c)) {
                    self.pos += 1;
                }
                if st == self.pos {
                    return self.err("empty ref");
                }
                let id: String = self.ch[st..self.pos].iter().collect();
                if self.peek() == Some(' ') && self.peek_at(1) == Some('"') {
                    self.pos += 1;
                    let dis = self.str_lit()?;
                    return Ok(V::Ref(id, Some(dis)));
                }
                Ok(V::Ref(id, None))
            }
            '^' => {
                self.pos += 1;
                match self.peek() {
                    Some(c) if c.is_ascii_lowercase() => {}
                    _ => return self.err("symbol must start with a lower case letter"),
                }
                let st = self.pos;
                while matches!(self.peek(), Some(c) if is_ref_char(c)) {
                    self.pos += 1;
                }
                Ok(V::Sym(self.ch[st..self.pos].iter().collect()))
            }
            '[' => {
                self.pos += 1;
                let mut items = vec![];
                self.spaces();
                loop {
                    if self.eat(']') {
                        break;
                    }
                    items.push(self.value()?);
                    self.spaces();
                    if self.eat(',') {
                        self.spaces();
                        continue;
                    }
                    self.expect(']')?;
                    break;
                }
                Ok(V::List(items))
            }
            '{' => {
                self.pos += 1;
                self.spaces();
                let mut tags: Tags = vec![];
                loop {
                    if self.eat('}') {
                        break;
                    }
                    let (k, v) = self.tag()?;
                    if tags.iter().any(|(n, _)| *n == k) {
                        return self.err("duplicate dict key");
                    }
                    tags.push((k, v));
                    let sp = self.spaces();
                    if self.eat(',') {
                        self.spaces();
                        continue;
                    }
                    if self.peek() == Some('}') {
                        continue;
                    }
                    if sp == 0 {
                        return self.err("dict tags must be separated by space or comma");
                    }
                }
                tags.sort_by(|a, b| a.0.cmp(&b.0));
                Ok(V::Dict(tags))
            }
            '<' => {
                if !self.starts_with("<<") {
                    return self.err("expected <<");
                }
                self.pos += 2;
                self.spaces();
                self.newline();
                let g = self.grid(true)?;
                if !self.starts_with(">>") {
                    return self.err("expected >>");
                }
                self.pos += 2;
                Ok(V::Grid(Box::new(g)))
            }
            '-' | '0'..='9' => {
                if c != '-' && self.looks_like_date() {
                    self.date_or_datetime()
                } else if c != '-' && self.looks_like_time() {
                    let (h, m, s, n) = self.time()?;
                    Ok(V::Time(h, m, s, n))
                } else {
                    self.number()
                }
            }
            'A'..='Z' => {
                let st = self.pos;
                while matches!(self.peek(), Some(c) if is_id_char(c)) {
                    self.pos += 1;
                }
                let word: String = self.ch[st..self.pos].iter().collect();
                if self.peek() == Some('(') {
                    self.pos += 1;
                    if word == "C" {
                        self.spaces(); // (L)
                        let lat = self.coord_num()?;
                        self.spaces();
                        self.expect(',')?;
                        self.spaces();
                        let lng = self.coord_num()?;
                        self.spaces();
                        self.expect(')')?;
                        return Ok(V::Coord(lat, lng));
                    }
                    self.spaces(); // (L)
                    let s = self.str_lit()?;
                    self.spaces();
                    self.expect(')')?;
                    return Ok(V::XStr(word, s));
                }
                match word.as_str() {
                    "N" => Ok(V::Null),
                    "M" => Ok(V::Marker),
                    "R" => Ok(V::Remove),
                    "NA" => Ok(V::Na),
                    "T" => Ok(V::Bool(true)),
                    "F" => Ok(V::Bool(false)),
                    "NaN" => Ok(V::Num(f64::NAN, None)),
                    "INF" => Ok(V::Num(f64::INFINITY, None)),
                    _ => self.err(&format!("unknown literal {word}")),
                }
            }
            other => self.err(&format!("unexpected character {other:?}")),
        }
    }

    /// id | id ":" val
    fn tag(&mut self) -> R<(String, V)> {
        let k = self.id()?;
        if self.eat(':') {
            let v = self.value()?;
            Ok((k, v))
        } else {
            Ok((k, V::Marker))
        }
    }

    /// ( sp+ tag )*  — stops at ',' or newline
    fn meta(&mut self) -> R<Tags> {
        let mut tags: Tags = vec![];
        loop {
            let save = self.pos;
            let sp = self.spaces();
            match self.peek() {
                Some(c) if is_id_start(c) && sp > 0 => {
                    let (k, v) = self.tag()?;
                    if tags.iter().any(|(n, _)| *n == k) {
                        return self.err("duplicate meta key");
                    }
                    tags.push((k, v));
                }
                _ => {
                    self.pos = save;
                    break;
                }
            }
        }
        tags.sort_by(|a, b| a.0.cmp(&b.0));
        Ok(tags)
    }

    /// grid body starting at "ver:". nested: rows end at ">>"; top level: at end of input or a blank line
    fn grid(&mut self, nested: bool) -> R<G> {
        if !self.starts_with("ver:") {
            return self.err("expected ver:");
        }
        self.pos += 4;
        let ver = self.str_lit()?;
        let meta = self.meta()?;
        self.spaces();
        if !self.newline() {
            return self.err("expected newline after grid meta");
        }
        let mut cols: Vec<Col> = vec![];
        loop {
            self.spaces();
            let name = self.id()?;
            let m = self.meta()?;
            if cols.iter().any(|c| c.name == name) {
                return self.err("duplicate column");
            }
            cols.push(Col { name, meta: if m.is_empty() { None } else { Some(m) } });
            self.spaces();
            if self.eat(',') {
                continue;
            }
            break;
        }
        if !self.newline() {
            if !(self.eof() && !nested) {
                return self.err("expected newline after columns");
            }
        }
        let mut rows: Vec<Tags> = vec![];
        loop {
            if self.eof() {
                if nested {
                    return self.err("unterminated nested grid");
                }
                break;
            }
            if nested && self.starts_with(">>") {
                break;
            }
            if self.at_newline() {
                // blank line: ends a top-level grid; (L) tolerated before >> in a nested one
                self.newline();
                if nested {
                    continue;
                }
                break;
            }
            let mut row: Tags = vec![];
            let mut ci = 0usize;
            loop {
                self.spaces();
                let empty = match self.peek() {
                    None => true,
                    Some(',') => true,
                    Some(c) if c == '\n' || c == '\r' => true,
                    _ => false,
                };
                if !empty {
                    let v = self.value()?;
                    if ci >= cols.len() {
                        return self.err("more cells than columns");
                    }
                    row.push((cols[ci].name.clone(), v));
                    self.spaces();
                }
                if self.eat(',') {
                    ci += 1;
                    continue;
                }
                break;
            }
            if ci + 1 != cols.len() {
                return self.err(&format!("row has {} cells, grid has {} columns", ci + 1, cols.len()));
            }
            if !self.newline() {
                if !(self.eof() && !nested) {
                    return self.err("expected newline after row");
                }
            }
            row.sort_by(|a, b| a.0.cmp(&b.0));
            rows.push(row);
        }
        // the placeholder spelling of a grid without columns
        if cols.len() == 1 && cols[0].name == "empty" && cols[0].meta.is_none() && rows.is_empty() {
            // denotes either the literal column "empty" or no columns: caller decides (`empty_ok`)
        }
        Ok(G { ver, meta: if meta.is_empty() { None } else { Some(meta) }, cols, rows })
    }

    /// doc := grid | val, followed by nothing but white space
    pub fn doc(&mut self) -> R<V> {
        let v = if self.starts_with("ver:") { V::Grid(Box::new(self.grid(false)?)) } else { self.value()? };
        while matches!(self.peek(), Some(' ') | Some('\t') | Some('\n') | Some('\r')) {
            self.pos += 1;
        }
        if !self.eof() {
            return self.err("trailing characters after the document");
        }
        Ok(v)
    }
}

pub fn read(text: &str) -> R<V> {
    Reader::new(text).doc()
}

/// both readings of a Uri with (L) escapes
pub fn read_uri_both(text: &str) -> R<(String, String)> {
    Reader::new(text).uri_lit()
}

// =================================================================================== writer

pub struct Writer<'a> {
    pub out: String,
    ch: &'a mut Chooser,
    /// names of the choice-point types deviated in this spelling (vacuity accounting)
    pub deviated: Vec<&'static str>,
}

fn canon_num(x: f64) -> String {
    format!("{x}")
}

impl<'a> Writer<'a> {
    pub fn new(ch: &'a mut Chooser) -> Writer<'a> {
        Writer { out: String::new(), ch, deviated: vec![] }
    }

    fn pick(&mut self, name: &'static str, n: u32) -> u32 {
        let c = self.ch.choose(n);
        if c != 0 {
            self.deviated.push(name);
        }
        c
    }

    fn nl(&mut self) {
        if self.pick("crlf", 2) == 1 {
            self.out.push_str("\r\n");
        } else {
            self.out.push('\n');
        }
    }

    fn sp012(&mut self, name: &'static str) {
        match self.pick(name, 3) {
            1 => self.out.push(' '),
            2 => self.out.push_str("  "),
            _ => {}
        }
    }

    fn str_char(&mut self, c: char, quote: char) {
        let cp = c as u32;
        let short: Option<&str> = match c {
            '\u{8}' => Some("\\b"),
            '\u{c}' => Some("\\f"),
            '\n' => Some("\\n"),
            '\r' => Some("\\r"),
            '\t' => Some("\\t"),
            '\\' => Some("\\\\"),
            '"' if quote == '"' => Some("\\\""),
            '$' if quote == '"' => Some("\\$"),
            '`' if quote == '`' => Some("\\`"),
            _ => None,
        };
        // Uri has only \` \\ \uXXXX
        let short = if quote == '`' && !matches!(c, '`' | '\\') { None } else { short };
        let must_escape = short.is_some() || cp < 0x20;
        if cp > 0xffff {
            self.out.push(c);
            return;
        }
        if must_escape {
            match short {
                Some(s) => match self.pick("escape-spelling", 3) {
                    0 => self.out.push_str(s),
                    1 => self.out.push_str(&format!("\\u{cp:04x}")),
                    _ => self.out.push_str(&format!("\\u{cp:04X}")),
                },
                None => match self.pick("escape-spelling", 2) {
                    0 => self.out.push_str(&format!("\\u{cp:04x}")),
                    _ => self.out.push_str(&format!("\\u{cp:04X}")),
                },
            }
        } else {
            match self.pick("escape-spelling", 3) {
                0 => self.out.push(c),
                1 => self.out.push_str(&format!("\\u{cp:04x}")),
                _ => self.out.push_str(&format!("\\u{cp:04X}")),
            }
        }
    }

    fn str_lit(&mut self, s: &str) {
        self.out.push('"');
        for c in s.chars() {
            self.str_char(c, '"');
        }
        self.out.push('"');
    }

    fn number(&mut self, x: f64, unit: &Option<String>) {
        if x.is_nan() {
            self.out.push_str("NaN");
            return;
        }
        if x.is_infinite() {
            self.out.push_str(if x > 0.0 { "INF" } else { "-INF" });
            return;
        }
        let canon = canon_num(x);
        let (neg, body) = match canon.strip_prefix('-') {
            Some(b) => (true, b.to_string()),
            None => (false, canon.clone()),
        };
        let (int_part, frac_part) = match body.find('.') {
            Some(i) => (body[..i].to_string(), body[i + 1..].to_string()),
            None => (body.clone(), String::new()),
        };
        let mut alts: Vec<String> = vec![body.clone()];
        if frac_part.is_empty() {
            alts.push(format!("{int_part}.0"));
        } else {
            alts.push(format!("{body}0"));
        }
        alts.push(format!("{body}e0"));
        alts.push(format!("{body}E0"));
        alts.push(format!("{body}e+0"));
        alts.push(format!("{body}E-0"));
        // shift the decimal point one place to the right, exponent -1
        if frac_part.is_empty() {
            alts.push(format!("{int_part}0e-1"));
        } else {
            let (f1, frest) = frac_part.split_at(1);
            alts.push(if frest.is_empty() { format!("{int_part}{f1}e-1") } else { format!("{int_part}{f1}.{frest}e-1") });
        }
        // and one place to the left, exponent +1
        {
            let (ihead, ilast) = int_part.split_at(int_part.len() - 1);
            let head = if ihead.is_empty() { "0" } else { ihead };
            alts.push(format!("{head}.{ilast}{frac_part}e1"));
            alts.push(format!("{head}.{ilast}{frac_part}E+1"));
        }
        // '_' may separate digits anywhere digits are allowed: fraction and exponent too
        if frac_part.len() >= 2 {
            let (f1, fr) = frac_part.split_at(1);
            alts.push(format!("{int_part}.{f1}_{fr}"));
        }
        alts.push(format!("{body}e0_0"));
        alts.push(format!("{body}E+0_0"));
        if frac_part.is_empty() {
            alts.push(format!("{int_part}00e-0_2"));
        }
        if int_part.len() >= 2 {
            let mut u = String::new();
            for (i, c) in int_part.chars().enumerate() {
                if i > 0 {
                    u.push('_');
                }
                u.push(c);
            }
            alts.push(if frac_part.is_empty() { u } else { format!("{u}.{frac_part}") });
        }
        // keep only spellings that denote exactly the same real as an f64 (shifting is exact in
        // decimal, but guard anyway) — the *harness's* arithmetic, not libhaystack's
        let alts: Vec<String> = alts
            .into_iter()
            .filter(|a| a.replace('_', "").parse::<f64>().map_or(false, |y| y == x.abs() || (y == 0.0 && x == 0.0)))
            .collect();
        let k = self.pick("number-spelling", alts.len() as u32) as usize;
        if neg {
            self.out.push('-');
        }
        self.out.push_str(&alts[k]);
        if let Some(u) = unit {
            self.out.push_str(u);
        }
    }

    fn time(&mut self, h: u32, m: u32, s: u32, nanos: u32) {
        self.out.push_str(&format!("{h:02}:{m:02}:{s:02}"));
        let mut f = format!("{nanos:09}");
        while f.ends_with('0') {
            f.pop();
        }
        // fraction digits: minimal, or padded with trailing zeros to 3, 6, 9 (when longer than minimal)
        let mut alts: Vec<String> = vec![f.clone()];
        for n in [3usize, 6, 9] {
            if n > f.len() {
                let mut g = f.clone();
                while g.len() < n {
                    g.push('0');
                }
                alts.push(g);
            }
        }
        let k = self.pick("fraction-digits", alts.len() as u32) as usize;
        if !alts[k].is_empty() {
            self.out.push('.');
            self.out.push_str(&alts[k]);
        }
    }

    fn tags(&mut self, t: &Tags, sep_kind: u8) {
        // sep_kind 0: meta (space separated, each tag preceded by the separator), 1: dict body
        for (i, (k, v)) in t.iter().enumerate() {
            if sep_kind == 0 {
                match self.pick("meta-space", 2) {
                    1 => self.out.push_str("  "),
                    _ => self.out.push(' '),
                }
            } else if i > 0 {
                match self.pick("dict-separator", 4) {
                    0 => self.out.push(' '),
                    1 => self.out.push(','),
                    2 => self.out.push_str(", "),
                    _ => self.out.push_str("  "),
                }
            }
            self.out.push_str(k);
            if matches!(v, V::Marker) {
                if self.pick("marker-spelling", 2) == 1 {
                    self.out.push_str(":M");
                }
            } else {
                self.out.push(':');
                self.value(v, true);
            }
        }
    }

    pub fn value(&mut self, v: &V, nested: bool) {
        match v {
            V::Null => self.out.push('N'),
            V::Marker => self.out.push('M'),
            V::Remove => self.out.push('R'),
            V::Na => self.out.push_str("NA"),
            V::Bool(b) => self.out.push(if *b { 'T' } else { 'F' }),
            V::Num(x, u) => self.number(*x, u),
            V::Str(s) => self.str_lit(s),
            V::Uri(s) => {
                self.out.push('`');
                for c in s.chars() {
                    self.str_char(c, '`');
                }
                self.out.push('`');
            }
            V::Ref(id, dis) => {
                self.out.push('@');
                self.out.push_str(id);
                if let Some(d) = dis {
                    self.out.push(' ');
                    self.str_lit(d);
                }
            }
            V::Sym(s) => {
                self.out.push('^');
                self.out.push_str(s);
            }
            V::Date(y, m, d) => self.out.push_str(&format!("{y:04}-{m:02}-{d:02}")),
            V::Time(h, m, s, n) => self.time(*h, *m, *s, *n),
            V::DateTime(dt) => {
                // `<UTC fields>Z <City>` is a legal spelling of a timestamp in any zone
                let in_utc = dt.tz != "UTC" && dt.offset != 0 && dt.offset % 60 == 0 && self.pick("utc-fields-with-zone", 2) == 1;
                let local = dt.secs + if in_utc { 0 } else { dt.offset as i64 };
                let days = local.div_euclid(86400);
                let sod = local.rem_euclid(86400) as u32;
                let (y, m, d) = civil_from_days(days);
                self.out.push_str(&format!("{y:04}-{m:02}-{d:02}T"));
                self.time(sod / 3600, (sod / 60) % 60, sod % 60, dt.nanos);
                if in_utc {
                    self.out.push_str(&format!("Z {}", dt.tz));
                } else if dt.tz == "UTC" {
                    self.out.push('Z');
                    if self.pick("utc-spelling", 2) == 1 {
                        self.out.push_str(" UTC");
                    }
                } else if dt.offset == 0 {
                    match self.pick("zero-offset-spelling", 2) {
                        0 => self.out.push_str(&format!("Z {}", dt.tz)),
                        _ => self.out.push_str(&format!("+00:00 {}", dt.tz)),
                    }
                } else {
                    let a = dt.offset.abs();
                    self.out.push_str(&format!("{}{:02}:{:02} {}", if dt.offset < 0 { '-' } else { '+' }, a / 3600, (a / 60) % 60, dt.tz));
                }
            }
            V::Coord(a, b) => {
                // legal respellings of a coordinate: a trailing zero / ".0" on either component
                // (one more digit than the shortest form), blanks inside the parentheses
                let mut comp = |w: &mut Self, x: f64, name: &'static str| -> String {
                    let c = canon_num(x);
                    if !c.contains('e') && !c.contains("inf") && !c.contains("NaN") && w.pick(name, 2) == 1 {
                        if c.contains('.') {
                            format!("{c}0")
                        } else {
                            format!("{c}.0")
                        }
                    } else {
                        c
                    }
                };
                let (ta, tb) = (comp(self, *a, "coord-lat-trailing-zero"), comp(self, *b, "coord-lng-trailing-zero"));
                let sp = if self.pick("coord-inner-space", 2) == 1 { " " } else { "" };
                self.out.push_str(&format!("C({sp}{ta}{sp},{sp}{tb}{sp})"));
            }
            V::XStr(t, s) => {
                self.out.push_str(t);
                self.out.push('(');
                self.str_lit(s);
                self.out.push(')');
            }
            V::List(l) => {
                self.out.push('[');
                if self.pick("list-inner-space", 2) == 1 {
                    self.out.push(' ');
                }
                for (i, e) in l.iter().enumerate() {
                    if i > 0 {
                        self.out.push(',');
                        self.sp012("comma-space");
                    }
                    self.value(e, true);
                    if self.pick("space-before-comma", 2) == 1 {
                        self.out.push(' ');
                    }
                }
                if !l.is_empty() && self.pick("trailing-comma", 2) == 1 {
                    self.out.push(',');
                }
                self.out.push(']');
            }
            V::Dict(d) => {
                self.out.push('{');
                if self.pick("dict-inner-space", 2) == 1 {
                    self.out.push(' ');
                }
                self.tags(d, 1);
                if self.pick("dict-inner-space", 2) == 1 {
                    self.out.push(' ');
                }
                self.out.push('}');
            }
            V::Grid(g) => {
                if nested {
                    self.out.push_str("<<");
                    if self.pick("newline-after-<<", 2) == 0 {
                        self.nl();
                    }
                    self.grid(g);
                    self.out.push_str(">>");
                } else {
                    self.grid(g);
                    if self.pick("trailing-blank-line", 2) == 0 {
                        self.nl();
                    }
                }
            }
        }
    }

    fn grid(&mut self, g: &G) {
        self.out.push_str("ver:");
        self.str_lit(&g.ver);
        if let Some(m) = &g.meta {
            self.tags(m, 0);
        }
        self.nl();
        for (i, c) in g.cols.iter().enumerate() {
            if i > 0 {
                self.out.push(',');
                self.sp012("comma-space");
            }
            self.out.push_str(&c.name);
            if let Some(m) = &c.meta {
                self.tags(m, 0);
            }
        }
        self.nl();
        for r in &g.rows {
            for (i, c) in g.cols.iter().enumerate() {
                if i > 0 {
                    self.out.push(',');
                    self.sp012("comma-space");
                }
                if let Some((_, v)) = r.iter().find(|(k, _)| *k == c.name) {
                    self.value(v, true);
                    if i + 1 < g.cols.len() && self.pick("space-before-comma", 2) == 1 {
                        self.out.push(' ');
                    }
                }
            }
            self.nl();
        }
    }
}

/// Spell a document under the choices of `ch`. Returns (text, deviated choice-point types).
pub fn write(v: &V, ch: &mut Chooser) -> (String, Vec<&'static str>) {
    let mut w = Writer::new(ch);
    w.value(v, false);
    (w.out, w.deviated)
}

pub fn write_canonical(v: &V) -> String {
    let mut ch = Chooser::replaying(vec![]);
    write(v, &mut ch).0
}

/// Zone comparison helper for texts read back by the reference reader: the reader keeps the zone
/// name as written; `same` compares `tz` only.
pub fn _city(full: &str) -> String {
    city_of(full)
}

/// all spellings of v with <= bound deviations (at most cap of them)
pub fn spellings(v: &V, bound: usize, cap: u64) -> Vec<String> {
    let mut out = vec![];
    crate::engine::choice::explore(Some(bound), cap, |ch| {
        out.push(write(v, ch).0);
        true
    });
    out
}
