//! Reference calendar arithmetic for C06 (no chrono in the instant computation), the set of
//! in-model zones, and the offset transitions of every zone (chrono_tz offsets = trusted base).

use chrono::{Offset, TimeZone};
use chrono_tz::{Tz, TZ_VARIANTS};
use std::collections::BTreeSet;

/// days from 1970-01-01 of a proleptic Gregorian civil date (Howard Hinnant's algorithm)
pub fn days_from_civil(y: i64, m: i64, d: i64) -> i64 {
    let y = if m <= 2 { y - 1 } else { y };
    let era = if y >= 0 { y } else { y - 399 } / 400;
    let yoe = y - era * 400;
    let mp = (m + 9) % 12;
    let doy = (153 * mp + 2) / 5 + d - 1;
    let doe = yoe * 365 + yoe / 4 - yoe / 100 + doy;
    era * 146097 + doe - 719468
}

pub fn civil_from_days(z: i64) -> (i64, i64, i64) {
    let z = z + 719468;
    let era = if z >= 0 { z } else { z - 146096 } / 146097;
    let doe = z - era * 146097;
    let yoe = (doe - doe / 1460 + doe / 36524 - doe / 146096) / 365;
    let y = yoe + era * 400;
    let doy = doe - (365 * yoe + yoe / 4 - yoe / 100);
    let mp = (5 * doy + 2) / 153;
    let d = doy - (153 * mp + 2) / 5 + 1;
    let m = if mp < 10 { mp + 3 } else { mp - 9 };
    (if m <= 2 { y + 1 } else { y }, m, d)
}

/// (secs since epoch UTC, nanos, offset seconds) denoted by an RFC 3339 string; None if malformed
pub fn rfc3339_instant(s: &str) -> Option<(i64, u32, i32)> {
    let b = s.as_bytes();
    if b.len() < 20 {
        return None;
    }
    let num = |r: std::ops::Range<usize>| -> Option<i64> {
        let t = s.get(r)?;
        if t.is_empty() || !t.bytes().all(|c| c.is_ascii_digit()) {
            return None;
        }
        t.parse().ok()
    };
    let (y, mo, d) = (num(0..4)?, num(5..7)?, num(8..10)?);
    if b[4] != b'-' || b[7] != b'-' || !(b[10] == b'T' || b[10] == b't') || b[13] != b':' || b[16] != b':' {
        return None;
    }
    let (h, mi, se) = (num(11..13)?, num(14..16)?, num(17..19)?);
    let mut i = 19;
    let mut nanos: u32 = 0;
    if b[i] == b'.' {
        i += 1;
        let st = i;
        while i < b.len() && b[i].is_ascii_digit() {
            i += 1;
        }
        if i == st {
            return None;
        }
        let mut f = s[st..i].to_string();
        f.truncate(9);
        while f.len() < 9 {
            f.push('0');
        }
        nanos = f.parse().ok()?;
    }
    let off: i32 = match b.get(i)? {
        b'Z' | b'z' => {
            if i + 1 != b.len() {
                return None;
            }
            0
        }
        sg @ (b'+' | b'-') => {
            if i + 6 != b.len() || b[i + 3] != b':' {
                return None;
            }
            let oh = num(i + 1..i + 3)?;
            let om = num(i + 4..i + 6)?;
            let v = (oh * 3600 + om * 60) as i32;
            if *sg == b'-' {
                -v
            } else {
                v
            }
        }
        _ => return None,
    };
    if !(1..=12).contains(&mo) || !(1..=31).contains(&d) || h > 23 || mi > 59 || se > 60 {
        return None;
    }
    // a leap second (:60) is the instant of :59 with the fraction counted from 10^9 ns on (there is
    // no POSIX second of its own; this is also how chrono represents it)
    let (se, nanos) = if se == 60 { (59, nanos + 1_000_000_000) } else { (se, nanos) };
    let local = days_from_civil(y, mo, d) * 86400 + h * 3600 + mi * 60 + se;
    Some((local - off as i64, nanos, off))
}

/// RFC 3339 text of an instant at an offset, with `digits` fractional digits (0 = none)
pub fn rfc3339_text(secs: i64, nanos: u32, off: i32, digits: usize, zulu: &str) -> String {
    let local = secs + off as i64;
    let days = local.div_euclid(86400);
    let sod = local.rem_euclid(86400);
    let (y, m, d) = civil_from_days(days);
    // nanos >= 10^9: a leap second, spelled :60
    let (leap, nanos) = if nanos >= 1_000_000_000 { (1, nanos - 1_000_000_000) } else { (0, nanos) };
    let mut s = format!("{:04}-{:02}-{:02}T{:02}:{:02}:{:02}", y, m, d, sod / 3600, (sod / 60) % 60, sod % 60 + leap);
    if digits > 0 {
        let f = format!("{:09}", nanos);
        s.push('.');
        s.push_str(&f[..digits]);
    }
    if off == 0 && !zulu.is_empty() {
        s.push_str(zulu);
    } else {
        let a = off.abs();
        s.push_str(&format!("{}{:02}:{:02}", if off < 0 { '-' } else { '+' }, a / 3600, (a / 60) % 60));
    }
    s
}

pub fn offset_at(tz: &Tz, secs: i64) -> i32 {
    tz.timestamp_opt(secs, 0).single().expect("instant").offset().fix().local_minus_utc()
}

pub const T1980: i64 = 315_532_800;
pub const T2060: i64 = 2_840_140_800;

/// exact rules of a zone in [1980, 2060): initial offset and every (transition instant, offset after)
fn rules_signature(tz: &Tz) -> &'static (i32, Vec<(i64, i32)>) {
    static RULES: std::sync::OnceLock<std::collections::BTreeMap<String, (i32, Vec<(i64, i32)>)>> = std::sync::OnceLock::new();
    let map = RULES.get_or_init(|| {
        let zones: Vec<&Tz> = TZ_VARIANTS.iter().collect();
        let out = std::sync::Mutex::new(std::collections::BTreeMap::new());
        let next = std::sync::atomic::AtomicUsize::new(0);
        std::thread::scope(|s| {
            for _ in 0..crate::engine::workers() {
                s.spawn(|| loop {
                    let i = next.fetch_add(1, std::sync::atomic::Ordering::Relaxed);
                    if i >= zones.len() {
                        break;
                    }
                    let z = zones[i];
                    let tr: Vec<(i64, i32)> = transitions(z).into_iter().map(|t| (t, offset_at(z, t))).collect();
                    out.lock().unwrap().insert(z.name().to_string(), (offset_at(z, T1980), tr));
                });
            }
        });
        out.into_inner().unwrap()
    });
    map.get(tz.name()).expect("zone rules")
}

fn regions() -> BTreeSet<String> {
    TZ_VARIANTS
        .iter()
        .filter_map(|z| z.name().find('/').map(|i| z.name()[..i].to_string()))
        .collect()
}

/// Zones whose city name (text after the first '/', or the whole name) designates no zone with
/// different rules, whether the name is resolved exactly or under any region prefix of the
/// database. Returned as full IANA names, sorted.
pub fn in_model_zones() -> Vec<String> {
    let regs = regions();
    let mut out = vec![];
    for z in TZ_VARIANTS.iter() {
        let full = z.name();
        let city = crate::model::v::city_of(full);
        let mine = rules_signature(z);
        let mut ok = true;
        let mut cands: Vec<String> = vec![city.clone()];
        for r in &regs {
            cands.push(format!("{r}/{city}"));
        }
        for c in cands {
            if let Ok(other) = c.parse::<Tz>() {
                if other != *z && rules_signature(&other) != mine {
                    ok = false;
                }
            }
        }
        if ok {
            out.push(full.to_string());
        }
    }
    out.sort();
    out
}

/// Offset transition instants of a zone in [1980, 2060): t such that offset(t-1) != offset(t).
pub fn transitions(tz: &Tz) -> Vec<i64> {
    let mut out = vec![];
    let mut t = T1980;
    let mut cur = offset_at(tz, t);
    let step = 86400;
    while t < T2060 {
        let n = (t + step).min(T2060);
        let o = offset_at(tz, n);
        if o != cur {
            // bisect: offset(lo) == cur, offset(hi) != cur ; assumes at most one transition per day
            let (mut lo, mut hi) = (t, n);
            while hi - lo > 1 {
                let mid = lo + (hi - lo) / 2;
                if offset_at(tz, mid) == cur {
                    lo = mid;
                } else {
                    hi = mid;
                }
            }
            out.push(hi);
            cur = offset_at(tz, n);
        }
        t = n;
    }
    out
}

/// Timestamp texts around every 2021 offset transition of the 18 alphabet zones: wall-clock times in
/// the skipped hour, the repeated hour and next to them, each spelled with the offset before the
/// transition, the offset after it, and an offset the zone never has; as `<RFC 3339> <City>`.
/// Returns (rfc3339 text, city, instant the RFC 3339 part denotes).
pub fn transition_texts() -> Vec<(String, String, i64)> {
    let mut out = vec![];
    for z in crate::model::universe::ZONES {
        let tz: Tz = z.parse().unwrap();
        let city = crate::model::v::city_of(z);
        let trans: Vec<i64> = transitions(&tz).into_iter().filter(|t| (1_609_459_200..1_640_995_200).contains(t)).collect();
        let mut points: Vec<i64> = trans.clone();
        if points.is_empty() {
            points.push(1_625_097_600);
        }
        for t in points {
            let (before, after) = (offset_at(&tz, t - 1), offset_at(&tz, t));
            for off in [before, after, before - 3600, 0, 20_700] {
                // local wall clocks from one hour before to one hour after the change, both readings
                for wall_shift in [-3600i64, -1800, -1, 0, 1, 1800, 3599, 3600] {
                    let local = t + before as i64 + wall_shift; // wall clock as a pseudo-instant
                    let secs = local - off as i64;
                    out.push((rfc3339_text(secs, 0, off, 0, ""), city.clone(), secs));
                }
            }
        }
    }
    out
}

/// the zone a city name (Haystack zone name) designates, for the zones in the model
pub fn zone_of_city(city: &str) -> Option<Tz> {
    static MAP: std::sync::OnceLock<std::collections::BTreeMap<String, Tz>> = std::sync::OnceLock::new();
    let m = MAP.get_or_init(|| {
        let mut m = std::collections::BTreeMap::new();
        for z in in_model_zones() {
            if let Ok(tz) = z.parse::<Tz>() {
                m.insert(crate::model::v::city_of(&z), tz);
            }
        }
        m
    });
    m.get(city).copied()
}
