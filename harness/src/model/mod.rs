pub mod dis_ref;
pub mod shrink;
pub mod time_ref;
pub mod units_ref;
pub mod universe;
pub mod v;
pub mod zinc_ref;
