//! Reference for C20: display-name precedence and a hand-written left-to-right macro scanner
//! (no regex), written from the statement.

use super::v::{Tags, V};

fn is_name_start(c: char) -> bool {
    c.is_ascii_lowercase()
}
fn is_name_char(c: char) -> bool {
    c.is_ascii_alphanumeric() || c == '_'
}

/// display text of a tag value inside a macro / the precedence chain; `other` renders a value
/// that is neither Str nor Ref (delegated: the text of other kinds is not what C20 is about)
fn value_text(v: &V, other: &dyn Fn(&V) -> String, ref_uses_dis: bool) -> String {
    match v {
        V::Str(s) => s.clone(),
        V::Ref(id, dis) if ref_uses_dis => dis.clone().unwrap_or_else(|| id.clone()),
        x => other(x),
    }
}

pub fn expand_macro(
    pattern: &str,
    get: &dyn Fn(&str) -> Option<V>,
    localise: &dyn Fn(&str) -> Option<String>,
    other: &dyn Fn(&V) -> String,
) -> String {
    let ch: Vec<char> = pattern.chars().collect();
    let mut out = String::new();
    let mut i = 0;
    while i < ch.len() {
        if ch[i] != '$' {
            out.push(ch[i]);
            i += 1;
            continue;
        }
        // `$<` key `>`
        if i + 1 < ch.len() && ch[i + 1] == '<' {
            if let Some(close) = (i + 2..ch.len()).find(|&j| ch[j] == '>') {
                if close > i + 2 {
                    let key: String = ch[i + 2..close].iter().collect();
                    match localise(&key) {
                        Some(t) => out.push_str(&t),
                        None => out.extend(&ch[i..=close]),
                    }
                    i = close + 1;
                    continue;
                }
            }
        }
        // `${` name `}`
        if i + 2 < ch.len() && ch[i + 1] == '{' && is_name_start(ch[i + 2]) {
            let mut j = i + 3;
            while j < ch.len() && is_name_char(ch[j]) {
                j += 1;
            }
            if j < ch.len() && ch[j] == '}' {
                let name: String = ch[i + 2..j].iter().collect();
                match get(&name) {
                    Some(v) => out.push_str(&value_text(&v, other, true)),
                    None => out.extend(&ch[i..=j]),
                }
                i = j + 1;
                continue;
            }
        }
        // `$` name
        if i + 1 < ch.len() && is_name_start(ch[i + 1]) {
            let mut j = i + 2;
            while j < ch.len() && is_name_char(ch[j]) {
                j += 1;
            }
            let name: String = ch[i + 1..j].iter().collect();
            match get(&name) {
                Some(v) => out.push_str(&value_text(&v, other, true)),
                None => out.extend(&ch[i..j]),
            }
            i = j;
            continue;
        }
        out.push('$');
        i += 1;
    }
    out
}

fn get_tag<'a>(rec: &'a Tags, k: &str) -> Option<&'a V> {
    rec.iter().find(|(n, _)| n == k).map(|(_, v)| v)
}

/// the precedence chain of the statement
pub fn dis_of(
    rec: &Tags,
    localise: &dyn Fn(&str) -> Option<String>,
    default: Option<&str>,
    other: &dyn Fn(&V) -> String,
) -> String {
    if let Some(v) = get_tag(rec, "dis") {
        return value_text(v, other, false);
    }
    if let Some(v) = get_tag(rec, "disMacro") {
        return match v {
            V::Str(p) => expand_macro(p, &|k| get_tag(rec, k).cloned(), localise, other),
            x => other(x),
        };
    }
    if let Some(v) = get_tag(rec, "disKey") {
        if let V::Str(k) = v {
            if let Some(t) = localise(k) {
                return t;
            }
        }
        return value_text(v, other, false);
    }
    for k in ["name", "def", "tag", "navName"] {
        if let Some(v) = get_tag(rec, k) {
            return value_text(v, other, false);
        }
    }
    if let Some(v) = get_tag(rec, "id") {
        return value_text(v, other, true);
    }
    default.unwrap_or("").to_string()
}
