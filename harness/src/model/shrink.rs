//! Minimisation of failing values and classification signatures.
//!
//! `shrink(v, fails)` is greedy delta debugging over the value tree: remove one element / tag /
//! row / column / meta, shorten one string by one character, replace a container by one of its
//! children, simplify a scalar — as long as the predicate still fails. The result is 1-minimal:
//! no single simplification step keeps it failing, so it exhibits one defect. `shape_sig`
//! abstracts the minimal value to a short signature (kinds, character classes, number classes)
//! which is what known-findings matchers and the one-VIOLATION-per-defect reporting key on.

use super::v::{Col, Tags, G, V};

pub fn char_class(c: char) -> &'static str {
    match c {
        '"' => "quote",
        '\\' => "backslash",
        '$' => "dollar",
        '`' => "backtick",
        '\n' => "lf",
        '\r' => "cr",
        '\t' => "tab",
        '\u{8}' => "bs",
        '\u{c}' => "ff",
        '\u{0}'..='\u{1f}' => "ctl",
        '\u{7f}' => "del",
        '\u{80}'..='\u{9f}' => "c1",
        ' ' => "space",
        'a'..='z' | 'A'..='Z' | '0'..='9' => "alnum",
        '\u{20}'..='\u{7e}' => "punct",
        '\u{a0}'..='\u{ff}' => "latin1",
        '\u{100}'..='\u{ffff}' => "bmp",
        _ => "astral",
    }
}

pub fn str_classes(s: &str) -> String {
    if s.is_empty() {
        return "empty".into();
    }
    let mut v: Vec<&str> = s.chars().map(char_class).collect();
    v.sort();
    v.dedup();
    v.join("+")
}

fn num_class(x: f64) -> &'static str {
    if x.is_nan() {
        "nan"
    } else if x == f64::INFINITY {
        "inf"
    } else if x == f64::NEG_INFINITY {
        "-inf"
    } else if x == 0.0 && x.is_sign_negative() {
        "neg0"
    } else if x == 0.0 {
        "zero"
    } else if x.abs() >= 9.2e18 {
        "huge"
    } else if x.abs() >= 9007199254740992.0 {
        "big"
    } else if x.abs() < 1e-6 {
        "tiny"
    } else if x.fract() == 0.0 {
        "int"
    } else {
        "frac"
    }
}

fn tags_sig(t: &Tags) -> String {
    t.iter().map(|(k, v)| format!("{k}:{}", shape_sig(v))).collect::<Vec<_>>().join(",")
}

pub fn shape_sig(v: &V) -> String {
    match v {
        V::Num(x, None) => format!("num[{}]", num_class(*x)),
        V::Num(x, Some(u)) => {
            format!("num[{},unit{}]", num_class(*x), if u.is_ascii() { "" } else { "-nonascii" })
        }
        V::Str(s) => format!("str[{}]", str_classes(s)),
        V::Uri(s) => format!("uri[{}]", str_classes(s)),
        V::Ref(id, None) => format!("ref[id:{}]", str_classes(id)),
        V::Ref(id, Some(d)) => format!("ref[id:{},dis:{}]", str_classes(id), str_classes(d)),
        V::Sym(s) => format!("symbol[{}]", str_classes(s)),
        V::XStr(t, s) => format!("xstr[type:{},val:{}]", str_classes(t), str_classes(s)),
        V::DateTime(d) => {
            let m = (d.offset.abs() / 60) % 60;
            let h = d.offset.abs() / 3600;
            format!(
                "dt[{}{}{},frac:{}]",
                if d.tz_full == "UTC" { "utc" } else { "zone" },
                if d.offset < 0 {
                    ",west"
                } else if d.offset > 0 {
                    ",east"
                } else {
                    ",zero"
                },
                if m != 0 {
                    ",minutes"
                } else if h >= 10 {
                    ",h>=10"
                } else {
                    ""
                },
                if d.nanos == 0 {
                    0
                } else if d.nanos % 1_000_000 == 0 {
                    3
                } else if d.nanos % 1000 == 0 {
                    6
                } else {
                    9
                }
            )
        }
        V::Time(_, _, _, n) => format!("time[{}]", if *n == 0 { "whole" } else { "frac" }),
        V::Coord(a, b) => format!("coord[{},{}]", num_class(*a), num_class(*b)),
        V::List(l) => format!("list({})", l.iter().map(shape_sig).collect::<Vec<_>>().join(",")),
        V::Dict(d) => format!("dict({})", tags_sig(d)),
        V::Grid(g) => format!(
            "grid(ver={};meta={};cols=[{}];rows=[{}])",
            if g.ver == "3.0" { "3.0" } else { "other" },
            match &g.meta {
                None => "none".to_string(),
                Some(m) if m.is_empty() => "empty".to_string(),
                Some(m) => format!("{{{}}}", tags_sig(m)),
            },
            g.cols
                .iter()
                .map(|c| match &c.meta {
                    None => "c".to_string(),
                    Some(m) if m.is_empty() => "c{}".to_string(),
                    Some(m) => format!("c{{{}}}", tags_sig(m)),
                })
                .collect::<Vec<_>>()
                .join("|"),
            g.rows.iter().map(|r| format!("({})", tags_sig(r))).collect::<Vec<_>>().join("")
        ),
        other => other.kind_name().to_string(),
    }
}

fn shrink_str(s: &str) -> Vec<String> {
    let chars: Vec<char> = s.chars().collect();
    let mut out = vec![];
    for i in 0..chars.len() {
        let mut c = chars.clone();
        c.remove(i);
        out.push(c.into_iter().collect());
    }
    // replace one exotic character by 'a'
    for i in 0..chars.len() {
        if chars[i] != 'a' {
            let mut c = chars.clone();
            c[i] = 'a';
            out.push(c.into_iter().collect());
        }
    }
    out
}

fn shrink_tags(t: &Tags, well_formed: bool) -> Vec<Tags> {
    let mut out = vec![];
    for i in 0..t.len() {
        let mut c = t.clone();
        c.remove(i);
        out.push(c);
    }
    for i in 0..t.len() {
        for s in candidates(&t[i].1, well_formed) {
            let mut c = t.clone();
            c[i].1 = s;
            out.push(c);
        }
    }
    out
}

/// One-step simplifications of v, simplest first. With `well_formed`, candidates stay inside the
/// well-formed universe (non-empty ids, one-column rows keep their cell, Uris without controls).
pub fn candidates(v: &V, well_formed: bool) -> Vec<V> {
    let mut out: Vec<V> = vec![];
    match v {
        V::List(l) => {
            for c in l {
                out.push(c.clone());
            }
            for i in 0..l.len() {
                let mut c = l.clone();
                c.remove(i);
                out.push(V::List(c));
            }
            for i in 0..l.len() {
                for s in candidates(&l[i], well_formed) {
                    let mut c = l.clone();
                    c[i] = s;
                    out.push(V::List(c));
                }
            }
        }
        V::Dict(d) => {
            for (_, c) in d {
                out.push(c.clone());
            }
            for t in shrink_tags(d, well_formed) {
                out.push(V::Dict(t));
            }
        }
        V::Grid(g) => {
            for r in &g.rows {
                for (_, c) in r {
                    out.push(c.clone());
                }
            }
            for (_, c) in g.meta.iter().flatten() {
                out.push(c.clone());
            }
            for col in &g.cols {
                for (_, c) in col.meta.iter().flatten() {
                    out.push(c.clone());
                }
            }
            let push = |out: &mut Vec<V>, ng: G| out.push(V::Grid(Box::new(ng)));
            // drop / shrink grid meta
            if let Some(m) = &g.meta {
                let mut ng = (**g).clone();
                ng.meta = None;
                push(&mut out, ng);
                for t in shrink_tags(m, well_formed) {
                    let mut ng = (**g).clone();
                    ng.meta = Some(t);
                    push(&mut out, ng);
                }
            }
            // drop a row
            for i in 0..g.rows.len() {
                let mut ng = (**g).clone();
                ng.rows.remove(i);
                push(&mut out, ng);
            }
            // drop a column (and its cells)
            if g.cols.len() > 1 || !well_formed {
                for i in 0..g.cols.len() {
                    let mut ng = (**g).clone();
                    let name = ng.cols.remove(i).name;
                    for r in ng.rows.iter_mut() {
                        r.retain(|(k, _)| *k != name);
                    }
                    if well_formed && ng.cols.len() == 1 && ng.rows.iter().any(|r| r.is_empty()) {
                        continue;
                    }
                    push(&mut out, ng);
                }
            }
            // drop / shrink column meta
            for i in 0..g.cols.len() {
                if let Some(m) = &g.cols[i].meta {
                    let mut ng = (**g).clone();
                    ng.cols[i] = Col { name: g.cols[i].name.clone(), meta: None };
                    push(&mut out, ng);
                    for t in shrink_tags(m, well_formed) {
                        let mut ng = (**g).clone();
                        ng.cols[i].meta = Some(t);
                        push(&mut out, ng);
                    }
                }
            }
            // drop / shrink cells
            for i in 0..g.rows.len() {
                for t in shrink_tags(&g.rows[i], well_formed) {
                    if well_formed && g.cols.len() == 1 && t.is_empty() {
                        continue;
                    }
                    let mut ng = (**g).clone();
                    ng.rows[i] = t;
                    push(&mut out, ng);
                }
            }
            if g.ver != "3.0" {
                let mut ng = (**g).clone();
                ng.ver = "3.0".into();
                push(&mut out, ng);
            }
        }
        V::Str(s) => {
            for t in shrink_str(s) {
                out.push(V::Str(t));
            }
        }
        V::Uri(s) => {
            for t in shrink_str(s) {
                out.push(V::Uri(t));
            }
        }
        V::Ref(id, dis) => {
            if let Some(d) = dis {
                out.push(V::Ref(id.clone(), None));
                for t in shrink_str(d) {
                    out.push(V::Ref(id.clone(), Some(t)));
                }
            }
            for t in shrink_str(id) {
                if !(well_formed && t.is_empty()) {
                    out.push(V::Ref(t, dis.clone()));
                }
            }
        }
        V::Sym(s) => {
            for t in shrink_str(s) {
                if well_formed && !t.chars().next().map_or(false, |c| c.is_ascii_lowercase()) {
                    continue;
                }
                out.push(V::Sym(t));
            }
        }
        V::XStr(ty, s) => {
            for t in shrink_str(s) {
                out.push(V::XStr(ty.clone(), t));
            }
            for t in shrink_str(ty) {
                if well_formed && !t.chars().next().map_or(false, |c| c.is_ascii_uppercase()) {
                    continue;
                }
                out.push(V::XStr(t, s.clone()));
            }
        }
        V::Num(x, Some(_)) => {
            out.push(V::Num(*x, None));
            if *x != 1.0 {
                out.push(V::Num(1.0, match v {
                    V::Num(_, u) => u.clone(),
                    _ => None,
                }));
            }
        }
        V::Num(x, None) => {
            if x.is_finite() && *x != 1.0 && *x != 0.0 {
                out.push(V::Num(1.0, None));
            }
        }
        V::DateTime(d) => {
            if d.nanos != 0 {
                let mut e = d.clone();
                e.nanos = 0;
                out.push(V::DateTime(e));
            }
        }
        V::Time(h, m, s, n) => {
            if *n != 0 {
                out.push(V::Time(*h, *m, *s, 0));
            }
        }
        V::Coord(a, b) => {
            if *a != 1.0 {
                out.push(V::Coord(1.0, *b));
            }
            if *b != 1.0 {
                out.push(V::Coord(*a, 1.0));
            }
        }
        _ => {}
    }
    out
}

/// Greedy 1-minimisation. `fails(v)` must be deterministic.
pub fn shrink(v: &V, well_formed: bool, fails: &dyn Fn(&V) -> bool) -> V {
    // process-wide budget: a change that breaks (nearly) everything produces 10^5 failing values;
    // the first 400 are minimised, the rest are reported as they are
    static CALLS: std::sync::atomic::AtomicU64 = std::sync::atomic::AtomicU64::new(0);
    if CALLS.fetch_add(1, std::sync::atomic::Ordering::Relaxed) > 400 {
        return v.clone();
    }
    let mut cur = v.clone();
    let mut budget = 20_000usize;
    'outer: loop {
        for c in candidates(&cur, well_formed) {
            if budget == 0 {
                break 'outer;
            }
            budget -= 1;
            if fails(&c) {
                cur = c;
                continue 'outer;
            }
        }
        break;
    }
    cur
}
