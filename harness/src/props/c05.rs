//! C05 — Hayson JSON conforms to the Project Haystack JSON encoding in both directions
//! (DESIGN §5 C05). Reference mapping in model/hayson_ref.rs; spelling space explored with E2.

use super::common::*;
use crate::engine::choice::{explore, Chooser};
use crate::engine::{guarded, machinery, par_for, Local, Run, Tier};
use crate::model::hayson_ref::{self as hr, JT};
use crate::model::shrink::{shape_sig, shrink};
use crate::model::time_ref::rfc3339_instant;
use crate::model::universe as u;
use crate::model::v::{from_json, from_lib, same, to_json, to_lib, Tags, V};
use libhaystack::val::Value;
use serde_json::{json, Value as J};

fn members<'a>(t: &'a JT, kind: &str, allowed: &[&str], path: &str) -> Result<&'a Vec<(String, JT)>, String> {
    match t {
        JT::Obj(m) => {
            match m.iter().find(|(k, _)| k == "_kind") {
                Some((_, JT::Str(k))) if k == kind => {}
                other => return Err(format!("{path}: expected _kind {kind:?}, found {other:?}")),
            }
            for (k, _) in m {
                if k != "_kind" && !allowed.contains(&k.as_str()) {
                    return Err(format!("{path}: unexpected member {k:?} in a {kind}"));
                }
            }
            Ok(m)
        }
        other => Err(format!("{path}: expected a {kind} object, found {other:?}")),
    }
}

fn member<'a>(m: &'a [(String, JT)], k: &str, path: &str) -> Result<&'a JT, String> {
    m.iter().find(|(n, _)| n == k).map(|(_, v)| v).ok_or_else(|| format!("{path}: member {k:?} missing"))
}

fn is_str(t: &JT, want: &str, path: &str) -> Result<(), String> {
    match t {
        JT::Str(s) if s == want => Ok(()),
        other => Err(format!("{path}: expected string {want:?}, found {other:?}")),
    }
}

fn is_num(t: &JT, want: f64, path: &str) -> Result<(), String> {
    match t {
        JT::Num(x) if *x == want => Ok(()),
        other => Err(format!("{path}: expected number {want}, found {other:?}")),
    }
}

fn tags_conform(t: &JT, tags: &Tags, allow_kind_dict: bool, extra_ok: &[&str], path: &str) -> Result<(), String> {
    match t {
        JT::Obj(m) => {
            for (k, x) in m {
                if k == "_kind" {
                    if allow_kind_dict && *x == JT::Str("dict".into()) {
                        continue;
                    }
                    return Err(format!("{path}: unexpected _kind member {x:?}"));
                }
                if extra_ok.contains(&k.as_str()) && !tags.iter().any(|(n, _)| n == k) {
                    continue;
                }
                match tags.iter().find(|(n, _)| n == k) {
                    Some((_, v)) => conforms(x, v, &format!("{path}.{k}"))?,
                    None => return Err(format!("{path}: unexpected member {k:?}")),
                }
            }
            for (k, _) in tags {
                if !m.iter().any(|(n, _)| n == k) {
                    return Err(format!("{path}: tag {k:?} missing"));
                }
            }
            Ok(())
        }
        other => Err(format!("{path}: expected an object, found {other:?}")),
    }
}

/// is `t` the Hayson representation of `v`? (right _kind and field names, plain JSON where the
/// encoding says plain JSON, optional members optional)
pub fn conforms(t: &JT, v: &V, path: &str) -> Result<(), String> {
    match v {
        V::Null => (*t == JT::Null).then_some(()).ok_or_else(|| format!("{path}: expected null, found {t:?}")),
        V::Bool(b) => (*t == JT::Bool(*b)).then_some(()).ok_or_else(|| format!("{path}: expected {b}, found {t:?}")),
        V::Str(s) => is_str(t, s, path),
        V::Num(x, None) if x.is_finite() => is_num(t, *x, path),
        V::Num(x, u) => {
            let m = members(t, "number", &["val", "unit"], path)?;
            let val = member(m, "val", path)?;
            if x.is_finite() {
                is_num(val, *x, path)?;
            } else {
                is_str(val, if x.is_nan() { "NaN" } else if *x > 0.0 { "INF" } else { "-INF" }, path)?;
            }
            match (u, m.iter().find(|(k, _)| k == "unit")) {
                (None, None) => Ok(()),
                (Some(u), Some((_, JT::Str(s)))) if crate::model::units_ref::canonical(s).as_deref() == Some(u.as_str()) => Ok(()),
                (a, b) => Err(format!("{path}: unit {a:?} vs member {b:?}")),
            }
        }
        V::Marker => members(t, "marker", &[], path).map(|_| ()),
        V::Na => members(t, "na", &[], path).map(|_| ()),
        V::Remove => members(t, "remove", &[], path).map(|_| ()),
        V::Ref(id, dis) => {
            let m = members(t, "ref", &["val", "dis"], path)?;
            is_str(member(m, "val", path)?, id, path)?;
            match (dis, m.iter().find(|(k, _)| k == "dis")) {
                (None, None) => Ok(()),
                (Some(d), Some((_, x))) => is_str(x, d, path),
                (a, b) => Err(format!("{path}: dis {a:?} vs member {b:?}")),
            }
        }
        V::Sym(s) => is_str(member(members(t, "symbol", &["val"], path)?, "val", path)?, s, path),
        V::Uri(s) => is_str(member(members(t, "uri", &["val"], path)?, "val", path)?, s, path),
        V::Date(y, mo, d) => is_str(member(members(t, "date", &["val"], path)?, "val", path)?, &format!("{y:04}-{mo:02}-{d:02}"), path),
        V::Time(h, mi, s, n) => {
            let m = members(t, "time", &["val"], path)?;
            match member(m, "val", path)? {
                JT::Str(txt) => match hr::from_tree(&JT::Obj(vec![("_kind".into(), JT::Str("time".into())), ("val".into(), JT::Str(txt.clone()))])) {
                    Ok(V::Time(a, b, c, d)) if (a, b, c, d) == (*h, *mi, *s, *n) => Ok(()),
                    other => Err(format!("{path}: time text {txt:?} denotes {other:?}")),
                },
                other => Err(format!("{path}: time val {other:?}")),
            }
        }
        V::DateTime(dt) => {
            let m = members(t, "dateTime", &["val", "tz"], path)?;
            match member(m, "val", path)? {
                JT::Str(txt) => match rfc3339_instant(txt) {
                    Some((secs, nanos, off)) if secs == dt.secs && nanos == dt.nanos && off == dt.offset => {}
                    other => return Err(format!("{path}: dateTime text {txt:?} denotes {other:?}, expected {dt:?}")),
                },
                other => return Err(format!("{path}: dateTime val {other:?}")),
            }
            match m.iter().find(|(k, _)| k == "tz") {
                None if dt.tz == "UTC" => Ok(()),
                Some((_, x)) => is_str(x, &dt.tz, path),
                None => Err(format!("{path}: tz member missing for zone {}", dt.tz)),
            }
        }
        V::Coord(a, b) => {
            let m = members(t, "coord", &["lat", "lng"], path)?;
            is_num(member(m, "lat", path)?, *a, path)?;
            is_num(member(m, "lng", path)?, *b, path)
        }
        V::XStr(ty, s) => {
            let m = members(t, "xstr", &["type", "val"], path)?;
            is_str(member(m, "type", path)?, ty, path)?;
            is_str(member(m, "val", path)?, s, path)
        }
        V::List(l) => match t {
            JT::Arr(a) if a.len() == l.len() => {
                for (i, (x, y)) in a.iter().zip(l.iter()).enumerate() {
                    conforms(x, y, &format!("{path}[{i}]"))?;
                }
                Ok(())
            }
            other => Err(format!("{path}: expected an array of {} elements, found {other:?}", l.len())),
        },
        V::Dict(d) => tags_conform(t, d, true, &[], path),
        V::Grid(g) => {
            let m = members(t, "grid", &["meta", "cols", "rows"], path)?;
            let empty: Tags = vec![];
            // the format version travels as meta "ver"; it may be left out only when it is the default
            let ver_is_tag = g.meta.as_ref().map_or(false, |x| x.iter().any(|(k, _)| k == "ver"));
            let mut ver_seen = false;
            match m.iter().find(|(k, _)| k == "meta") {
                None => {
                    if g.meta.as_ref().map_or(false, |x| !x.is_empty()) {
                        return Err(format!("{path}: grid meta missing"));
                    }
                }
                Some((_, mt)) => {
                    tags_conform(mt, g.meta.as_ref().unwrap_or(&empty), false, &["ver"], &format!("{path}.meta"))?;
                    if let JT::Obj(mm) = mt {
                        if let Some((_, ver)) = mm.iter().find(|(k, _)| k == "ver") {
                            ver_seen = true;
                            if !ver_is_tag {
                                is_str(ver, &g.ver, &format!("{path}.meta.ver"))?;
                            }
                        }
                    }
                }
            }
            if g.ver != "3.0" && !ver_seen && !ver_is_tag {
                return Err(format!("{path}: grid ver {:?} is not in meta.ver", g.ver));
            }
            match member(m, "cols", path)? {
                JT::Arr(a) if a.len() == g.cols.len() => {
                    for (c, col) in a.iter().zip(g.cols.iter()) {
                        match c {
                            JT::Obj(cm) => {
                                for (k, _) in cm {
                                    if k != "name" && k != "meta" {
                                        return Err(format!("{path}: unexpected column member {k:?}"));
                                    }
                                }
                                is_str(member(cm, "name", path)?, &col.name, path)?;
                                match cm.iter().find(|(k, _)| k == "meta") {
                                    None => {
                                        if col.meta.as_ref().map_or(false, |x| !x.is_empty()) {
                                            return Err(format!("{path}: column {} meta missing", col.name));
                                        }
                                    }
                                    Some((_, mt)) => tags_conform(mt, col.meta.as_ref().unwrap_or(&empty), false, &[], &format!("{path}.col[{}].meta", col.name))?,
                                }
                            }
                            other => return Err(format!("{path}: column {other:?}")),
                        }
                    }
                }
                other => return Err(format!("{path}: cols {other:?}")),
            }
            match member(m, "rows", path)? {
                JT::Arr(a) if a.len() == g.rows.len() => {
                    for (i, (r, row)) in a.iter().zip(g.rows.iter()).enumerate() {
                        tags_conform(r, row, false, &[], &format!("{path}.row[{i}]"))?;
                    }
                    Ok(())
                }
                other => Err(format!("{path}: rows {other:?}")),
            }
        }
    }
}

/// Direction 1: what libhaystack emits is the Hayson representation of v.
pub fn emitted_conforms(v: &V) -> Verdict {
    let lv = to_lib(v);
    let tree = match guarded(|| serde_json::to_value(&lv)) {
        Err(p) => return Err(("d1-encode-panic".into(), p)),
        Ok(Err(e)) => return Err(("d1-encode-error".into(), e.to_string())),
        Ok(Ok(t)) => t,
    };
    let text = match guarded(|| serde_json::to_string(&lv)) {
        Ok(Ok(t)) => t,
        other => return Err(("d1-encode-error".into(), format!("{other:?}"))),
    };
    match serde_json::from_str::<serde_json::Value>(&text) {
        Ok(t2) if t2 == tree => {}
        other => return Err(("d1-text-vs-tree".into(), format!("to_string {text} does not parse to the to_value tree: {other:?}"))),
    }
    conforms(&hr::from_serde(&tree), v, "$").map_err(|d| ("d1-not-hayson".to_string(), format!("{d}; text={text}")))
}

/// The typed entry points (`from_str::<Dict>`, `Option<DateTime>`, `Vec<Number>` element,
/// `from_value::<T>` — which presents object members in sorted order) decode a document that
/// denotes a value of that kind to the same value as the generic `Value` entry point.
pub fn typed_decode_agrees(text: &str, v: &V, full: bool) -> Verdict {
    use libhaystack::val::*;
    let tree: serde_json::Value = match serde_json::from_str(text) {
        Ok(t) => t,
        Err(_) => return Ok(()),
    };
    let listed = format!("[{text}]");
    macro_rules! typed {
        ($T:ty, $wrap:expr) => {{
            let wrap = $wrap;
            let mut outs: Vec<(&str, Result<Result<Value, String>, String>)> = vec![];
            outs.push(("from_str::<T>", guarded(|| serde_json::from_str::<$T>(text).map(|x| wrap(x)).map_err(|e| e.to_string()))));
            outs.push(("from_value::<T>", guarded(|| serde_json::from_value::<$T>(tree.clone()).map(|x| wrap(x)).map_err(|e| e.to_string()))));
            if full {
            outs.push(("from_str::<Option<T>>", guarded(|| serde_json::from_str::<Option<$T>>(text).map_err(|e| e.to_string()).and_then(|x| x.map(|x| wrap(x)).ok_or_else(|| "None".to_string())))));
            // (the extra list level must stay inside serde_json's recursion limit of 128)
            if u::json_depth(v) < 120 {
            outs.push(("from_str::<Vec<T>>", guarded(|| serde_json::from_str::<Vec<$T>>(&listed).map_err(|e| e.to_string()).and_then(|mut x| if x.len() == 1 { Ok(wrap(x.remove(0))) } else { Err(format!("{} elements", x.len())) }))));
            }
            outs.push(("from_slice::<T>", guarded(|| serde_json::from_slice::<$T>(text.as_bytes()).map(|x| wrap(x)).map_err(|e| e.to_string()))));
            outs.push(("from_reader::<T>", guarded(|| serde_json::from_reader::<_, $T>(std::io::Cursor::new(text.as_bytes())).map(|x| wrap(x)).map_err(|e| e.to_string()))));
            }
            outs
        }};
    }
    let outs = match v {
        V::Marker => typed!(Marker, |_x: Marker| Value::Marker),
        V::Remove => typed!(Remove, |_x: Remove| Value::Remove),
        V::Na => typed!(Na, |_x: Na| Value::Na),
        V::Num(..) => typed!(Number, Value::Number),
        V::Date(..) => typed!(Date, Value::Date),
        V::Time(..) => typed!(Time, Value::Time),
        V::DateTime(..) => typed!(DateTime, Value::DateTime),
        V::Ref(..) => typed!(Ref, Value::Ref),
        V::Uri(..) => typed!(Uri, Value::Uri),
        V::Sym(..) => typed!(Symbol, Value::Symbol),
        V::Str(..) => typed!(Str, Value::Str),
        V::Coord(..) => typed!(Coord, Value::Coord),
        V::XStr(..) => typed!(XStr, Value::XStr),
        V::Dict(..) => typed!(Dict, Value::Dict),
        V::Grid(..) => typed!(Grid, Value::Grid),
        V::List(..) => typed!(Vec<Value>, Value::List),
        _ => return Ok(()),
    };
    for (how, o) in outs {
        match o {
            Err(p) => return Err(("d2-typed-decode-panic".into(), format!("{how}: {p}; text={text}"))),
            Ok(Err(e)) => return Err(("d2-typed-decode-error".into(), format!("{how}: {e}; text={text}"))),
            Ok(Ok(b)) => same(v, &from_lib(&b)).map_err(|d| ("d2-typed-decoded-other-value".to_string(), format!("{how}: {d}; text={text}")))?,
        }
    }
    Ok(())
}

static THOROUGH: std::sync::atomic::AtomicBool = std::sync::atomic::AtomicBool::new(false);

fn one_spelling(v: &V, ch: &mut Chooser) -> (String, Vec<&'static str>, Verdict) {
    let (text, dev) = hr::write(v, ch);
    // self-check of the reference: emitted text is JSON (serde_json as the trusted JSON reader),
    // and the reference reader maps it back to v
    match serde_json::from_str::<serde_json::Value>(&text) {
        Ok(t) => match hr::from_tree(&hr::from_serde(&t)) {
            Ok(back) if same(v, &back).is_ok() => {}
            other => machinery(&format!("hayson_ref self-check failed: {v:?} spelled {text} reads back as {other:?}")),
        },
        Err(e) => machinery(&format!("hayson_ref emitted invalid JSON {text}: {e}")),
    }
    let verdict = match guarded(|| serde_json::from_str::<Value>(&text)) {
        Err(p) => Err(("d2-decode-panic".to_string(), format!("{p}; text={text}"))),
        Ok(Err(e)) => Err(("d2-decode-error".to_string(), format!("{e}; text={text}"))),
        Ok(Ok(b)) => same(v, &from_lib(&b)).map_err(|d| ("d2-decoded-other-value".to_string(), format!("{d}; text={text}"))),
    };
    let thorough = THOROUGH.load(std::sync::atomic::Ordering::Relaxed);
    let verdict = if dev.len() <= 1 || thorough { verdict.and_then(|_| typed_decode_agrees(&text, v, dev.is_empty() || thorough)) } else { verdict };
    (text, dev, verdict)
}

struct SpellFail {
    choices: Vec<u32>,
    types: Vec<&'static str>,
    stage: String,
    detail: String,
}

fn explore_spellings(v: &V, bound: Option<usize>, only: Option<&[&'static str]>, cap: u64, mut local: Option<&mut Local>) -> (Option<SpellFail>, u64, bool) {
    let mut fail = None;
    let st = explore(bound, cap, |ch| {
        let (_t, dev, verdict) = one_spelling(v, ch);
        if let Some(l) = local.as_deref_mut() {
            l.transitions += 1;
            for d in &dev {
                l.count(&format!("deviated:{d}"));
            }
        }
        if let Some(o) = only {
            if dev.iter().any(|d| !o.contains(d)) {
                return true;
            }
        }
        match verdict {
            Ok(()) => true,
            Err((stage, detail)) => {
                let mut types = dev.clone();
                types.sort();
                types.dedup();
                fail = Some(SpellFail { choices: ch.choices(), types, stage, detail });
                false
            }
        }
    });
    (fail, st.executions, st.capped)
}

fn check_spellings(v: &V, bound: Option<usize>, cap: u64, local: &mut Local) {
    local.eval();
    local.states += 1;
    if nontrivial_value(v) {
        local.nontrivial(&v.key());
    }
    let (fail, execs, capped) = explore_spellings(v, bound, None, cap, Some(local));
    local.traces += execs;
    if capped {
        local.count("capped-values");
    }
    if let Some(f) = fail {
        let nd = f.choices.iter().filter(|c| **c != 0).count();
        let types = f.types.clone();
        let min = shrink(v, true, &|c| explore_spellings(c, Some(nd), Some(&types), 100_000, None).0.is_some());
        let mf = explore_spellings(&min, Some(nd), Some(&types), 100_000, None).0.unwrap_or(f);
        local.outcome(&mf.stage);
        local.fail(&format!("{}[{}]:{}", mf.stage, mf.types.join("+"), shape_sig(&min)), json!({"value": to_json(&min), "choices": mf.choices}), mf.detail);
    } else {
        local.outcome("ok");
    }
}

pub fn run(tier: Tier) -> i32 {
    THOROUGH.store(tier == Tier::Thorough, std::sync::atomic::Ordering::Relaxed);
    let mut run = Run::new("C05", tier, "model_checking");
    run.rule = "typed entry points: every spelling is also decoded as the typed value of its kind (from_str / from_slice / from_reader::<T>, Option<T>, Vec<T> element, from_value::<T> with sorted members) and must give the same value (quick: from_str::<T> and from_value::<T> for documents with <= 1 deviation, all six for the canonical document; thorough: all six for all documents). reference Hayson mapping (DESIGN Appendix A.2). Direction 1: serde_json::to_value / to_string of every value of Σ ∪ U must be the Hayson representation (right _kind, exact member names, plain JSON for null/bool/string/unit-less finite number/list/dict, optional members optional). Direction 2: every document the reference writer produces with <= b deviations (choice points: member order of every object — all permutations up to 4 members, rotations+reversal beyond —, \"_kind\":\"dict\" present/absent, grid meta absent / {} / with ver, column meta absent / {}, tz present/absent for UTC, Z vs +00:00, fraction digits padded, every number as integer/.0/exponent e|E|e+|E-/shifted, every string character literal vs \\uXXXX (surrogate pairs) vs short escape, white space) is decoded by libhaystack and must give the value. states = values, transitions = documents executed = traces validated".into();
    run.assume("DESIGN Appendix A.2 is the Hayson encoding (written from memory of the Project Haystack documentation)");
    run.assume("serde_json is the trusted JSON reader for the reference writer's self-check");
    crate::engine::quiet_panics();
    {
        let pool: Vec<V> = super::c01::probe_pool();
        if super::common::probe_first(&mut run, "hayson-codec", &pool, &super::c02::hayson_observation, &|v: &V| crate::model::v::to_json(v)) {
            return run.finish(&replay);
        }
    }
    let scalars = u::scalars(tier);
    let l = par_for(scalars.len(), |i, local| {
        check_value(&scalars[i], local, true, &emitted_conforms);
        local.count("d1-values");
    });
    run.absorb(l);
    let shards = u::container_shards(tier);
    let l = par_for(shards.len(), |i, local| {
        shards[i](&mut |v| {
            check_value(&v, local, true, &emitted_conforms);
            local.count("d1-values");
        })
    });
    run.absorb(l);

    // the digit-shape family: one deviation per document (thorough: two)
    let shaped = u::digit_shape_values();
    let l = par_for(shaped.len(), |i, local| check_spellings(&shaped[i], Some(tier.pick(1, 2)), 2_000_000, local));
    run.absorb(l);
    let sc2 = u::scalars_classic(Tier::Quick);
    let l = par_for(sc2.len(), |i, local| {
        check_spellings(&sc2[i], Some(2), 2_000_000, local);
        let mut ch = Chooser::replaying(vec![]);
        let _ = hr::write(&sc2[i], &mut ch);
        let space: f64 = ch.trace.iter().map(|p| p.arity as f64).product();
        if space <= 5_000.0 {
            check_spellings(&sc2[i], None, 10_000, local);
            local.count("d2-unbounded");
        }
    });
    run.absorb(l);
    let cshards = u::container_shards(Tier::Quick);
    let l = par_for(cshards.len(), |i, local| {
        let mut k = 0usize;
        cshards[i](&mut |v| {
            k += 1;
            if k % tier.pick(9, 2) != 0 {
                return;
            }
            check_spellings(&v, Some(1), 1_000_000, local);
        })
    });
    run.absorb(l);
    let mut core: Vec<V> = vec![u::small_grid(), u::meta_grid()];
    {
        let mut pool = u::pool_scalars();
        pool.extend(u::pool_containers1());
        u::lists_over(&pool, 1, &mut |v| core.push(v));
        u::dicts_over(&pool, tier.pick(1, 2), &mut |v| core.push(v));
        u::ver_variants(&mut |v| core.push(v));
    }
    let l = par_for(core.len(), |i, local| check_spellings(&core[i], Some(2), 3_000_000, local));
    run.absorb(l);
    // three deviations at once on a small kind-complete set (thorough: also the pool containers)
    let mut b3: Vec<V> = u::pool_scalars();
    b3.extend([u::small_grid(), u::meta_grid(), V::dict(&[("a", V::num(1.0)), ("b", V::Marker)]), V::List(vec![V::num(1.0), V::str("s")])]);
    if tier == Tier::Thorough {
        b3.extend(u::pool_containers1());
    }
    let l = par_for(b3.len(), |i, local| {
        check_spellings(&b3[i], Some(3), tier.pick(400_000, 8_000_000), local);
        local.count("d2-bound3");
    });
    run.absorb(l);
    run.exhaustive = run.counter("capped-values") == 0;
    for t in ["member-order", "dict-kind-member", "grid-meta-spelling", "column-meta-spelling", "utc-tz-member", "number-spelling", "escape-spelling", "whitespace", "fraction-digits", "zero-offset-spelling", "val-in-utc"] {
        run.require(run.counter(&format!("deviated:{t}")) > 0, &format!("choice-point type {t} never deviated"));
    }
    run.require(run.counter("d1-values") > 50_000, "direction 1 too small");
    run.stats.samples = vec![
        json!({"value": to_json(&V::numu(1500.0, "kW")), "documents": ["{\"_kind\":\"number\",\"val\":1500,\"unit\":\"kW\"}", "{\"unit\":\"kW\",\"val\":1.5e3,\"_kind\":\"number\"}"]}),
        json!({"value": to_json(&V::dict(&[("a", V::Marker)])), "documents": ["{\"a\":{\"_kind\":\"marker\"}}", "{\"_kind\":\"dict\",\"a\":{\"_kind\":\"marker\"}}"]}),
    ];
    run.finish(&replay)
}

pub fn replay(case: &J) -> Verdict {
    if case["free_running"] == "hayson-codec" {
        let pool: Vec<V> = super::c01::probe_pool();
        return super::common::replay_probe(&pool, &super::c02::hayson_observation, &|v: &V| crate::model::v::to_json(v));
    }
    let v = from_json(&case["value"]);
    if let Some(ch) = case.get("choices").and_then(|c| c.as_array()) {
        let choices: Vec<u32> = ch.iter().map(|x| x.as_u64().unwrap_or(0) as u32).collect();
        let mut chooser = Chooser::replaying(choices);
        let (_t, dev, verdict) = one_spelling(&v, &mut chooser);
        return verdict.map_err(|(stage, detail)| {
            let mut types = dev;
            types.sort();
            types.dedup();
            (format!("{stage}[{}]:{}", types.join("+"), shape_sig(&v)), detail)
        });
    }
    replay_value(case, &emitted_conforms)
}
