//! C13 — def namespace queries agree with the subtype graph (DESIGN §5 C13).
//! Exhaustive over all small acyclic taxonomies and over the real Project Haystack defs.

use super::common::Verdict;
use crate::engine::{guarded, par_for, Local, Run, Tier};
use crate::model::defs_ref::{Names, RefNs};
use crate::model::filter_ref::{to_lib_filter, F};
use crate::model::v::{from_json, from_lib, mk_tags, to_json, to_lib, Col, Tags, G, V};
use libhaystack::defs::namespace::{DefDict, Namespace};
use libhaystack::filter::eval::EvalContext;
use libhaystack::filter::Eval;
use libhaystack::val::{Dict, Grid, Symbol, Value};
use serde_json::{json, Value as J};

fn names(defs: &[&Dict]) -> Names {
    defs.iter().map(|d| d.def_name().clone()).collect()
}
fn names_owned(defs: &[Dict]) -> Names {
    defs.iter().map(|d| d.def_name().clone()).collect()
}

pub fn grid_of(rows: &[Tags]) -> Grid {
    let mut cols: Vec<String> = rows.iter().flat_map(|r| r.iter().map(|(k, _)| k.clone())).collect();
    cols.sort();
    cols.dedup();
    if cols.is_empty() {
        cols.push("def".into());
    }
    let g = V::Grid(Box::new(G { ver: "3.0".into(), meta: None, cols: cols.into_iter().map(|name| Col { name, meta: None }).collect(), rows: rows.to_vec() }));
    match to_lib(&g) {
        Value::Grid(g) => g,
        _ => unreachable!(),
    }
}

/// run `f` with a namespace that lives exactly as long as the call (the API wants `&'a self`
/// with the namespace's own lifetime parameter, i.e. effectively 'static)
pub fn with_ns<T>(rows: &[Tags], f: impl FnOnce(&'static Namespace<'static>) -> T) -> T {
    let b: Box<Namespace<'static>> = Box::new(Namespace::make(grid_of(rows)));
    let r: &'static Namespace<'static> = unsafe { &*(b.as_ref() as *const Namespace<'static>) };
    let out = f(r);
    drop(b);
    out
}

fn sym(s: &str) -> Symbol {
    Symbol::from(s)
}

/// every query on every symbol / ordered pair; Err = (query, detail)
fn check_queries(ns: &'static Namespace<'static>, r: &RefNs, symbols: &[String], pairs: bool) -> Verdict {
    let cmp = |q: &str, s: &str, got: Names, want: Names| -> Verdict {
        if got != want {
            Err((q.to_string(), format!("{q}({s}) = {got:?}, graph says {want:?}")))
        } else {
            Ok(())
        }
    };
    for s in symbols {
        let y = sym(s);
        cmp("supertypes_of", s, names(&ns.supertypes_of(&y)), r.supertypes(s))?;
        cmp("all_supertypes_of", s, names(&ns.all_supertypes_of(&y)), r.all_supertypes(s))?;
        cmp("subtypes_of", s, names_owned(ns.subtypes_of(&y)), r.subtypes(s))?;
        cmp("all_subtypes_of", s, names(&ns.all_subtypes_of(&y)), r.all_subtypes(s))?;
        cmp("inheritance", s, names(&ns.inheritance(&y)), r.inheritance(s))?;
        cmp("choices_for", s, names_owned(ns.choices_for(&y)), r.choices_for(s))?;
        if ns.has_subtype(&y) != !r.subtypes(s).is_empty() {
            return Err(("has_subtype".into(), format!("has_subtype({s}) = {}", ns.has_subtype(&y))));
        }
        if ns.has(&y) != r.defined(s) || ns.has_name(s) != r.defined(s) || ns.get(&y).is_some() != r.defined(s) || ns.get_by_name(s).is_some() != r.defined(s) {
            return Err(("has".into(), format!("has/get({s}) disagree with the grid")));
        }
        if s.contains('-') {
            let want: Names = s.split('-').filter(|p| r.defined(p)).map(|p| p.to_string()).collect();
            cmp("conjuncts_defs", s, names(&ns.conjuncts_defs(&y)), want)?;
        }
        // the second (cached) answer equals the first
        cmp("supertypes_of(cached)", s, names(&ns.supertypes_of(&y)), r.supertypes(s))?;
        cmp("inheritance(cached)", s, names(&ns.inheritance(&y)), r.inheritance(s))?;
    }
    if pairs {
        for a in symbols {
            for b in symbols {
                let got = ns.fits(&sym(a), &sym(b));
                if got != r.fits(a, b) {
                    return Err(("fits".into(), format!("fits({a}, {b}) = {got}, graph says {}", r.fits(a, b))));
                }
            }
        }
    }
    if pairs {
        // a Reflection built by hand (the public constructor; the defs need not be closed under
        // supertypes) fits a base exactly when one of its defs does in the graph
        let empty = Dict::default();
        let defined: Vec<&String> = symbols.iter().filter(|s| ns.get_by_name(s).is_some()).collect();
        for (i, a) in defined.iter().enumerate() {
            let a2 = defined[(i + 1) % defined.len()];
            let one = libhaystack::defs::reflection::Reflection::make(&empty, vec![ns.get_by_name(a).unwrap()], ns);
            let two = libhaystack::defs::reflection::Reflection::make(&empty, vec![ns.get_by_name(a2).unwrap(), ns.get_by_name(a).unwrap()], ns);
            let none = libhaystack::defs::reflection::Reflection::make(&empty, vec![], ns);
            for b in symbols {
                let y = sym(b);
                if one.fits(&y) != r.fits(a, b) {
                    return Err(("reflection-make-fits".into(), format!("Reflection::make(defs [{a}]).fits({b}) = {}, graph says {}", one.fits(&y), r.fits(a, b))));
                }
                if two.fits(&y) != (r.fits(a, b) || r.fits(a2, b)) {
                    return Err(("reflection-make-fits".into(), format!("Reflection::make(defs [{a2}, {a}]).fits({b}) = {}, graph says {}", two.fits(&y), r.fits(a, b) || r.fits(a2, b))));
                }
                if none.fits(&y) {
                    return Err(("reflection-make-fits".into(), format!("Reflection::make(no defs).fits({b}) = true")));
                }
            }
        }
    }
    let want_conj: Names = r.conjuncts().into_iter().collect();
    let got_conj: Names = ns.conjuncts.iter().map(|d| d.def_name().clone()).collect();
    if got_conj != want_conj {
        return Err(("conjuncts".into(), format!("conjuncts {got_conj:?}, expected {want_conj:?}")));
    }
    Ok(())
}

/// reflect on the record as given, and on the same record carrying the identity tags every stored
/// record has (`id`, `mod`, `dis` — the same id and mod for every record of the enumeration: a
/// projection or an edited copy of one entity)
/// The same answers on a fresh namespace asked deepest-first (reverse symbol order): a cache filled
/// while walking up from a leaf must leave every def on the way with its full answer (C13-r7: an
/// inheritance walk that shares one visited set caches a truncated chain for the second arm of a
/// diamond — invisible when roots are asked first).
fn check_leaf_first(rows: &[Tags], r: &RefNs, symbols: &[String]) -> Verdict {
    let mut rev: Vec<String> = symbols.iter().rev().cloned().collect();
    rev.sort_by_key(|s| std::cmp::Reverse(r.all_supertypes(s).len())); // stable: deepest defs first
    with_ns(rows, |ns| -> Verdict {
        // one query kind at a time from the leaves, then everything again in reverse order
        for s in &rev {
            let got = names(&ns.inheritance(&sym(s)));
            if got != r.inheritance(s) {
                return Err(("leaf-first:inheritance".into(), format!("asked deepest-first on a fresh namespace: inheritance({s}) = {got:?}, graph says {:?}", r.inheritance(s))));
            }
        }
        check_queries(ns, r, &rev, rev.len() <= 24).map_err(|(q, d)| (format!("leaf-first:{q}"), format!("asked deepest-first on a fresh namespace: {d}")))
    })?;
    // fits first, before any other query has filled a cache
    with_ns(rows, |ns| -> Verdict {
        for a in rev.iter().take(6) {
            for b in symbols {
                let got = ns.fits(&sym(a), &sym(b));
                if got != r.fits(a, b) {
                    return Err(("leaf-first:fits".into(), format!("asked deepest-first on a fresh namespace: fits({a}, {b}) = {got}, graph says {}", r.fits(a, b))));
                }
            }
        }
        for a in symbols {
            for b in symbols.iter().take(if symbols.len() <= 24 { symbols.len() } else { 4 }) {
                let got = ns.fits(&sym(a), &sym(b));
                if got != r.fits(a, b) {
                    return Err(("leaf-first:fits".into(), format!("after fits from the deepest defs: fits({a}, {b}) = {got}, graph says {}", r.fits(a, b))));
                }
            }
        }
        Ok(())
    })
}

fn check_reflect(ns: &'static Namespace<'static>, r: &RefNs, rec: &Tags, symbols: &[String]) -> Verdict {
    check_reflect_one(ns, r, rec, symbols)?;
    if rec.iter().any(|(k, _)| k == "id" || k == "mod" || k == "dis") {
        return Ok(());
    }
    let mut with_identity = rec.clone();
    with_identity.push(("id".into(), V::Ref("entity-1".into(), Some("Entity".into()))));
    with_identity.push(("mod".into(), V::dt(1_625_097_600, 0, "UTC")));
    with_identity.push(("dis".into(), V::str("Entity")));
    with_identity.sort_by(|a, b| a.0.cmp(&b.0));
    check_reflect_one(ns, r, &with_identity, symbols).map_err(|(s, d)| (format!("{s}:record-with-id-and-mod"), d))
}

fn check_reflect_one(ns: &'static Namespace<'static>, r: &RefNs, rec: &Tags, symbols: &[String]) -> Verdict {
    let d = match to_lib(&V::Dict(rec.clone())) {
        Value::Dict(d) => d,
        _ => unreachable!(),
    };
    let refl = ns.reflect(&d);
    let got = names(&refl.defs);
    let want = r.reflect(rec);
    if got != want {
        return Err(("reflect".into(), format!("reflect({rec:?}) = {got:?}, graph says {want:?}")));
    }
    for s in symbols {
        let want = r.reflection_fits(rec, s);
        let got = refl.fits(&sym(s));
        if got != want {
            return Err(("reflection-fits".into(), format!("reflect({rec:?}).fits({s}) = {got}, graph says {want}")));
        }
        // '^symbol' in a filter
        let f = to_lib_filter(&F::IsA(s.clone()));
        let got = f.eval(&EvalContext::make(&d, ns, &d));
        if got != want {
            return Err(("filter-isa".into(), format!("^{s} on {rec:?} = {got}, graph says {want}")));
        }
    }
    Ok(())
}

// ------------------------------------------------------------------------------ small universe

fn subsets(items: &[&str]) -> Vec<Vec<String>> {
    (0u32..(1 << items.len())).map(|m| (0..items.len()).filter(|i| m & (1 << i) != 0).map(|i| items[i].to_string()).collect()).collect()
}

fn is_list(v: &[String]) -> V {
    V::List(v.iter().map(|s| V::Sym(s.clone())).collect())
}

/// the defs rows of one namespace of the small universe
pub fn small_namespace(nsym: usize, dag: usize, conj: usize, extras: usize) -> Vec<Tags> {
    let syms = ["s0", "s1", "s2", "s3"];
    let mut rows: Vec<Tags> = vec![];
    let mut d = dag;
    for i in 0..nsym {
        let mut cands: Vec<&str> = syms[..i].to_vec();
        cands.push("zz");
        let subs = subsets(&cands);
        let pick = &subs[d % subs.len()];
        d /= subs.len();
        let mut is_ = pick.clone();
        if extras & 2 != 0 && i == 1 {
            is_.push("choice".into());
        }
        let mut t: Vec<(&str, V)> = vec![("def", V::Sym(syms[i].into()))];
        // the `is` tag itself is optional when empty
        if !(is_.is_empty() && i % 2 == 1) {
            let mut l = match is_list(&is_) {
                V::List(l) => l,
                _ => unreachable!(),
            };
            if extras & 4 != 0 {
                l.push(V::str("notASymbol"));
                l.push(V::num(1.0));
            }
            t.push(("is", V::List(l)));
        }
        rows.push(mk_tags(&t));
    }
    // conjuncts: each absent / is [] / is [last symbol] / is [zz]
    let conjs = ["s0-s1", "s1-s2", "s0-s1-s2"];
    let mut c = conj;
    for name in conjs {
        let k = c % 4;
        c /= 4;
        if name.split('-').any(|p| syms[..nsym].iter().all(|s| *s != p)) {
            continue;
        }
        match k {
            0 => {}
            1 => rows.push(mk_tags(&[("def", V::Sym(name.into())), ("is", V::List(vec![]))])),
            2 => rows.push(mk_tags(&[("def", V::Sym(name.into())), ("is", is_list(&[syms[nsym - 1].to_string()]))])),
            _ => rows.push(mk_tags(&[("def", V::Sym(name.into())), ("is", is_list(&["zz".to_string()]))])),
        }
    }
    if extras & 1 != 0 {
        rows.push(mk_tags(&[("def", V::Sym("f:k".into())), ("is", is_list(&["s0".to_string()]))]));
    }
    if extras & 2 != 0 {
        rows.push(mk_tags(&[("def", V::Sym("choice".into())), ("is", V::List(vec![]))]));
    }
    if extras & 4 != 0 {
        rows.push(mk_tags(&[("dis", V::str("a row without def")), ("is", is_list(&["s0".to_string()]))]));
        rows.push(mk_tags(&[("def", V::str("notASymbolDef")), ("is", is_list(&["s0".to_string()]))]));
    }
    rows
}

fn all_symbols(rows: &[Tags]) -> Vec<String> {
    let mut s: Vec<String> = vec!["s0".into(), "s1".into(), "s2".into(), "s3".into(), "zz".into(), "choice".into(), "f:k".into(), "s0-s1".into(), "s1-s2".into(), "s0-s1-s2".into(), "zz-s0".into(), "".into()];
    for r in rows {
        for (k, v) in r {
            if k == "def" {
                if let V::Sym(n) = v {
                    if !s.contains(n) {
                        s.push(n.clone());
                    }
                }
            }
        }
    }
    s
}

fn records_small() -> Vec<Tags> {
    // tags {s0..s3, zz} x {absent, Marker, "v"}
    let tags = ["s0", "s1", "s2", "s3", "zz"];
    let mut out = vec![];
    for code in 0..243usize {
        let mut c = code;
        let mut t: Vec<(&str, V)> = vec![];
        for tag in tags {
            match c % 3 {
                1 => t.push((tag, V::Marker)),
                2 => t.push((tag, V::str("v"))),
                _ => {}
            }
            c /= 3;
        }
        out.push(mk_tags(&t));
    }
    out
}

fn ns_class(rows: &[Tags]) -> String {
    let r = RefNs::make(rows);
    let diamond = r.is_.keys().any(|k| r.supertypes(k).len() >= 2);
    format!("defs{}{}{}", r.is_.len(), if diamond { ",multi" } else { "" }, if !r.conjuncts().is_empty() { ",conjunct" } else { "" })
}

fn check_small(nsym: usize, dag: usize, conj: usize, extras: usize, recs: &[Tags], local: &mut Local) {
    let rows = small_namespace(nsym, dag, conj, extras);
    let r = RefNs::make(&rows);
    let symbols = all_symbols(&rows);
    local.eval();
    local.nontrivial(&format!("{rows:?}"));
    if r.is_.keys().any(|k| r.supertypes(k).len() >= 2) {
        local.count("diamonds-or-multiple-inheritance");
    }
    if r.is_.values().any(|v| v.iter().any(|x| x == "zz")) {
        local.count("undefined-supertype");
    }
    let case = json!({"small": [nsym, dag, conj, extras]});
    let res = guarded(|| {
        with_ns(&rows, |ns| -> Verdict {
            check_queries(ns, &r, &symbols, true)?;
            for rec in recs {
                check_reflect(ns, &r, rec, &symbols)?;
            }
            Ok(())
        })?;
        check_leaf_first(&rows, &r, &symbols)
    });
    match res {
        Ok(Ok(())) => local.outcome("ok"),
        Ok(Err((q, d))) => local.fail(&format!("{q}:{}", ns_class(&rows)), case, d),
        Err(p) => local.fail(&format!("panic:{}", ns_class(&rows)), case, p),
    }
    if !r.conjuncts().is_empty() && recs.iter().any(|rec| r.reflect(rec).iter().any(|n| n.contains('-'))) {
        local.count("conjunct-reflected");
    }
    local.evals += (symbols.len() * symbols.len() + recs.len() * symbols.len()) as u64;
}

// ------------------------------------------------------------------------------ shaped taxonomies

fn def_row(name: &str, is_: &[String]) -> Tags {
    mk_tags(&[("def", V::Sym(name.into())), ("is", is_list(is_))])
}

/// Taxonomies that four symbols cannot express: long chains, many direct supertypes, stacked and
/// asymmetric diamonds (path counts that grow exponentially), layered lattices, conjuncts with 3
/// and 4 parts and overlapping conjuncts, names that are prefixes of each other.
pub fn shaped_namespaces() -> Vec<(String, Vec<Tags>)> {
    let mut out: Vec<(String, Vec<Tags>)> = vec![];
    let s = |x: String| x;
    // chains
    for n in (1..=40).chain([64, 100, 300]) {
        let rows: Vec<Tags> = (0..n).map(|i| def_row(&format!("c{i}"), &if i == 0 { vec![] } else { vec![format!("c{}", i - 1)] })).collect();
        out.push((format!("chain{n}"), rows));
    }
    // one def with n direct supertypes that each have a supertype of their own
    for n in (2..=40).chain([64, 100]) {
        let mut rows = vec![def_row("root", &[]), def_row("other", &[])];
        for i in 0..n {
            rows.push(def_row(&format!("m{i}"), &[if i % 2 == 0 { s("root".into()) } else { s("other".into()) }]));
        }
        rows.push(def_row("top", &(0..n).map(|i| format!("m{i}")).collect::<Vec<_>>()));
        out.push((format!("fan{n}"), rows));
    }
    // k stacked diamonds, with an independent branch listed first / last / absent in the top def
    for k in 1..=8usize {
        for branch in 0..3 {
            let mut rows = vec![def_row("j0", &[]), def_row("y", &[]), def_row("x", &["y".to_string()])];
            for i in 1..=k {
                rows.push(def_row(&format!("a{i}"), &[format!("j{}", i - 1)]));
                rows.push(def_row(&format!("b{i}"), &[format!("j{}", i - 1)]));
                let mut is_ = vec![format!("a{i}"), format!("b{i}")];
                if i == k {
                    match branch {
                        1 => is_.insert(0, "x".into()),
                        2 => is_.push("x".into()),
                        _ => {}
                    }
                }
                rows.push(def_row(&format!("j{i}"), &is_));
            }
            out.push((format!("diamonds{k}:{branch}"), rows));
        }
    }
    // layered lattices: every def of a layer is every def of the layer below
    for w in 2..=3usize {
        for h in 1..=6usize {
            let mut rows = vec![];
            for layer in 0..=h {
                for i in 0..w {
                    let is_ = if layer == 0 { vec![] } else { (0..w).map(|j| format!("l{}x{j}", layer - 1)).collect() };
                    rows.push(def_row(&format!("l{layer}x{i}"), &is_));
                }
            }
            out.push((format!("lattice{w}x{h}"), rows));
        }
    }
    // diamonds whose arms have different lengths
    for l1 in 1..=6usize {
        for l2 in 1..=6usize {
            let mut rows = vec![def_row("base", &[])];
            for (arm, len) in [("p", l1), ("q", l2)] {
                for i in 0..len {
                    rows.push(def_row(&format!("{arm}{i}"), &[if i == 0 { s("base".into()) } else { format!("{arm}{}", i - 1) }]));
                }
            }
            rows.push(def_row("top", &[format!("p{}", l1 - 1), format!("q{}", l2 - 1)]));
            out.push((format!("arms{l1}x{l2}"), rows));
        }
    }
    // a def defined twice (the later row replaces the earlier one: an extension lib re-parenting a
    // def of a base lib), identical rows twice, supertypes listed twice, rows in reverse order
    // (subtypes before their supertypes)
    {
        let basic = |mid: &str, leaf_is: &[&str]| -> Vec<Tags> {
            vec![
                def_row("root", &[]),
                def_row("equip", &["root".to_string()]),
                def_row("point", &["root".to_string()]),
                def_row("meter", &[mid.to_string()]),
                def_row("leaf", &leaf_is.iter().map(|x| x.to_string()).collect::<Vec<_>>()),
            ]
        };
        let mut rows = basic("equip", &["meter"]);
        rows.push(def_row("meter", &["point".to_string()]));
        out.push(("redefined-reparented".to_string(), rows.clone()));
        rows.push(def_row("meter", &[]));
        out.push(("redefined-twice-to-root".to_string(), rows));
        let mut rows = basic("equip", &["meter"]);
        rows.push(def_row("meter", &["equip".to_string()]));
        rows.push(def_row("leaf", &["meter".to_string()]));
        out.push(("identical-rows-twice".to_string(), rows));
        out.push(("supertype-listed-twice".to_string(), basic("equip", &["meter", "meter", "point", "meter"])));
        let mut rows = basic("equip", &["meter", "point"]);
        rows.reverse();
        out.push(("rows-reversed".to_string(), rows));
        let mut rows = vec![def_row("meter", &["point".to_string()])];
        rows.extend(basic("equip", &["meter"]));
        out.push(("redefined-first-row-loses".to_string(), rows));
    }
    // conjuncts of 2, 3 and 4 parts, overlapping, over markers that are subtypes of each other;
    // names that are prefixes of one another
    for variant in 0..16usize {
        let mut rows = vec![def_row("marker", &[]), def_row("entity", &["marker".to_string()])];
        for (i, m) in ["a", "b", "c", "d", "ab", "hot", "hotWater"].iter().enumerate() {
            let is_ = if *m == "b" && variant & 1 != 0 { vec![s("a".into())] } else { vec![s("marker".into())] };
            let _ = i;
            rows.push(def_row(m, &is_));
        }
        let conjs: Vec<(&str, &str)> = vec![("a-b", "entity"), ("b-c", "entity"), ("a-b-c", "a-b"), ("a-b-c-d", "a-b-c"), ("hot-hotWater", "entity"), ("ab-c", "entity")];
        for (ci, (name, sup)) in conjs.iter().enumerate() {
            if variant & (2 << (ci % 3)) != 0 || ci >= 3 {
                rows.push(def_row(name, &[sup.to_string()]));
            }
        }
        out.push((format!("conjuncts{variant}"), rows));
    }
    out
}

fn check_shaped(name: &str, rows: &[Tags], local: &mut Local) {
    let r = RefNs::make(rows);
    let mut symbols: Vec<String> = r.is_.keys().cloned().collect();
    symbols.push("zz".into());
    local.eval();
    local.nontrivial(name);
    local.count("shaped-namespaces");
    let case = json!({"shaped": name});
    let res = guarded(|| {
        with_ns(rows, |ns| -> Verdict {
            check_queries(ns, &r, &symbols, symbols.len() <= 110)?;
            // fits from the deepest defs to everything even for the big ones
            for a in symbols.iter().rev().take(3) {
                for b in &symbols {
                    let got = ns.fits(&sym(a), &sym(b));
                    if got != r.fits(a, b) {
                        return Err(("fits".into(), format!("fits({a}, {b}) = {got}")));
                    }
                }
            }
            // records: every single marker; every pair and every subset of the first 6 markers
            let markers: Vec<&String> = symbols.iter().filter(|s| !s.contains('-') && r.defined(s)).collect();
            let mut recs: Vec<Tags> = markers.iter().map(|m| mk_tags(&[(m.as_str(), V::Marker)])).collect();
            let core: Vec<&String> = markers.iter().copied().filter(|m| ["a", "b", "c", "d", "ab", "hot", "hotWater"].contains(&m.as_str())).collect();
            for mask in 0u32..(1 << core.len().min(7)) {
                let t: Vec<(&str, V)> = core.iter().enumerate().filter(|(i, _)| mask & (1 << i) != 0).map(|(i, m)| (m.as_str(), if mask & 0x40 != 0 && i == 0 { V::str("v") } else { V::Marker })).collect();
                recs.push(mk_tags(&t));
            }
            let probe: Vec<String> = symbols.iter().rev().take(12).cloned().chain(symbols.iter().take(6).cloned()).collect();
            for rec in &recs {
                check_reflect(ns, &r, rec, &probe)?;
            }
            Ok(())
        })?;
        check_leaf_first(rows, &r, &symbols)
    });
    match res {
        Ok(Ok(())) => local.outcome("ok"),
        Ok(Err((q, d))) => local.fail(&format!("{q}:shaped:{}", name.trim_end_matches(|c: char| c.is_ascii_digit() || c == ':' || c == 'x')), case, d),
        Err(p) => local.fail(&format!("panic:shaped:{}", name.trim_end_matches(|c: char| c.is_ascii_digit() || c == ':' || c == 'x')), case, p),
    }
    local.transitions += (symbols.len() * 8) as u64;
}

// ------------------------------------------------------------------------------ real database

pub fn real_rows() -> Vec<Tags> {
    let text = std::fs::read_to_string(format!("{}/tests/defs/defs.zinc", crate::engine::repo_dir())).unwrap_or_else(|e| crate::engine::machinery(&format!("defs.zinc: {e}")));
    // parsed by the reference reader, cross-checked against libhaystack's decode
    let refv = crate::model::zinc_ref::read(&text).unwrap_or_else(|e| crate::engine::machinery(&format!("reference reader cannot read defs.zinc: {e}")));
    let libv = libhaystack::encoding::zinc::decode::from_str(&text).unwrap_or_else(|e| crate::engine::machinery(&format!("libhaystack cannot read defs.zinc: {e}")));
    if let Err(d) = crate::model::v::same(&refv, &from_lib(&libv)) {
        crate::engine::machinery(&format!("defs.zinc: reference reader and libhaystack disagree: {d}"));
    }
    match refv {
        V::Grid(g) => g.rows,
        _ => crate::engine::machinery("defs.zinc is not a grid"),
    }
}

pub fn run(tier: Tier) -> i32 {
    let mut run = Run::new("C13", tier, "model_checking");
    run.rule = "every defs grid over symbols s0..s(n-1) (n = 3 quick, 4 thorough) where is(si) ranges over all subsets of {s0..s(i-1), undefined zz} (all DAGs incl. diamonds and multiple inheritance), crossed with every assignment absent / is[] / is[s_last] / is[zz] to the conjuncts s0-s1, s1-s2, s0-s1-s2 and the 8 combinations of: feature key f:k, a `choice` root, rows without def / with non-Symbol def and non-Symbol `is` entries; for each namespace every query (supertypes_of, all_supertypes_of, subtypes_of, all_subtypes_of, inheritance, choices_for, has_subtype, has/get, conjuncts_defs, fits on all ordered pairs, and Reflection::make over one / two / no defs — not closed under supertypes — .fits on all pairs) on 12+ symbol names incl. undefined ones, and reflect + Reflection::fits + the filter `^sym` on all 243 records (each also carrying `id`, `mod` and `dis` — the same id and mod throughout) over {s0..s3, zz} x {absent, Marker, \"v\"}. Plus ~190 shaped taxonomies that four symbols cannot express (chains of every length 1..40, 64, 100, 300; one def with 2..40, 64, 100 direct supertypes; 1..8 stacked diamonds with an independent branch listed first / last / absent; layered lattices 2-3 wide and 1-6 high; diamonds with arms of lengths 1..6 x 1..6; 2-, 3- and 4-part and overlapping conjuncts over markers that are subtypes of each other and names that are prefixes of one another; a def defined twice / re-parented by a later row, identical rows twice, a supertype listed twice, rows in reverse order): all queries on all symbols, fits on all pairs, reflect on every single-marker record and every subset of a 7-marker core. Plus tests/defs/defs.zinc: all symbols for the unary queries, all ordered pairs for fits (quick: a 300-symbol prefix), reflect on every 1- and 2-tag marker record of a tag core and on the tag set of every conjunct. Every small and shaped namespace is asked three times on fresh namespaces: roots-first (everything), deepest-first (inheritance on every symbol, then every unary query; fits on all pairs up to 24 symbols), and fits-first from the six deepest defs then all pairs. Oracle: adjacency map built from the `is` lists (answers compared as sets of def names). states = namespaces, transitions = queries".into();
    run.assume("cyclic `is` graphs are outside the statement and not generated");
    run.assume("answers are compared as sets of def names (the statement does not fix an order)");
    crate::engine::quiet_panics();
    let nsym = tier.pick(3usize, 4);
    let ndags: usize = (0..nsym).map(|i| 1usize << (i + 1)).product();
    let recs_all = records_small();
    let recs: Vec<Tags> = if tier == Tier::Quick { recs_all.iter().filter(|r| !r.iter().any(|(k, _)| k == "s3")).cloned().collect() } else { recs_all };
    let jobs = ndags * 64 * 8;
    run.note("small_namespaces", json!(jobs));
    let l = par_for(jobs, |j, local| {
        let dag = j % ndags;
        let conj = (j / ndags) % 64;
        let extras = j / ndags / 64;
        check_small(nsym, dag, conj, extras, &recs, local);
        local.states += 1;
        local.transitions += 1;
    });
    run.absorb(l);

    // shaped taxonomies
    let shaped = shaped_namespaces();
    run.note("shaped_namespaces", json!(shaped.len()));
    let l = crate::engine::par_for_stack(shaped.len(), 256 << 20, |i, local| {
        check_shaped(&shaped[i].0, &shaped[i].1, local);
        local.states += 1;
    });
    run.absorb(l);
    run.require(run.counter("shaped-namespaces") > 150, "shaped taxonomies missing");

    // real database
    let rows = real_rows();
    let r = RefNs::make(&rows);
    let mut symbols: Vec<String> = r.is_.keys().cloned().collect();
    symbols.push("notDefinedAnywhere".into());
    run.note("real_defs", json!(r.is_.len()));
    let rows2 = rows.clone();
    let res = guarded(|| {
        with_ns(&rows2, |ns| {
            // unary queries: all symbols
            let l = par_for(symbols.len(), |i, local| {
                local.eval();
                local.transitions += 1;
                local.nontrivial(&symbols[i]);
                if let Err((q, d)) = check_queries(ns, &r, &symbols[i..i + 1], false) {
                    local.fail(&format!("{q}:real-defs"), json!({"real": true, "symbol": symbols[i]}), d);
                }
            });
            // fits: all ordered pairs (quick: prefix)
            let n = tier.pick(300usize.min(symbols.len()), symbols.len());
            let l2 = par_for(n, |i, local| {
                for b in symbols.iter() {
                    local.eval();
                    let got = ns.fits(&sym(&symbols[i]), &sym(b));
                    if got != r.fits(&symbols[i], b) {
                        local.fail("fits:real-defs", json!({"real": true, "a": symbols[i], "b": b}), format!("fits({}, {b}) = {got}", symbols[i]));
                    }
                }
                local.count_n("real-fits-pairs", symbols.len() as u64);
                local.transitions += symbols.len() as u64;
            });
            // reflect: 1- and 2-tag marker records over a tag core, and the tag set of every conjunct
            let core: Vec<String> = ["site", "equip", "point", "ahu", "hot", "water", "plant", "air", "temp", "sensor", "elec", "meter", "zone", "space", "chilled", "vav", "discharge", "cmd", "sp", "his"].iter().filter(|s| r.defined(s)).map(|s| s.to_string()).collect();
            let mut recs: Vec<Tags> = vec![];
            for a in &core {
                recs.push(mk_tags(&[(a.as_str(), V::Marker)]));
                for b in &core {
                    if a < b {
                        recs.push(mk_tags(&[(a.as_str(), V::Marker), (b.as_str(), V::Marker)]));
                    }
                }
            }
            for c in r.conjuncts() {
                let t: Vec<(&str, V)> = c.split('-').map(|p| (p, V::Marker)).collect();
                recs.push(mk_tags(&t));
            }
            let probe: Vec<String> = ["equip", "entity", "marker", "site", "point", "hot-water-plant", "ahu", "airHandlingEquip", "val", "notDefinedAnywhere"].iter().map(|s| s.to_string()).collect();
            let l3 = par_for(recs.len(), |i, local| {
                local.eval();
                local.transitions += 1;
                local.count("real-reflect-records");
                if let Err((q, d)) = check_reflect(ns, &r, &recs[i], &probe) {
                    local.fail(&format!("{q}:real-defs"), json!({"real": true, "record": to_json(&V::Dict(recs[i].clone()))}), d);
                }
            });
            let mut all = l;
            all.merge(l2);
            all.merge(l3);
            all
        })
    });
    match res {
        Ok(l) => run.absorb(l),
        Err(p) => run.stats.fail("panic:real-defs", json!({"real": true}), p),
    }
    run.stats.states += 1;
    run.stats.traces = run.stats.transitions;
    run.require(run.counter("diamonds-or-multiple-inheritance") > 0 && run.counter("conjunct-reflected") > 0 && run.counter("undefined-supertype") > 0, "diamond / conjunct / undefined supertype not covered");
    run.require(r.is_.len() > 500 && run.counter("real-fits-pairs") > 100_000, "real database not swept");
    run.stats.samples = vec![json!({"defs": to_json(&V::List(small_namespace(3, 21, 6, 1).into_iter().map(V::Dict).collect()))}), json!({"real": "fits(ahu, equip)"}), json!({"real_reflect": {"hot": "M", "water": "M", "plant": "M"}})];
    run.finish(&replay)
}

pub fn replay(case: &J) -> Verdict {
    if let Some(name) = case["shaped"].as_str() {
        let all = shaped_namespaces();
        let Some((n, rows)) = all.iter().find(|(n, _)| n == name) else {
            return Err(("replay-shape-unknown".into(), name.to_string()));
        };
        let mut l = Local::new();
        check_shaped(n, rows, &mut l);
        return match l.fails.values().next() {
            Some(f) => Err((f.sig.clone(), f.detail.clone())),
            None => Ok(()),
        };
    }
    if let Some(a) = case.get("small").and_then(|x| x.as_array()) {
        let p: Vec<usize> = a.iter().map(|x| x.as_u64().unwrap() as usize).collect();
        let rows = small_namespace(p[0], p[1], p[2], p[3]);
        let r = RefNs::make(&rows);
        let symbols = all_symbols(&rows);
        let recs = records_small();
        let res = guarded(|| {
            with_ns(&rows, |ns| -> Verdict {
                check_queries(ns, &r, &symbols, true)?;
                for rec in &recs {
                    check_reflect(ns, &r, rec, &symbols)?;
                }
                Ok(())
            })?;
            check_leaf_first(&rows, &r, &symbols)
        });
        return match res {
            Ok(Ok(())) => Ok(()),
            Ok(Err((q, d))) => Err((format!("{q}:{}", ns_class(&rows)), d)),
            Err(p) => Err((format!("panic:{}", ns_class(&rows)), p)),
        };
    }
    let rows = real_rows();
    let r = RefNs::make(&rows);
    let res = guarded(|| {
        with_ns(&rows, |ns| -> Verdict {
            if let Some(s) = case["symbol"].as_str() {
                return check_queries(ns, &r, &[s.to_string()], false).map_err(|(q, d)| (format!("{q}:real-defs"), d));
            }
            if let (Some(a), Some(b)) = (case["a"].as_str(), case["b"].as_str()) {
                let got = ns.fits(&sym(a), &sym(b));
                if got != r.fits(a, b) {
                    return Err(("fits:real-defs".into(), format!("fits({a}, {b}) = {got}")));
                }
                return Ok(());
            }
            if let Some(rec) = case.get("record") {
                if let V::Dict(t) = from_json(rec) {
                    let probe: Vec<String> = ["equip", "entity", "marker", "site", "point", "hot-water-plant", "ahu", "airHandlingEquip", "val", "notDefinedAnywhere"].iter().map(|s| s.to_string()).collect();
                    return check_reflect(ns, &r, &t, &probe).map_err(|(q, d)| (format!("{q}:real-defs"), d));
                }
            }
            Ok(())
        })
    });
    match res {
        Ok(v) => v,
        Err(p) => Err(("panic:real-defs".into(), p)),
    }
}
