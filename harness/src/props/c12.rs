//! C12 — Value equality, hashing and ordering are mutually consistent (DESIGN §5 C12).
//! Exhaustive over all pairs and triples of a near-collision pool, for `Value` and for each typed
//! value that implements the traits.

use super::common::Verdict;
use crate::engine::{guarded, par_for, Local, Run, Tier};
use crate::model::shrink::shape_sig;
use crate::model::universe as u;
use crate::model::v::{from_json, mk_tags, to_json, to_lib, Col, G, V};
use libhaystack::val::*;
use serde_json::{json, Value as J};
use std::cmp::Ordering;
use std::collections::hash_map::DefaultHasher;
use std::collections::{BTreeMap, BTreeSet, HashSet};
use std::fmt::Debug;
use std::hash::{Hash, Hasher};

/// second, structurally different hasher (FNV-1a over the byte stream)
struct Fnv(u64);
impl Hasher for Fnv {
    fn finish(&self) -> u64 {
        self.0
    }
    fn write(&mut self, bytes: &[u8]) {
        for b in bytes {
            self.0 ^= *b as u64;
            self.0 = self.0.wrapping_mul(0x100000001b3);
        }
    }
}

fn h1<T: Hash>(t: &T) -> u64 {
    let mut h = DefaultHasher::new();
    t.hash(&mut h);
    h.finish()
}
fn h2<T: Hash>(t: &T) -> u64 {
    let mut h = Fnv(0xcbf29ce484222325);
    t.hash(&mut h);
    h.finish()
}

fn grid(ver: &str, meta: Option<Vec<(&str, V)>>, cols: Vec<(&str, Option<Vec<(&str, V)>>)>, rows: Vec<Vec<(&str, V)>>) -> V {
    V::Grid(Box::new(G {
        ver: ver.into(),
        meta: meta.map(|m| mk_tags(&m)),
        cols: cols.into_iter().map(|(n, m)| Col { name: n.into(), meta: m.map(|m| mk_tags(&m)) }).collect(),
        rows: rows.into_iter().map(|r| mk_tags(&r)).collect(),
    }))
}

/// The near-collision pool Π (no NaN: excluded by the statement).
pub fn pool(tier: Tier) -> Vec<V> {
    let mut p: Vec<V> = vec![V::Null, V::Marker, V::Remove, V::Na, V::Bool(true), V::Bool(false)];
    // numbers: ±0, same magnitude under different / absent units, neighbours
    let mags = [0.0, -0.0, 1.0, 1.0000000000000002, -1.0, 2.0, f64::INFINITY, f64::NEG_INFINITY];
    for &m in &mags {
        p.push(V::num(m));
    }
    for un in ["m", "s", "kW", "%"] {
        for &m in &[0.0, -0.0, 1.0, 2.0] {
            p.push(V::numu(m, un));
        }
    }
    // same payload under different kinds
    for s in ["a", "b", "", "a-b"] {
        p.push(V::str(s));
        p.push(V::Uri(s.into()));
        if !s.is_empty() {
            p.push(V::Sym(s.into()));
            p.push(V::Ref(s.into(), None));
            p.push(V::Ref(s.into(), Some("x".into())));
            p.push(V::Ref(s.into(), Some("y".into())));
        }
        p.push(V::XStr("A".into(), s.into()));
        p.push(V::XStr("B".into(), s.into()));
    }
    // coords with ±0
    for (a, b) in [(0.0, 0.0), (-0.0, 0.0), (0.0, -0.0), (-0.0, -0.0), (1.0, 0.0), (0.0, 1.0), (1.0, -0.0), (1.0, 2.0)] {
        p.push(V::Coord(a, b));
    }
    // dates / times / timestamps: neighbours and equal instants in different zones
    p.push(V::Date(2021, 1, 1));
    p.push(V::Date(2021, 1, 2));
    p.push(V::Date(2020, 12, 31));
    p.push(V::Time(0, 0, 0, 0));
    p.push(V::Time(0, 0, 0, 1));
    p.push(V::Time(12, 0, 0, 0));
    for z in ["UTC", "America/New_York", "Australia/Sydney", "Asia/Kolkata", "Etc/UTC"] {
        p.push(V::dt(1_625_097_600, 0, z));
        p.push(V::dt(1_625_097_600, 1, z));
    }
    p.push(V::dt(1_625_097_601, 0, "UTC"));
    if tier == Tier::Quick {
        // containers over a small core
        let core = vec![V::num(0.0), V::num(-0.0), V::numu(1.0, "m"), V::numu(1.0, "s"), V::num(1.0), V::num(2.0), V::Ref("a".into(), None), V::Ref("a".into(), Some("x".into()))];
        for c in &core {
            p.push(V::List(vec![c.clone()]));
            p.push(V::dict(&[("a", c.clone())]));
        }
    } else {
        let scal: Vec<V> = p.clone();
        for c in &scal {
            p.push(V::List(vec![c.clone()]));
            p.push(V::dict(&[("a", c.clone())]));
        }
    }
    // lists that are prefixes of each other
    p.push(V::List(vec![]));
    p.push(V::List(vec![V::num(1.0), V::num(2.0)]));
    p.push(V::List(vec![V::num(1.0), V::num(2.0), V::num(3.0)]));
    p.push(V::List(vec![V::num(2.0)]));
    // dicts differing in one key / one value / prefix relation
    p.push(V::Dict(vec![]));
    p.push(V::dict(&[("a", V::num(2.0)), ("b", V::num(1.0))]));
    p.push(V::dict(&[("a", V::num(1.0)), ("c", V::num(1.0))]));
    p.push(V::dict(&[("a", V::num(1.0)), ("b", V::num(1.0))]));
    p.push(V::dict(&[("a", V::num(1.0)), ("b", V::num(2.0))]));
    p.push(V::dict(&[("b", V::num(1.0))]));
    p.push(V::dict(&[("a", V::num(1.0)), ("b", V::num(1.0)), ("c", V::num(0.0))]));
    p.push(V::dict(&[("a", V::Marker)]));
    p.push(V::dict(&[("a", V::dict(&[("a", V::num(2.0)), ("b", V::num(1.0))]))]));
    p.push(V::dict(&[("a", V::dict(&[("a", V::num(1.0)), ("c", V::num(1.0))]))]));
    // grids differing in meta / column meta / row order / ver / rows
    let r1 = vec![("a", V::num(1.0))];
    let r2 = vec![("a", V::num(2.0))];
    p.push(grid("3.0", None, vec![("a", None)], vec![]));
    p.push(grid("3.0", Some(vec![]), vec![("a", None)], vec![]));
    p.push(grid("2.0", None, vec![("a", None)], vec![]));
    p.push(grid("3.0", Some(vec![("m", V::Marker)]), vec![("a", None)], vec![]));
    p.push(grid("3.0", None, vec![("a", Some(vec![("m", V::Marker)]))], vec![]));
    p.push(grid("3.0", None, vec![("a", None)], vec![r1.clone(), r2.clone()]));
    p.push(grid("3.0", None, vec![("a", None)], vec![r2.clone(), r1.clone()]));
    p.push(grid("3.0", None, vec![("a", None)], vec![r1.clone()]));
    p.push(grid("3.0", None, vec![("a", None), ("b", None)], vec![r1.clone()]));
    p.push(grid("3.0", Some(vec![("a", V::num(2.0)), ("b", V::num(1.0))]), vec![("a", None)], vec![]));
    p.push(grid("3.0", Some(vec![("a", V::num(1.0)), ("c", V::num(1.0))]), vec![("a", None)], vec![]));
    p.push(grid("3.0", None, vec![("a", None)], vec![vec![("a", V::numu(1.0, "m"))]]));
    p.push(grid("3.0", None, vec![("a", None)], vec![vec![("a", V::numu(1.0, "s"))]]));
    p.push(grid("3.0", None, vec![("a", None)], vec![vec![("a", V::num(0.0))]]));
    p.push(grid("3.0", None, vec![("a", None)], vec![vec![("a", V::num(-0.0))]]));
    p
}

#[derive(Clone)]
struct Item<T> {
    val: T,
    desc: String,
    json: J,
}

fn fail(local: &mut Local, law: &str, ty: &str, items: &[&Item<impl Sized>], detail: String) {
    let descs: Vec<&str> = items.iter().map(|i| i.desc.as_str()).collect();
    let sig = format!("{law}:{ty}:{}", descs.join("/"));
    let case = json!({"type": ty, "law": law, "values": items.iter().map(|i| i.json.clone()).collect::<Vec<_>>()});
    local.fail(&sig, case, detail);
}

/// All pair and triple laws over one typed pool. `partial` = the type's partial_cmp.
fn laws<T>(ty: &str, pool: &[Item<T>], local: &mut Local, partial: &dyn Fn(&T, &T) -> Option<Ordering>)
where
    T: Eq + Hash + Ord + Clone + Debug,
{
    let n = pool.len();
    let mut eq = vec![false; n * n];
    let mut cm = vec![Ordering::Equal; n * n];
    for i in 0..n {
        let a = &pool[i];
        local.eval();
        if !(a.val == a.val) {
            fail(local, "eq-reflexive", ty, &[a], format!("{:?} != itself", a.val));
        }
        let c = a.val.clone();
        if !(c == a.val) || h1(&c) != h1(&a.val) {
            fail(local, "clone-equals-original", ty, &[a], format!("clone of {:?} differs", a.val));
        }
        for j in 0..n {
            let b = &pool[j];
            local.eval();
            let e = a.val == b.val;
            let o = a.val.cmp(&b.val);
            eq[i * n + j] = e;
            cm[i * n + j] = o;
            if i != j {
                local.nontrivial(&format!("{ty}|{}|{}", a.json, b.json));
            }
            if e != (b.val == a.val) {
                fail(local, "eq-symmetric", ty, &[a, b], format!("{:?} == {:?} is {e} but the converse is {}", a.val, b.val, !e));
            }
            if (a.val != b.val) == e {
                fail(local, "ne-is-not-eq", ty, &[a, b], format!("{:?} vs {:?}: != and == agree", a.val, b.val));
            }
            if e && (h1(&a.val) != h1(&b.val) || h2(&a.val) != h2(&b.val)) {
                fail(local, "eq-implies-hash", ty, &[a, b], format!("{:?} == {:?} but their hashes differ", a.val, b.val));
            }
            if o != b.val.cmp(&a.val).reverse() {
                fail(local, "cmp-antisymmetric", ty, &[a, b], format!("cmp({:?},{:?})={o:?} but reverse is {:?}", a.val, b.val, b.val.cmp(&a.val)));
            }
            if (o == Ordering::Equal) != e {
                fail(local, "cmp-equal-iff-eq", ty, &[a, b], format!("cmp({:?},{:?})={o:?} but == is {e}", a.val, b.val));
            }
            if let Some(p) = partial(&a.val, &b.val) {
                if p != o {
                    fail(local, "partial-agrees-with-total", ty, &[a, b], format!("partial_cmp({:?},{:?})=Some({p:?}) but cmp={o:?}", a.val, b.val));
                }
            }
            if e {
                local.outcome("equal");
                if i != j {
                    local.count(&format!("equal-but-not-identical:{ty}"));
                }
            } else {
                local.outcome(match o {
                    Ordering::Less => "less",
                    Ordering::Greater => "greater",
                    Ordering::Equal => "cmp-equal-but-ne",
                });
            }
        }
    }
    // triples on the matrices
    for i in 0..n {
        for j in 0..n {
            let eij = eq[i * n + j];
            let cij = cm[i * n + j];
            for k in 0..n {
                local.evals += 1;
                if eij && eq[j * n + k] && !eq[i * n + k] {
                    fail(local, "eq-transitive", ty, &[&pool[i], &pool[j], &pool[k]], "a==b, b==c, a!=c".into());
                }
                if cij != Ordering::Greater && cm[j * n + k] != Ordering::Greater && cm[i * n + k] == Ordering::Greater {
                    fail(local, "cmp-transitive", ty, &[&pool[i], &pool[j], &pool[k]], format!(
                        "a<=b ({:?}), b<=c ({:?}) but a>c: a={:?} b={:?} c={:?}", cij, cm[j * n + k], pool[i].val, pool[j].val, pool[k].val));
                }
            }
        }
    }
    // consequences: collections see exactly the ==-classes
    let mut classes: Vec<usize> = vec![];
    for i in 0..n {
        if !classes.iter().any(|&c| eq[c * n + i]) {
            classes.push(i);
        }
    }
    let nclasses = classes.len();
    let hs: HashSet<T, std::hash::BuildHasherDefault<DefaultHasher>> = pool.iter().map(|i| i.val.clone()).collect();
    let bs: BTreeSet<T> = pool.iter().map(|i| i.val.clone()).collect();
    let bm: BTreeMap<&T, usize> = pool.iter().enumerate().map(|(i, it)| (&it.val, i)).collect();
    let mut sorted: Vec<T> = pool.iter().map(|i| i.val.clone()).collect();
    sorted.sort();
    sorted.dedup();
    local.eval();
    for (name, got) in [("HashSet", hs.len()), ("BTreeSet", bs.len()), ("BTreeMap-keys", bm.len()), ("sort+dedup", sorted.len())] {
        if got != nclasses {
            let sig = format!("collection-size:{ty}:{name}");
            local.fail(&sig, json!({"type": ty, "law": "collection-size", "collection": name}), format!("{name} of the {n}-value pool has {got} elements, == has {nclasses} classes"));
        }
    }
    local.count_n(&format!("classes:{ty}"), nclasses as u64);
}

fn items(vs: &[V]) -> Vec<Item<Value>> {
    vs.iter().map(|v| Item { val: to_lib(v), desc: shape_sig(v), json: to_json(v) }).collect()
}

fn typed<T: Clone>(all: &[Item<Value>], pick: &dyn Fn(&Value) -> Option<T>) -> Vec<Item<T>> {
    all.iter().filter_map(|i| pick(&i.val).map(|t| Item { val: t, desc: i.desc.clone(), json: i.json.clone() })).collect()
}

fn run_type(ty: &str, all: &[Item<Value>], local: &mut Local) {
    macro_rules! go {
        ($pat:path, $t:ty) => {{
            let p: Vec<Item<$t>> = typed(all, &|v| match v {
                $pat(x) => Some(x.clone()),
                _ => None,
            });
            laws(ty, &p, local, &|a: &$t, b: &$t| a.partial_cmp(b));
        }};
    }
    match ty {
        "Value" => laws(ty, all, local, &|a: &Value, b: &Value| a.partial_cmp(b)),
        "Number" => go!(Value::Number, Number),
        "Coord" => go!(Value::Coord, Coord),
        "Ref" => go!(Value::Ref, Ref),
        "Str" => go!(Value::Str, Str),
        "Uri" => go!(Value::Uri, Uri),
        "Symbol" => go!(Value::Symbol, Symbol),
        "XStr" => go!(Value::XStr, XStr),
        "Bool" => go!(Value::Bool, Bool),
        "List" => go!(Value::List, List),
        "Dict" => go!(Value::Dict, Dict),
        "Grid" => go!(Value::Grid, Grid),
        "Column" => {
            let mut cols: Vec<Item<Column>> = vec![];
            for i in all {
                if let Value::Grid(g) = &i.val {
                    for c in &g.columns {
                        cols.push(Item { val: c.clone(), desc: i.desc.clone(), json: i.json.clone() });
                    }
                }
            }
            laws(ty, &cols, local, &|a: &Column, b: &Column| a.partial_cmp(b));
        }
        // Date, Time, DateTime implement Eq + Ord but not Hash on the wrapper; hash through Value
        "Date" | "Time" | "DateTime" => {
            let p: Vec<Item<Value>> = all
                .iter()
                .filter(|i| matches!((&i.val, ty), (Value::Date(_), "Date") | (Value::Time(_), "Time") | (Value::DateTime(_), "DateTime")))
                .cloned()
                .collect();
            laws(ty, &p, local, &|a: &Value, b: &Value| match (a, b) {
                (Value::Date(x), Value::Date(y)) => x.partial_cmp(y),
                (Value::Time(x), Value::Time(y)) => x.partial_cmp(y),
                (Value::DateTime(x), Value::DateTime(y)) => x.partial_cmp(y),
                _ => None,
            });
        }
        _ => unreachable!(),
    }
}

const TYPES: &[&str] = &["Value", "Number", "Coord", "Ref", "Str", "Uri", "Symbol", "XStr", "Bool", "List", "Dict", "Grid", "Column", "Date", "Time", "DateTime"];

/// Unit: Eq + Hash + PartialOrd over all database units
fn unit_laws(local: &mut Local) {
    let units: Vec<&'static libhaystack::units::Unit> = {
        let mut v: Vec<_> = libhaystack::units::units_generated::UNITS.values().copied().collect();
        v.sort_by(|a, b| a.name().cmp(b.name()));
        v.dedup_by(|a, b| std::ptr::eq(*a, *b));
        v
    };
    for a in &units {
        for b in &units {
            local.eval();
            let e = a == b;
            if e != (b == a) {
                local.fail("eq-symmetric:Unit", json!({"type":"Unit","a":a.name(),"b":b.name()}), format!("{} vs {}", a.name(), b.name()));
            }
            if e && (h1(a) != h1(b) || h2(a) != h2(b)) {
                local.fail("eq-implies-hash:Unit", json!({"type":"Unit","a":a.name(),"b":b.name()}), format!("{} == {} but hashes differ", a.name(), b.name()));
            }
            if e != std::ptr::eq(*a, *b) && e {
                local.count("unit-equal-distinct-pointers");
            }
            if let Some(o) = a.partial_cmp(b) {
                if (o == Ordering::Equal) != e {
                    local.fail("partial-equal-iff-eq:Unit", json!({"type":"Unit","a":a.name(),"b":b.name()}), format!("partial_cmp({}, {}) = {o:?} but == is {e}", a.name(), b.name()));
                }
            }
        }
    }
    local.count_n("units", units.len() as u64);
}

pub fn run(tier: Tier) -> i32 {
    let mut run = Run::new("C12", tier, "exploration");
    run.rule = "near-collision pool Π (±0 plain/with unit/in Coord/nested, same magnitude under different or no unit, Refs differing only in dis, same payload under different kinds, dict/list/grid neighbours, equal instants in different zones); every law on all |Π|² ordered pairs and all |Π|³ triples, for Value and each typed value; non-trivial = ordered pair of two different pool entries (distinct by type + both values)".into();
    run.assume("no NaN anywhere (excluded by the statement)");
    run.assume("SipHash (DefaultHasher) and FNV-1a stand for 'any Hasher'");
    crate::engine::quiet_panics();
    let p = pool(tier);
    run.note("pool_size", json!(p.len()));
    let all = items(&p);
    let l = par_for(TYPES.len() + 1, |i, local| {
        if i == TYPES.len() {
            unit_laws(local);
            return;
        }
        if let Err(m) = guarded(|| run_type(TYPES[i], &all, local)) {
            local.fail(&format!("panic:{}", TYPES[i]), json!({"type": TYPES[i], "law": "no-panic"}), m);
        }
    });
    run.absorb(l);
    for t in ["Value", "Number", "Coord", "Ref", "Dict", "Grid", "List"] {
        run.require(run.counter(&format!("equal-but-not-identical:{t}")) > 0, &format!("no equal-but-not-identical pair of type {t}"));
    }
    run.require(run.counter("units") >= 400, "fewer than 400 units");
    run.stats.samples = vec![
        json!({"pair": [to_json(&V::num(0.0)), to_json(&V::num(-0.0))]}),
        json!({"pair": [to_json(&V::numu(1.0, "m")), to_json(&V::numu(1.0, "s"))]}),
        json!({"pair": [to_json(&V::dict(&[("a", V::num(2.0)), ("b", V::num(1.0))])), to_json(&V::dict(&[("a", V::num(1.0)), ("c", V::num(1.0))]))]}),
    ];
    run.finish(&replay)
}

pub fn replay(case: &J) -> Verdict {
    let ty = case["type"].as_str().unwrap_or("Value").to_string();
    let law = case["law"].as_str().unwrap_or("").to_string();
    let mut local = Local::new();
    if ty == "Unit" {
        unit_laws(&mut local);
    } else if law == "collection-size" || law == "no-panic" {
        let all = items(&pool(Tier::Thorough));
        let all_q = items(&pool(Tier::Quick));
        if let Err(m) = guarded(|| {
            run_type(&ty, &all_q, &mut local);
            run_type(&ty, &all, &mut local)
        }) {
            return Err((format!("panic:{ty}"), m));
        }
    } else {
        let vs: Vec<V> = case["values"].as_array().map(|a| a.iter().map(from_json).collect()).unwrap_or_default();
        let all = items(&vs);
        if let Err(m) = guarded(|| run_type(&ty, &all, &mut local)) {
            return Err((format!("panic:{ty}"), m));
        }
    }
    // the recorded law must fail again on exactly this ordered tuple
    let descs: Vec<String> = case["values"].as_array().map(|a| a.iter().map(|j| shape_sig(&from_json(j))).collect()).unwrap_or_default();
    let want = if law == "collection-size" {
        format!("collection-size:{ty}:{}", case["collection"].as_str().unwrap_or(""))
    } else {
        format!("{law}:{ty}:{}", descs.join("/"))
    };
    let mut hits: Vec<_> = local
        .fails
        .values()
        .filter(|f| f.sig == want || (ty == "Unit" && f.sig.ends_with(":Unit")) || (law == "no-panic" && f.sig.starts_with("panic:")))
        .collect();
    hits.sort_by(|a, b| a.sig.cmp(&b.sig));
    match hits.first() {
        Some(f) => Err((f.sig.clone(), f.detail.clone())),
        None => Ok(()),
    }
}
