//! C12 — Value equality, hashing and ordering are mutually consistent (DESIGN §5 C12).
//! Exhaustive over all pairs and triples of a near-collision pool, for `Value` and for each typed
//! value that implements the traits.

use super::common::Verdict;
use crate::engine::{guarded, par_for, Local, Run, Tier};
use crate::model::shrink::shape_sig;
use crate::model::universe as u;
use crate::model::v::{from_json, mk_tags, to_json, to_lib, Col, G, V};
use libhaystack::val::*;
use serde_json::{json, Value as J};
use std::cmp::Ordering;
use std::collections::hash_map::DefaultHasher;
use std::collections::{BTreeMap, BTreeSet, HashSet};
use std::fmt::Debug;
use std::hash::{Hash, Hasher};

/// second, structurally different hasher (FNV-1a over the byte stream)
struct Fnv(u64);
impl Hasher for Fnv {
    fn finish(&self) -> u64 {
        self.0
    }
    fn write(&mut self, bytes: &[u8]) {
        for b in bytes {
            self.0 ^= *b as u64;
            self.0 = self.0.wrapping_mul(0x100000001b3);
        }
    }
}

fn h1<T: Hash>(t: &T) -> u64 {
    let mut h = DefaultHasher::new();
    t.hash(&mut h);
    h.finish()
}
fn h2<T: Hash>(t: &T) -> u64 {
    let mut h = Fnv(0xcbf29ce484222325);
    t.hash(&mut h);
    h.finish()
}

fn grid(ver: &str, meta: Option<Vec<(&str, V)>>, cols: Vec<(&str, Option<Vec<(&str, V)>>)>, rows: Vec<Vec<(&str, V)>>) -> V {
    V::Grid(Box::new(G {
        ver: ver.into(),
        meta: meta.map(|m| mk_tags(&m)),
        cols: cols.into_iter().map(|(n, m)| Col { name: n.into(), meta: m.map(|m| mk_tags(&m)) }).collect(),
        rows: rows.into_iter().map(|r| mk_tags(&r)).collect(),
    }))
}

/// The near-collision pool Π (no NaN: excluded by the statement).
pub fn pool(tier: Tier) -> Vec<V> {
    let mut p: Vec<V> = vec![V::Null, V::Marker, V::Remove, V::Na, V::Bool(true), V::Bool(false)];
    // numbers: ±0, same magnitude under different / absent units, neighbours
    let mags = [0.0, -0.0, 1.0, 1.0000000000000002, -1.0, 2.0, f64::INFINITY, f64::NEG_INFINITY];
    for &m in &mags {
        p.push(V::num(m));
    }
    for un in ["m", "s", "kW", "%"] {
        for &m in &[0.0, -0.0, 1.0, 2.0] {
            p.push(V::numu(m, un));
        }
    }
    // same payload under different kinds
    for s in ["a", "b", "", "a-b"] {
        p.push(V::str(s));
        p.push(V::Uri(s.into()));
        if !s.is_empty() {
            p.push(V::Sym(s.into()));
            p.push(V::Ref(s.into(), None));
            p.push(V::Ref(s.into(), Some("x".into())));
            p.push(V::Ref(s.into(), Some("y".into())));
        }
        p.push(V::XStr("A".into(), s.into()));
        p.push(V::XStr("B".into(), s.into()));
    }
    // coords with ±0
    for (a, b) in [(0.0, 0.0), (-0.0, 0.0), (0.0, -0.0), (-0.0, -0.0), (1.0, 0.0), (0.0, 1.0), (1.0, -0.0), (1.0, 2.0)] {
        p.push(V::Coord(a, b));
    }
    // dates / times / timestamps: neighbours and equal instants in different zones
    p.push(V::Date(2021, 1, 1));
    p.push(V::Date(2021, 1, 2));
    p.push(V::Date(2020, 12, 31));
    p.push(V::Time(0, 0, 0, 0));
    p.push(V::Time(0, 0, 0, 1));
    p.push(V::Time(12, 0, 0, 0));
    for z in ["UTC", "America/New_York", "Australia/Sydney", "Asia/Kolkata", "Etc/UTC"] {
        p.push(V::dt(1_625_097_600, 0, z));
        p.push(V::dt(1_625_097_600, 1, z));
    }
    p.push(V::dt(1_625_097_601, 0, "UTC"));
    // instants far from the present: before 1678 and after 2262 (outside the range of a 64-bit
    // nanosecond count), year 1 and year 9999, in two zones each, one nanosecond apart
    for secs in [-62_135_596_800i64, -30_610_224_000, -9_214_560_000, 9_300_000_000, 10_413_792_000, 13_569_465_600, 253_402_300_799] {
        for z in ["UTC", "America/New_York"] {
            p.push(V::dt(secs, 0, z));
        }
        p.push(V::dt(secs, 1, "UTC"));
    }
    if tier == Tier::Quick {
        // containers over a small core
        let core = vec![V::num(0.0), V::num(-0.0), V::numu(1.0, "m"), V::numu(1.0, "s"), V::num(1.0), V::num(2.0), V::Ref("a".into(), None), V::Ref("a".into(), Some("x".into()))];
        for c in &core {
            p.push(V::List(vec![c.clone()]));
            p.push(V::dict(&[("a", c.clone())]));
        }
    } else {
        let scal: Vec<V> = p.clone();
        for c in &scal {
            p.push(V::List(vec![c.clone()]));
            p.push(V::dict(&[("a", c.clone())]));
        }
    }
    // differences far from the start: long strings sharing a prefix, the last of six elements, a
    // middle key of five, a leaf four levels down; case / blank / NUL / normalisation neighbours
    for (x, y) in [("aaaaaaaaaaaaaaaaab", "aaaaaaaaaaaaaaaaac"), ("aaaaaaaaa", "aaaaaaaaab"), ("Straße", "Strasse"), ("e\u{301}", "\u{e9}"), ("abc", "ABC"), ("abc", "abc "), ("abc", "abc\u{0}"), ("x".repeat(40).as_str(), ("x".repeat(39) + "y").as_str())] {
        p.push(V::str(x));
        p.push(V::str(y));
        p.push(V::Uri(x.into()));
        p.push(V::Ref("r".into(), Some(y.into())));
    }
    let six = |last: f64| V::List((0..5).map(|i| V::num(i as f64)).chain(std::iter::once(V::num(last))).collect());
    p.push(six(5.0));
    p.push(six(6.0));
    p.push(V::List((0..5).map(|i| V::num(i as f64)).collect()));
    let five = |mid: &str| V::dict(&[("a", V::num(1.0)), ("b", V::num(2.0)), ("c", V::str(mid)), ("d", V::num(4.0)), ("e", V::num(5.0))]);
    p.push(five("x"));
    p.push(five("y"));
    let deep = |leaf: V| V::List(vec![V::dict(&[("a", V::List(vec![V::dict(&[("b", leaf)])]))])]);
    p.push(deep(V::num(1.0)));
    p.push(deep(V::num(2.0)));
    p.push(deep(V::numu(1.0, "m")));
    p.push(V::Coord(91.0, 181.0));
    p.push(V::Coord(91.0, -181.0));
    p.push(V::Coord(-91.0, 181.0));
    p.push(V::Time(13, 0, 0, 0));
    p.push(V::Time(13, 0, 0, 1));
    p.push(V::Time(23, 59, 59, 999_999_999));
    p.push(V::Date(1969, 12, 31));
    p.push(V::Date(1, 1, 1));
    p.push(V::Date(0, 12, 31));
    p.push(V::XStr("Bin".into(), "a".into()));
    p.push(V::XStr("bin".into(), "a".into()));
    // lists that are prefixes of each other
    p.push(V::List(vec![]));
    p.push(V::List(vec![V::num(1.0), V::num(2.0)]));
    p.push(V::List(vec![V::num(1.0), V::num(2.0), V::num(3.0)]));
    p.push(V::List(vec![V::num(2.0)]));
    // dicts differing in one key / one value / prefix relation
    p.push(V::Dict(vec![]));
    p.push(V::dict(&[("a", V::num(2.0)), ("b", V::num(1.0))]));
    p.push(V::dict(&[("a", V::num(1.0)), ("c", V::num(1.0))]));
    p.push(V::dict(&[("a", V::num(1.0)), ("b", V::num(1.0))]));
    p.push(V::dict(&[("a", V::num(1.0)), ("b", V::num(2.0))]));
    p.push(V::dict(&[("b", V::num(1.0))]));
    p.push(V::dict(&[("a", V::num(1.0)), ("b", V::num(1.0)), ("c", V::num(0.0))]));
    p.push(V::dict(&[("a", V::Marker)]));
    p.push(V::dict(&[("a", V::dict(&[("a", V::num(2.0)), ("b", V::num(1.0))]))]));
    p.push(V::dict(&[("a", V::dict(&[("a", V::num(1.0)), ("c", V::num(1.0))]))]));
    // grids differing in meta / column meta / row order / ver / rows
    let r1 = vec![("a", V::num(1.0))];
    let r2 = vec![("a", V::num(2.0))];
    p.push(grid("3.0", None, vec![("a", None)], vec![]));
    p.push(grid("3.0", Some(vec![]), vec![("a", None)], vec![]));
    p.push(grid("2.0", None, vec![("a", None)], vec![]));
    p.push(grid("3.0", Some(vec![("m", V::Marker)]), vec![("a", None)], vec![]));
    p.push(grid("3.0", None, vec![("a", Some(vec![("m", V::Marker)]))], vec![]));
    p.push(grid("3.0", None, vec![("a", None)], vec![r1.clone(), r2.clone()]));
    p.push(grid("3.0", None, vec![("a", None)], vec![r2.clone(), r1.clone()]));
    p.push(grid("3.0", None, vec![("a", None)], vec![r1.clone()]));
    p.push(grid("3.0", None, vec![("a", None), ("b", None)], vec![r1.clone()]));
    p.push(grid("3.0", Some(vec![("a", V::num(2.0)), ("b", V::num(1.0))]), vec![("a", None)], vec![]));
    p.push(grid("3.0", Some(vec![("a", V::num(1.0)), ("c", V::num(1.0))]), vec![("a", None)], vec![]));
    p.push(grid("3.0", None, vec![("a", None)], vec![vec![("a", V::numu(1.0, "m"))]]));
    p.push(grid("3.0", None, vec![("a", None)], vec![vec![("a", V::numu(1.0, "s"))]]));
    p.push(grid("3.0", None, vec![("a", None)], vec![vec![("a", V::num(0.0))]]));
    p.push(grid("3.0", None, vec![("a", None)], vec![vec![("a", V::num(-0.0))]]));
    // rows: same rows in another order, one row twice, four rows differing in the last one
    let r3 = vec![("a", V::num(3.0))];
    p.push(grid("3.0", None, vec![("a", None)], vec![r1.clone(), r2.clone(), r3.clone(), r1.clone()]));
    p.push(grid("3.0", None, vec![("a", None)], vec![r1.clone(), r3.clone(), r2.clone(), r1.clone()]));
    p.push(grid("3.0", None, vec![("a", None)], vec![r1.clone(), r2.clone(), r3.clone(), r2.clone()]));
    p.push(grid("3.0", None, vec![("a", None)], vec![r1.clone(), r1.clone()]));
    p.push(grid("3.0", None, vec![("b", None), ("a", None)], vec![r1.clone()]));
    p
}

#[derive(Clone)]
struct Item<T> {
    val: T,
    desc: String,
    json: J,
    /// contains a Number that carries a unit
    has_unit: bool,
}

fn fail(local: &mut Local, law: &str, ty: &str, items: &[&Item<impl Sized>], detail: String) {
    let descs: Vec<&str> = items.iter().map(|i| i.desc.as_str()).collect();
    let sig = format!("{law}:{ty}:{}", descs.join("/"));
    let case = json!({"type": ty, "law": law, "values": items.iter().map(|i| i.json.clone()).collect::<Vec<_>>()});
    local.fail(&sig, case, detail);
}

/// All pair and triple laws over one typed pool. `partial` = the type's partial_cmp.
fn laws<T>(ty: &str, pool: &[Item<T>], local: &mut Local, partial: &dyn Fn(&T, &T) -> Option<Ordering>)
where
    T: Eq + Hash + Ord + Clone + Debug,
{
    let n = pool.len();
    let mut eq = vec![false; n * n];
    let mut cm = vec![Ordering::Equal; n * n];
    for i in 0..n {
        let a = &pool[i];
        local.eval();
        if !(a.val == a.val) {
            fail(local, "eq-reflexive", ty, &[a], format!("{:?} != itself", a.val));
        }
        let c = a.val.clone();
        if !(c == a.val) || h1(&c) != h1(&a.val) {
            fail(local, "clone-equals-original", ty, &[a], format!("clone of {:?} differs", a.val));
        }
        for j in 0..n {
            let b = &pool[j];
            local.eval();
            let e = a.val == b.val;
            let o = a.val.cmp(&b.val);
            eq[i * n + j] = e;
            cm[i * n + j] = o;
            if i != j {
                local.nontrivial(&format!("{ty}|{}|{}", a.json, b.json));
            }
            if e != (b.val == a.val) {
                fail(local, "eq-symmetric", ty, &[a, b], format!("{:?} == {:?} is {e} but the converse is {}", a.val, b.val, !e));
            }
            if (a.val != b.val) == e {
                fail(local, "ne-is-not-eq", ty, &[a, b], format!("{:?} vs {:?}: != and == agree", a.val, b.val));
            }
            if e && (h1(&a.val) != h1(&b.val) || h2(&a.val) != h2(&b.val)) {
                fail(local, "eq-implies-hash", ty, &[a, b], format!("{:?} == {:?} but their hashes differ", a.val, b.val));
            }
            if o != b.val.cmp(&a.val).reverse() {
                fail(local, "cmp-antisymmetric", ty, &[a, b], format!("cmp({:?},{:?})={o:?} but reverse is {:?}", a.val, b.val, b.val.cmp(&a.val)));
            }
            if (o == Ordering::Equal) != e {
                fail(local, "cmp-equal-iff-eq", ty, &[a, b], format!("cmp({:?},{:?})={o:?} but == is {e}", a.val, b.val));
            }
            if let Some(p) = partial(&a.val, &b.val) {
                if p != o {
                    fail(local, "partial-agrees-with-total", ty, &[a, b], format!("partial_cmp({:?},{:?})=Some({p:?}) but cmp={o:?}", a.val, b.val));
                }
            }
            if e {
                local.outcome("equal");
                if i != j {
                    local.count(&format!("equal-but-not-identical:{ty}"));
                }
            } else {
                local.outcome(match o {
                    Ordering::Less => "less",
                    Ordering::Greater => "greater",
                    Ordering::Equal => "cmp-equal-but-ne",
                });
            }
        }
    }
    // triples on the matrices
    for i in 0..n {
        for j in 0..n {
            let eij = eq[i * n + j];
            let cij = cm[i * n + j];
            for k in 0..n {
                local.evals += 1;
                if eij && eq[j * n + k] && !eq[i * n + k] {
                    fail(local, "eq-transitive", ty, &[&pool[i], &pool[j], &pool[k]], "a==b, b==c, a!=c".into());
                }
                if cij != Ordering::Greater && cm[j * n + k] != Ordering::Greater && cm[i * n + k] == Ordering::Greater {
                    fail(local, "cmp-transitive", ty, &[&pool[i], &pool[j], &pool[k]], format!(
                        "a<=b ({:?}), b<=c ({:?}) but a>c: a={:?} b={:?} c={:?}", cij, cm[j * n + k], pool[i].val, pool[j].val, pool[k].val));
                }
            }
        }
    }
    // consequences: collections see exactly the ==-classes — on the whole pool and on its part
    // without unit-carrying Numbers (sorting compares through `lt`, i.e. partial_cmp, which is
    // silent between Numbers of different units: known finding; the unit-free part has no excuse)
    let mut nclasses = 0;
    for (part, keep_units) in [("all", true), ("unitless", false)] {
        let idx: Vec<usize> = (0..n).filter(|&i| keep_units || !pool[i].has_unit).collect();
        let mut classes: Vec<usize> = vec![];
        for &i in &idx {
            if !classes.iter().any(|&c| eq[c * n + i]) {
                classes.push(i);
            }
        }
        let ncl = classes.len();
        if keep_units {
            nclasses = ncl;
        }
        let sub: Vec<T> = idx.iter().map(|&i| pool[i].val.clone()).collect();
        let hs: HashSet<T, std::hash::BuildHasherDefault<DefaultHasher>> = sub.iter().cloned().collect();
        local.eval();
        if hs.len() != ncl {
            local.fail(&format!("collection-size:{ty}:HashSet"), json!({"type": ty, "law": "collection-size", "collection": "HashSet"}), format!("HashSet of the {}-value pool ({part}) has {} elements, == has {ncl} classes", sub.len(), hs.len()));
        }
        let ordered = guarded(|| {
            let bs: BTreeSet<T> = sub.iter().cloned().collect();
            let bm: BTreeMap<&T, usize> = sub.iter().enumerate().map(|(i, v)| (v, i)).collect();
            let mut sorted: Vec<T> = sub.clone();
            sorted.sort();
            let in_order = sorted.windows(2).all(|w| w[0].cmp(&w[1]) != Ordering::Greater);
            sorted.dedup();
            (bs.len(), bm.len(), sorted.len(), in_order)
        });
        let mixed_units = keep_units && pool.iter().any(|i| i.has_unit);
        let sig = |what: &str| if mixed_units { "sort-unsafe:numbers-with-different-units".to_string() } else { format!("collection-size:{ty}:{what}") };
        match ordered {
            Err(p) => local.fail(&sig("sort-panics"), json!({"type": ty, "law": "collection-size", "collection": "sort-panics", "part": part}), format!("sorting / BTreeSet of the {}-value {ty} pool ({part}) panics: {p}", sub.len())),
            Ok((bs, bm, sorted, in_order)) => {
                for (name, got) in [("BTreeSet", bs), ("BTreeMap-keys", bm), ("sort+dedup", sorted)] {
                    if got != ncl {
                        local.fail(&sig(name), json!({"type": ty, "law": "collection-size", "collection": name, "part": part}), format!("{name} of the {}-value {ty} pool ({part}) has {got} elements, == has {ncl} classes", sub.len()));
                    }
                }
                if !in_order {
                    local.fail(&sig("sort-unsorted"), json!({"type": ty, "law": "collection-size", "collection": "sort-unsorted", "part": part}), format!("sort() of the {ty} pool ({part}) is not sorted by cmp"));
                }
            }
        }
    }
    local.count_n(&format!("classes:{ty}"), nclasses as u64);
}

fn items(vs: &[V]) -> Vec<Item<Value>> {
    vs.iter().map(|v| Item { val: to_lib(v), desc: shape_sig(v), json: to_json(v), has_unit: has_unit(v) }).collect()
}

fn typed<T: Clone>(all: &[Item<Value>], pick: &dyn Fn(&Value) -> Option<T>) -> Vec<Item<T>> {
    all.iter().filter_map(|i| pick(&i.val).map(|t| Item { val: t, desc: i.desc.clone(), json: i.json.clone(), has_unit: i.has_unit })).collect()
}

fn run_type(ty: &str, all: &[Item<Value>], local: &mut Local) {
    macro_rules! go {
        ($pat:path, $t:ty) => {{
            let p: Vec<Item<$t>> = typed(all, &|v| match v {
                $pat(x) => Some(x.clone()),
                _ => None,
            });
            laws(ty, &p, local, &|a: &$t, b: &$t| a.partial_cmp(b));
        }};
    }
    match ty {
        "Value" => laws(ty, all, local, &|a: &Value, b: &Value| a.partial_cmp(b)),
        "Number" => go!(Value::Number, Number),
        "Coord" => go!(Value::Coord, Coord),
        "Ref" => go!(Value::Ref, Ref),
        "Str" => go!(Value::Str, Str),
        "Uri" => go!(Value::Uri, Uri),
        "Symbol" => go!(Value::Symbol, Symbol),
        "XStr" => go!(Value::XStr, XStr),
        "Bool" => go!(Value::Bool, Bool),
        "List" => go!(Value::List, List),
        "Dict" => go!(Value::Dict, Dict),
        "Grid" => go!(Value::Grid, Grid),
        "Column" => {
            let mut cols: Vec<Item<Column>> = vec![];
            for i in all {
                if let Value::Grid(g) = &i.val {
                    for c in &g.columns {
                        cols.push(Item { val: c.clone(), desc: i.desc.clone(), json: i.json.clone(), has_unit: i.has_unit });
                    }
                }
            }
            laws(ty, &cols, local, &|a: &Column, b: &Column| a.partial_cmp(b));
        }
        // Date, Time, DateTime implement Eq + Ord but not Hash on the wrapper; hash through Value
        "Date" | "Time" | "DateTime" => {
            let p: Vec<Item<Value>> = all
                .iter()
                .filter(|i| matches!((&i.val, ty), (Value::Date(_), "Date") | (Value::Time(_), "Time") | (Value::DateTime(_), "DateTime")))
                .cloned()
                .collect();
            laws(ty, &p, local, &|a: &Value, b: &Value| match (a, b) {
                (Value::Date(x), Value::Date(y)) => x.partial_cmp(y),
                (Value::Time(x), Value::Time(y)) => x.partial_cmp(y),
                (Value::DateTime(x), Value::DateTime(y)) => x.partial_cmp(y),
                _ => None,
            });
        }
        _ => unreachable!(),
    }
}

fn has_nan(v: &V) -> bool {
    let mut nan = false;
    v.walk(&mut |x| match x {
        V::Num(n, _) if n.is_nan() => nan = true,
        V::Coord(a, b) if a.is_nan() || b.is_nan() => nan = true,
        _ => {}
    });
    nan
}

fn strip_units(v: &V) -> V {
    let f = strip_units;
    let tags = |t: &crate::model::v::Tags| t.iter().map(|(k, x)| (k.clone(), f(x))).collect::<Vec<_>>();
    match v {
        V::Num(x, Some(_)) => V::Num(*x, None),
        V::List(l) => V::List(l.iter().map(f).collect()),
        V::Dict(d) => V::Dict(tags(d)),
        V::Grid(g) => V::Grid(Box::new(G {
            ver: g.ver.clone(),
            meta: g.meta.as_ref().map(|m| tags(m)),
            cols: g.cols.iter().map(|c| Col { name: c.name.clone(), meta: c.meta.as_ref().map(|m| tags(m)) }).collect(),
            rows: g.rows.iter().map(|r| tags(r)).collect(),
        })),
        other => other.clone(),
    }
}

fn has_unit(v: &V) -> bool {
    let mut u = false;
    v.walk(&mut |x| {
        if let V::Num(_, Some(_)) = x {
            u = true
        }
    });
    u
}

/// The wide set W: the pool plus the scalar alphabet Σ and containers of U (strided in the quick
/// tier), without NaN.
fn wide_values(tier: Tier) -> Vec<V> {
    let mut w = pool(tier);
    let sc = u::scalars(Tier::Quick);
    w.extend(sc.into_iter().step_by(tier.pick(5, 1)));
    let cont = u::containers(Tier::Quick);
    let want = tier.pick(300usize, 1500);
    let stride = (cont.len() / want).max(1);
    w.extend(cont.into_iter().step_by(stride));
    u::ver_variants(&mut |v| w.push(v));
    w.retain(|v| !has_nan(v));
    w
}

/// Pair laws on all |W|² ordered pairs of `Value`s and — through ranks — transitivity on all
/// |W|³ triples: in a total preorder a<b forces rank(a)<rank(b) and a~b forces equal ranks (rank =
/// number of elements below); if every pair obeys that, no triple a<=b<=c with a>c exists, and
/// conversely a violated triple breaks it for one of its pairs. Equality classes likewise:
/// == is an equivalence iff a==b <=> class(a)==class(b) with class(a) = first element == a.
fn wide_laws(tier: Tier, run: &mut Run) {
    use std::sync::atomic::{AtomicU8, Ordering as AO};
    let vals = wide_values(tier);
    let libs: Vec<Value> = vals.iter().map(to_lib).collect();
    let n = libs.len();
    run.note("wide_set_size", json!(n));
    let hashes: Vec<(u64, u64)> = libs.iter().map(|v| (h1(v), h2(v))).collect();
    let m: Vec<AtomicU8> = (0..n * n).map(|_| AtomicU8::new(0)).collect();
    let pair_fail = |local: &mut Local, law: &str, idx: &[usize], detail: String| {
        let descs: Vec<String> = idx.iter().map(|&i| shape_sig(&vals[i])).collect();
        let sig = format!("{law}:Value:{}", descs.join("/"));
        local.fail(&sig, json!({"type": "Value", "law": law, "values": idx.iter().map(|&i| to_json(&vals[i])).collect::<Vec<_>>()}), detail);
    };
    let l = par_for(n, |i, local| {
        let a = &libs[i];
        for j in 0..n {
            let b = &libs[j];
            local.evals += 1;
            let e = a == b;
            let o = a.cmp(b);
            m[i * n + j].store(((e as u8) << 2) | (o as i8 + 1) as u8, AO::Relaxed);
            if e != (b == a) {
                pair_fail(local, "eq-symmetric", &[i, j], format!("{a:?} == {b:?} is {e} but the converse is {}", !e));
            }
            if e && hashes[i] != hashes[j] {
                pair_fail(local, "eq-implies-hash", &[i, j], format!("{a:?} == {b:?} but their hashes differ"));
            }
            if o != b.cmp(a).reverse() {
                pair_fail(local, "cmp-antisymmetric", &[i, j], format!("cmp({a:?},{b:?})={o:?} but reverse is {:?}", b.cmp(a)));
            }
            if (o == Ordering::Equal) != e {
                pair_fail(local, "cmp-equal-iff-eq", &[i, j], format!("cmp({a:?},{b:?})={o:?} but == is {e}"));
            }
            match a.partial_cmp(b) {
                Some(p) => {
                    if p != o {
                        pair_fail(local, "partial-agrees-with-total", &[i, j], format!("partial_cmp({a:?},{b:?})=Some({p:?}) but cmp={o:?}"));
                    }
                }
                None => {
                    // `sort` compares through `lt`, i.e. through partial_cmp: a pair without an
                    // answer is what makes sorting unsafe. The only recorded cause is Numbers with
                    // different units; an unanswered pair that stays unanswered with the units
                    // removed has another cause.
                    local.count("pairs-without-partial-answer");
                    let (sa, sb) = (to_lib(&strip_units(&vals[i])), to_lib(&strip_units(&vals[j])));
                    if sa.partial_cmp(&sb).is_none() {
                        pair_fail(local, "partial-order-silent-on-comparable-values", &[i, j], format!("partial_cmp({a:?},{b:?}) is None although no Numbers with different units are involved; sort() compares through it"));
                    }
                }
            }
        }
        if !(a == a) {
            pair_fail(local, "eq-reflexive", &[i], format!("{a:?} != itself"));
        }
        local.count("wide-values");
    });
    run.absorb(l);
    let eq = |i: usize, j: usize| m[i * n + j].load(AO::Relaxed) >> 2 == 1;
    let cm = |i: usize, j: usize| (m[i * n + j].load(AO::Relaxed) & 3) as i8 - 1; // -1 less, 0 equal, 1 greater
    let rank: Vec<usize> = (0..n).map(|i| (0..n).filter(|&j| cm(i, j) == 1).count()).collect();
    let class: Vec<usize> = (0..n).map(|i| (0..n).find(|&j| eq(i, j)).unwrap_or(i)).collect();
    let l = par_for(n, |i, local| {
        for j in 0..n {
            local.evals += n as u64; // the pair stands for all triples (i, j, k)
            let c = cm(i, j);
            let ranks_ok = match c {
                -1 => rank[i] < rank[j],
                0 => rank[i] == rank[j],
                _ => rank[i] > rank[j],
            };
            if !ranks_ok {
                // find the third element of a violated triple
                let k = (0..n).find(|&k| (cm(i, j) != 1 && cm(j, k) != 1 && cm(i, k) == 1) || (cm(k, i) != 1 && cm(i, j) != 1 && cm(k, j) == 1) || (cm(j, k) != 1 && cm(k, i) != 1 && cm(j, i) == 1));
                let idx: Vec<usize> = match k {
                    Some(k) => vec![i, j, k],
                    None => vec![i, j],
                };
                pair_fail(local, "cmp-transitive", &idx, format!("cmp({:?},{:?})={c} but {} resp. {} values order below them: the order is not transitive", libs[i], libs[j], rank[i], rank[j]));
            }
            if eq(i, j) != (class[i] == class[j]) {
                let k = class[i].min(class[j]);
                pair_fail(local, "eq-transitive", &[i, j, k], format!("{:?} and {:?}: == is {} but their first equal elements are #{} and #{}", libs[i], libs[j], eq(i, j), class[i], class[j]));
            }
        }
    });
    run.absorb(l);
    // consequences on the wide set
    // consequences, on the whole set and on its part without unit-carrying Numbers (where every
    // pair has a partial answer, so nothing excuses a failure)
    for (part, keep_units) in [("all", true), ("unitless", false)] {
        let idx: Vec<usize> = (0..n).filter(|&i| keep_units || !has_unit(&vals[i])).collect();
        let sub: Vec<Value> = idx.iter().map(|&i| libs[i].clone()).collect();
        let nclasses = {
            let mut c: Vec<usize> = idx.iter().map(|&i| class[i]).collect();
            c.sort();
            c.dedup();
            c.len()
        };
        run.note(&format!("wide_set_classes_{part}"), json!(nclasses));
        let hs: HashSet<Value, std::hash::BuildHasherDefault<DefaultHasher>> = sub.iter().cloned().collect();
        let bs = guarded(|| sub.iter().cloned().collect::<BTreeSet<Value>>().len());
        let sorted = guarded(|| {
            let mut s = sub.clone();
            s.sort();
            let in_order = s.windows(2).all(|w| w[0].cmp(&w[1]) != Ordering::Greater);
            s.dedup();
            (s.len(), in_order)
        });
        run.stats.evals += 3;
        let mut sizes = vec![("HashSet", hs.len())];
        let case = |c: &str| json!({"type": "Value", "law": "collection-size", "collection": c, "wide": true, "part": part});
        // one signature for every symptom on the whole set (which symptom shows depends on the
        // sort implementation of the standard library); one per symptom on the unit-free part
        let sig_of = |symptom: &str| if keep_units { "sort-unsafe:numbers-with-different-units".to_string() } else { format!("sort-unsafe:{symptom}:no-unit-carrying-numbers") };
        match bs {
            Ok(k) => sizes.push(("BTreeSet", k)),
            Err(p) => run.stats.fail(&sig_of("BTreeSet-from-iter-panics"), case("btreeset-panics"), format!("building a BTreeSet of the {}-value set panics: {p}", sub.len())),
        }
        match sorted {
            Ok((k, true)) => sizes.push(("sort+dedup", k)),
            Ok((_, false)) => run.stats.fail(&sig_of("sort-leaves-unsorted"), case("sort-unsorted"), format!("sort() of the {}-value set returns a sequence that cmp does not call sorted", sub.len())),
            Err(p) => run.stats.fail(&sig_of("sort-panics"), case("sort-panics"), format!("sorting the {}-value set panics: {p}", sub.len())),
        }
        for (name, got) in sizes {
            if got != nclasses {
                let sig = if name == "HashSet" { format!("collection-size:Value:wide-{part}-{name}") } else { sig_of(&format!("{name}-size")) };
                run.stats.fail(&sig, case(&format!("wide-{name}")), format!("{name} of the {}-value set has {got} elements, == has {nclasses} classes", sub.len()));
            }
        }
    }
}

/// Dicts that differ in one tag only, for every pair of tag names the library's source mentions
/// (a shortcut in == / hash / cmp keyed on particular tag names shows here): the pair laws on each.
fn named_tag_laws(local_run: &mut Run) {
    let names = u::harvested_names();
    local_run.note("harvested_names", json!(names.len()));
    let vals = [V::Sym("x".into()), V::str("x"), V::Ref("x".into(), None), V::Marker, V::num(1.0)];
    let n = names.len();
    let l = par_for(n * n, |k, local| {
        let (i, j) = (k / n, k % n);
        if i > j {
            return;
        }
        for (vi, same_kind) in (0..vals.len()).flat_map(|vi| [(vi, true), (vi, false)]) {
            let v = &vals[vi];
            let mk = |other: V| {
                let mut t = vec![(names[i].as_str(), v.clone()), ("zq9", other)];
                if i != j {
                    t.push((names[j].as_str(), if same_kind { v.clone() } else { vals[(vi + 1) % vals.len()].clone() }));
                }
                to_lib(&V::dict(&t))
            };
            let (a, b) = (mk(V::num(1.0)), mk(V::num(2.0)));
            local.evals += 1;
            let e = a == b;
            let o = a.cmp(&b);
            let bad = e || o == Ordering::Equal || a.partial_cmp(&b).map_or(false, |p| p != o) || (h1(&a) == h1(&b) && h2(&a) == h2(&b) && e) || (b == a) != e || o != b.cmp(&a).reverse() || !(a == a.clone()) || h1(&a) != h1(&a.clone());
            if bad {
                local.fail(
                    &format!("named-tags:dicts-differing-in-one-tag-compare-equal:{}", v.kind_name()),
                    json!({"type": "Value", "law": "named-tags", "names": [names[i], names[j]], "value_kind": vi}),
                    format!("dicts {a:?} and {b:?} differ in tag zq9: == {e}, cmp {o:?}, partial {:?}", a.partial_cmp(&b)),
                );
            }
        }
        local.count("named-tag-pairs");
    });
    local_run.absorb(l);
}

const TYPES: &[&str] = &["Value", "Number", "Coord", "Ref", "Str", "Uri", "Symbol", "XStr", "Bool", "List", "Dict", "Grid", "Column", "Date", "Time", "DateTime"];

/// Unit: Eq + Hash + PartialOrd over all database units
fn unit_laws(local: &mut Local) {
    let units: Vec<&'static libhaystack::units::Unit> = {
        let mut v: Vec<_> = libhaystack::units::units_generated::UNITS.values().copied().collect();
        v.sort_by(|a, b| a.name().cmp(b.name()));
        v.dedup_by(|a, b| std::ptr::eq(*a, *b));
        v
    };
    for a in &units {
        for b in &units {
            local.eval();
            let e = a == b;
            if e != (b == a) {
                local.fail("eq-symmetric:Unit", json!({"type":"Unit","a":a.name(),"b":b.name()}), format!("{} vs {}", a.name(), b.name()));
            }
            if e && (h1(a) != h1(b) || h2(a) != h2(b)) {
                local.fail("eq-implies-hash:Unit", json!({"type":"Unit","a":a.name(),"b":b.name()}), format!("{} == {} but hashes differ", a.name(), b.name()));
            }
            if e != std::ptr::eq(*a, *b) && e {
                local.count("unit-equal-distinct-pointers");
            }
            if let Some(o) = a.partial_cmp(b) {
                if (o == Ordering::Equal) != e {
                    local.fail("partial-equal-iff-eq:Unit", json!({"type":"Unit","a":a.name(),"b":b.name()}), format!("partial_cmp({}, {}) = {o:?} but == is {e}", a.name(), b.name()));
                }
            }
        }
    }
    local.count_n("units", units.len() as u64);
}


// ------------------------------------------------------------------------------ laws after mutation

fn tags_to_dict(t: &crate::model::v::Tags) -> Dict {
    match to_lib(&V::Dict(t.clone())) {
        Value::Dict(d) => d,
        _ => unreachable!(),
    }
}

fn mutation_pool() -> Vec<crate::model::v::Tags> {
    let mut out: Vec<crate::model::v::Tags> = vec![vec![]];
    let vals = [V::num(1.0), V::num(-0.0), V::numu(1.0, "m"), V::str("s"), V::Marker, V::Ref("r".into(), Some("d".into())), V::Ref("r".into(), None), V::dict(&[("x", V::num(1.0))]), V::List(vec![V::num(1.0)])];
    for (i, a) in vals.iter().enumerate() {
        out.push(mk_tags(&[("a", a.clone())]));
        out.push(mk_tags(&[("a", a.clone()), ("b", vals[(i + 1) % vals.len()].clone())]));
        out.push(mk_tags(&[("b", a.clone()), ("dis", V::str("D"))]));
    }
    out.push(mk_tags(&[("a", V::num(1.0)), ("b", V::num(2.0)), ("c", V::num(3.0)), ("id", V::Ref("x".into(), None))]));
    out
}

const ROUTES: &[&str] = &["edit-in-place", "clear-and-extend", "clone-then-edit", "inside-Value", "inside-list", "grid-row", "grid-meta", "retain-and-insert"];

/// A container that was hashed, compared, cloned and put into sets, and is THEN edited in place
/// into the content `to`, must afterwards be indistinguishable (==, cmp, hashes, set membership)
/// from a container built directly with that content.
fn mutation_case(from: &crate::model::v::Tags, to: &crate::model::v::Tags, route: &str) -> Verdict {
    let observe = |v: &Value| {
        let _ = (h1(v), h2(v), v == &v.clone(), v.cmp(v));
        let mut hs = HashSet::new();
        hs.insert(v.clone());
        let mut bs = BTreeSet::new();
        bs.insert(v.clone());
    };
    let edit = |d: &mut Dict| {
        let keys: Vec<String> = d.keys().cloned().collect();
        for k in keys {
            if !to.iter().any(|(n, _)| *n == k) {
                d.remove(&k);
            }
        }
        for (k, v) in to {
            d.insert(k.clone(), to_lib(v));
        }
    };
    let fresh_dict = tags_to_dict(to);
    let (got, fresh): (Value, Value) = match route {
        "edit-in-place" => {
            let mut d = tags_to_dict(from);
            observe(&Value::Dict(d.clone()));
            let _ = (h1(&d), h2(&d));
            edit(&mut d);
            let pair_ok = d == fresh_dict && (h1(&d) != h1(&fresh_dict) || h2(&d) != h2(&fresh_dict));
            if pair_ok {
                return Err((format!("hash-after-mutation:Dict:{route}"), format!("{from:?} hashed, then edited in place into {to:?}: equal to a fresh dict but hashes differently")));
            }
            (Value::Dict(d), Value::Dict(fresh_dict))
        }
        "clear-and-extend" => {
            let mut d = tags_to_dict(from);
            let _ = (h1(&d), h2(&d));
            d.clear();
            d.extend(to.iter().map(|(k, v)| (k.clone(), to_lib(v))));
            (Value::Dict(d), Value::Dict(fresh_dict))
        }
        "retain-and-insert" => {
            let mut d = tags_to_dict(from);
            let _ = (h1(&d), h2(&d));
            d.retain(|k, _| to.iter().any(|(n, _)| n == k));
            for (k, v) in to {
                if let Some(slot) = d.get_mut(k) {
                    *slot = to_lib(v);
                } else {
                    d.insert(k.clone(), to_lib(v));
                }
            }
            (Value::Dict(d), Value::Dict(fresh_dict))
        }
        "clone-then-edit" => {
            let d0 = tags_to_dict(from);
            let _ = (h1(&d0), h2(&d0));
            let mut d = d0.clone();
            edit(&mut d);
            let _ = d0;
            (Value::Dict(d), Value::Dict(fresh_dict))
        }
        "inside-Value" => {
            let mut v = Value::Dict(tags_to_dict(from));
            observe(&v);
            if let Value::Dict(d) = &mut v {
                edit(d);
            }
            (v, Value::Dict(fresh_dict))
        }
        "inside-list" => {
            let mut v = Value::List(vec![Value::Dict(tags_to_dict(from)), Value::make_str("tail")]);
            observe(&v);
            if let Value::List(l) = &mut v {
                if let Value::Dict(d) = &mut l[0] {
                    edit(d);
                }
            }
            (v, Value::List(vec![Value::Dict(fresh_dict), Value::make_str("tail")]))
        }
        "grid-row" => {
            let mut g = Grid::make_from_dicts(vec![tags_to_dict(from), tags_to_dict(to)]);
            let cols = g.columns.clone();
            observe(&Value::Grid(g.clone()));
            edit(&mut g.rows[0]);
            let mut f = Grid::make_from_dicts(vec![tags_to_dict(to), tags_to_dict(to)]);
            f.columns = cols;
            (Value::Grid(g), Value::Grid(f))
        }
        _ => {
            let mut g = Grid::make_from_dicts_with_meta(vec![tags_to_dict(from)], tags_to_dict(from));
            observe(&Value::Grid(g.clone()));
            if let Some(m) = g.meta.as_mut() {
                edit(m);
            }
            let f = Grid::make_from_dicts_with_meta(vec![tags_to_dict(from)], tags_to_dict(to));
            (Value::Grid(g), Value::Grid(f))
        }
    };
    let ty = match &got {
        Value::Dict(_) => "Dict",
        Value::List(_) => "List",
        _ => "Grid",
    };
    if got != fresh || fresh != got {
        return Err((format!("eq-after-mutation:{ty}:{route}"), format!("{from:?} edited into {to:?} is not == a freshly built value")));
    }
    if got.cmp(&fresh) != Ordering::Equal || fresh.partial_cmp(&got) != Some(Ordering::Equal) {
        return Err((format!("cmp-after-mutation:{ty}:{route}"), format!("{from:?} edited into {to:?}: cmp {:?}", got.cmp(&fresh))));
    }
    if h1(&got) != h1(&fresh) || h2(&got) != h2(&fresh) || h1(&got.clone()) != h1(&fresh) {
        return Err((format!("hash-after-mutation:{ty}:{route}"), format!("{from:?} observed (hashed, compared, cloned), then edited in place into {to:?}: == a freshly built value but hashes differently")));
    }
    let mut hs = HashSet::new();
    hs.insert(fresh.clone());
    let mut bs = BTreeSet::new();
    bs.insert(fresh.clone());
    if !hs.contains(&got) || !bs.contains(&got) || hs.insert(got.clone()) || bs.insert(got.clone()) {
        return Err((format!("set-membership-after-mutation:{ty}:{route}"), format!("{from:?} edited into {to:?} is not found in a set holding the freshly built value")));
    }
    Ok(())
}

fn mutation_laws(run: &mut Run) {
    let pool = mutation_pool();
    let n = pool.len();
    let l = par_for(n * n, |k, local| {
        let (a, b) = (&pool[k / n], &pool[k % n]);
        for route in ROUTES {
            local.eval();
            local.count("mutation-cases");
            match guarded(|| mutation_case(a, b, route)) {
                Ok(Ok(())) => {}
                Ok(Err((sig, d))) => local.fail(&sig, json!({"law": "mutation", "from": to_json(&V::Dict(a.clone())), "to": to_json(&V::Dict(b.clone())), "route": route}), d),
                Err(p) => local.fail(&format!("panic-after-mutation:{route}"), json!({"law": "mutation", "from": to_json(&V::Dict(a.clone())), "to": to_json(&V::Dict(b.clone())), "route": route}), p),
            }
        }
    });
    run.absorb(l);
}

pub fn run(tier: Tier) -> i32 {
    let mut run = Run::new("C12", tier, "exploration");
    run.rule = "near-collision pool Π (±0 plain/with unit/in Coord/nested, same magnitude under different or no unit, Refs differing only in dis, same payload under different kinds, dict/list/grid neighbours, equal instants in different zones, instants before 1678 / after 2262 / in year 1 and 9999); every law on all |Π|² ordered pairs and all |Π|³ triples, for Value and each typed value; plus the wide set W (Π, the scalar alphabet Σ — every 5th value in the quick tier —, 300/1500 containers of U, the ver variants; no NaN): every pair law on all |W|² ordered pairs of Values and transitivity of == and of cmp on all |W|³ triples decided through ranks and classes (equivalent, O(|W|²)); HashSet/BTreeSet/sort+dedup of W have one element per ==-class; for every pair of identifier-like string literals of the library's own source (harvested from /repo/src at run time) two dicts carrying those tags and differing in a third tag only must be unequal under ==, cmp, partial_cmp; laws after mutation: every ordered pair of 29 dict contents x 8 routes (a dict that was hashed / compared / cloned / put into sets is edited in place — insert+remove, clear+extend, retain+get_mut, clone first, inside a Value, a list element, a grid row, grid meta — into the other content) must be ==, cmp-equal, hash-equal (two hashers) and set-interchangeable with a freshly built value; non-trivial = ordered pair of two different pool entries (distinct by type + both values)".into();
    run.assume("no NaN anywhere (excluded by the statement)");
    run.assume("SipHash (DefaultHasher) and FNV-1a stand for 'any Hasher'");
    crate::engine::quiet_panics();
    let p = pool(tier);
    run.note("pool_size", json!(p.len()));
    let all = items(&p);
    let l = par_for(TYPES.len() + 1, |i, local| {
        if i == TYPES.len() {
            unit_laws(local);
            return;
        }
        if let Err(m) = guarded(|| run_type(TYPES[i], &all, local)) {
            local.fail(&format!("panic:{}", TYPES[i]), json!({"type": TYPES[i], "law": "no-panic"}), m);
        }
    });
    run.absorb(l);
    wide_laws(tier, &mut run);
    named_tag_laws(&mut run);
    mutation_laws(&mut run);
    run.require(run.counter("mutation-cases") > 5000, "mutation histories missing");
    run.require(run.counter("named-tag-pairs") > 1000, "too few names harvested from the source");
    run.require(run.counter("wide-values") > 500, "wide set too small");
    for t in ["Value", "Number", "Coord", "Ref", "Dict", "Grid", "List"] {
        run.require(run.counter(&format!("equal-but-not-identical:{t}")) > 0, &format!("no equal-but-not-identical pair of type {t}"));
    }
    run.require(run.counter("units") >= 400, "fewer than 400 units");
    run.stats.samples = vec![
        json!({"pair": [to_json(&V::num(0.0)), to_json(&V::num(-0.0))]}),
        json!({"pair": [to_json(&V::numu(1.0, "m")), to_json(&V::numu(1.0, "s"))]}),
        json!({"pair": [to_json(&V::dict(&[("a", V::num(2.0)), ("b", V::num(1.0))])), to_json(&V::dict(&[("a", V::num(1.0)), ("c", V::num(1.0))]))]}),
    ];
    run.finish(&replay)
}

pub fn replay(case: &J) -> Verdict {
    let ty = case["type"].as_str().unwrap_or("Value").to_string();
    let law = case["law"].as_str().unwrap_or("").to_string();
    let mut local = Local::new();
    if law == "mutation" {
        let (a, b) = (from_json(&case["from"]), from_json(&case["to"]));
        if let (V::Dict(a), V::Dict(b)) = (a, b) {
            let route = case["route"].as_str().unwrap_or("");
            return match guarded(|| mutation_case(&a, &b, route)) {
                Ok(v) => v,
                Err(p) => Err((format!("panic-after-mutation:{route}"), p)),
            };
        }
        return Ok(());
    }
    if ty == "Unit" {
        unit_laws(&mut local);
    } else if law == "named-tags" {
        let mut run = Run::new("C12", Tier::Quick, "exploration");
        named_tag_laws(&mut run);
        return match run.stats.fails.values().find(|f| f.case["names"] == case["names"] && f.case["value_kind"] == case["value_kind"]) {
            Some(f) => Err((f.sig.clone(), f.detail.clone())),
            None => Ok(()),
        };
    } else if case["wide"] == true {
        // a consequence on the wide set: rebuild the set of the recording tier and look the same
        // consequence up again
        for tier in [Tier::Quick, Tier::Thorough] {
            let mut run = Run::new("C12", tier, "exploration");
            wide_laws(tier, &mut run);
            if let Some(f) = run.stats.fails.values().find(|f| f.case["wide"] == true && f.case["collection"] == case["collection"] && f.case["part"] == case["part"]) {
                return Err((f.sig.clone(), f.detail.clone()));
            }
        }
        return Ok(());
    } else if law == "collection-size" || law == "no-panic" {
        let all = items(&pool(Tier::Thorough));
        let all_q = items(&pool(Tier::Quick));
        if let Err(m) = guarded(|| {
            run_type(&ty, &all_q, &mut local);
            run_type(&ty, &all, &mut local)
        }) {
            return Err((format!("panic:{ty}"), m));
        }
    } else {
        let vs: Vec<V> = case["values"].as_array().map(|a| a.iter().map(from_json).collect()).unwrap_or_default();
        let all = items(&vs);
        if let Err(m) = guarded(|| run_type(&ty, &all, &mut local)) {
            return Err((format!("panic:{ty}"), m));
        }
    }
    // the recorded law must fail again on exactly this ordered tuple
    let descs: Vec<String> = case["values"].as_array().map(|a| a.iter().map(|j| shape_sig(&from_json(j))).collect()).unwrap_or_default();
    let want = if law == "collection-size" {
        format!("collection-size:{ty}:{}", case["collection"].as_str().unwrap_or(""))
    } else {
        format!("{law}:{ty}:{}", descs.join("/"))
    };
    if law == "collection-size" {
        // (several symptoms of one cause share a signature, and the failure table keeps one case per
        // signature: the exact symptom first, else any collection consequence for this type)
        let same_type = |f: &&crate::engine::Failure| f.case["law"] == "collection-size" && f.case["type"] == case["type"];
        let exact = local.fails.values().filter(same_type).find(|f| f.case["collection"] == case["collection"] && f.case["part"] == case["part"]);
        // (every symptom of one part of the pool carries the same signature, so a different symptom
        // of the same part reproduces the recorded one; C12-r7: a second cause made the unit-free part
        // fail too, and the alphabetically first signature belonged to that other part)
        let same_part = || local.fails.values().filter(same_type).filter(|f| f.case["part"] == case["part"]).min_by(|a, b| a.sig.cmp(&b.sig));
        return match exact.or_else(same_part).or_else(|| local.fails.values().filter(same_type).min_by(|a, b| a.sig.cmp(&b.sig))) {
            Some(f) => Err((f.sig.clone(), format!("collection consequence for {}", case["type"]))),
            None => Ok(()),
        };
    }
    let mut hits: Vec<_> = local
        .fails
        .values()
        .filter(|f| f.sig == want || (ty == "Unit" && f.sig.ends_with(":Unit")) || (law == "no-panic" && f.sig.starts_with("panic:")))
        .collect();
    hits.sort_by(|a, b| a.sig.cmp(&b.sig));
    match hits.first() {
        Some(f) => Err((f.sig.clone(), f.detail.clone())),
        None => Ok(()),
    }
}
