pub mod c01;
pub mod c12;
pub mod c15;
pub mod c16;
pub mod c19;
pub mod c20;
pub mod common;
