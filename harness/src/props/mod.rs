pub mod c01;
pub mod c02;
pub mod c03;
pub mod c04;
pub mod c05;
pub mod c06;
pub mod c07;
pub mod c08;
pub mod c09;
pub mod c10;
pub mod c11;
pub mod c12;
pub mod c13;
pub mod c14;
pub mod c15;
pub mod c16;
pub mod c17;
pub mod c18;
pub mod c19;
pub mod c20;
pub mod common;

/// the C08 leaf alphabet, shared with C09's mutation corpus
pub fn c08_leaves() -> Vec<crate::model::filter_ref::F> {
    c08::all_leaves()
}
