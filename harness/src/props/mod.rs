pub mod c01;
pub mod common;
