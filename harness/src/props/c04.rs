//! C04 — Zinc text conforms to the Project Haystack grammar in both directions (DESIGN §5 C04).
//! Model checking against an independent reference reader/writer; the spelling space of each
//! value is explored exhaustively up to a deviation bound (engine E2).

use super::common::*;
use crate::engine::choice::{explore, Chooser};
use crate::engine::{guarded, machinery, par_for, Local, Run, Tier};
use crate::model::shrink::{shape_sig, shrink};
use crate::model::universe as u;
use crate::model::v::{from_json, from_lib, same, to_json, to_lib, V};
use crate::model::zinc_ref;
use libhaystack::encoding::zinc::decode::from_str;
use libhaystack::encoding::zinc::encode::to_zinc_string;
use serde_json::{json, Value as J};

/// Direction 1: the text libhaystack emits is a sentence of the grammar denoting v.
/// one size witness in both directions; signature by top-level kind only (the shape of a 1000-wide
/// value is not a useful class)
fn size_witness_case(i: usize, tier: Tier) -> Verdict {
    let v = &u::size_witnesses_cached(tier)[i];
    let class = format!("size-witness:{}", v.kind_name());
    emitted_is_sentence(v).map_err(|(s, d)| (format!("{s}:{class}"), d.chars().take(500).collect()))?;
    let text = zinc_ref::write_canonical(v);
    match guarded(|| from_str(&text)) {
        Ok(Ok(back)) => crate::model::v::same(v, &crate::model::v::from_lib(&back)).map_err(|d| (format!("d2-decoded-other-value[]:{class}"), d.chars().take(500).collect())),
        Ok(Err(e)) => Err((format!("d2-decode-error[]:{class}"), e.to_string())),
        Err(p) => Err((format!("d2-decode-panic[]:{class}"), p)),
    }
}

pub fn emitted_is_sentence(v: &V) -> Verdict {
    let lv = to_lib(v);
    // (the text as a caller's writer receives it: also through writers taking 1 / 3 bytes per call)
    let text = super::common::zinc_text_all_writers(&lv).map_err(|(s, d)| (format!("d1-{s}"), d))?;
    match zinc_ref::read(&text) {
        Err(e) => Err(("d1-not-a-sentence".into(), format!("reference reader: {e}; text={text:?}"))),
        Ok(back) => same(v, &back).map_err(|d| ("d1-denotes-other-value".to_string(), format!("{d}; text={text:?}"))),
    }
}

/// one spelling of v under the given choices, decoded by libhaystack
fn one_spelling(v: &V, ch: &mut Chooser) -> (String, Vec<&'static str>, Verdict) {
    let (text, dev) = zinc_ref::write(v, ch);
    // self-check of the reference model: writer -> reader must be the identity
    match zinc_ref::read(&text) {
        Ok(back) if same(v, &back).is_ok() => {}
        other => machinery(&format!("zinc_ref self-check failed: value {v:?} spelled {text:?} reads back as {other:?}")),
    }
    let verdict = match guarded(|| from_str(&text)) {
        Err(p) => Err(("d2-decode-panic".to_string(), format!("{p}; text={text:?}"))),
        Ok(Err(e)) => Err(("d2-decode-error".to_string(), format!("{e}; text={text:?}"))),
        Ok(Ok(b)) => same(v, &from_lib(&b)).map_err(|d| ("d2-decoded-other-value".to_string(), format!("{d}; text={text:?}"))),
    };
    (text, dev, verdict)
}

#[derive(Clone)]
struct SpellFail {
    choices: Vec<u32>,
    types: Vec<&'static str>,
    stage: String,
    detail: String,
}

/// explore all spellings of v with <= bound deviations; first failure (if any) and statistics
fn explore_spellings(v: &V, bound: Option<usize>, only_types: Option<&[&'static str]>, cap: u64, local: Option<&mut Local>) -> (Option<SpellFail>, u64, bool) {
    let mut fail: Option<SpellFail> = None;
    let mut loc = local;
    let st = explore(bound, cap, |ch| {
        let (_text, dev, verdict) = one_spelling(v, ch);
        if let Some(l) = loc.as_deref_mut() {
            l.transitions += 1;
            for d in &dev {
                l.count(&format!("deviated:{d}"));
            }
        }
        if let Some(only) = only_types {
            if dev.iter().any(|d| !only.contains(d)) {
                return true;
            }
        }
        match verdict {
            Ok(()) => true,
            Err((stage, detail)) => {
                let mut types = dev.clone();
                types.sort();
                types.dedup();
                fail = Some(SpellFail { choices: ch.choices(), types, stage, detail });
                false
            }
        }
    });
    (fail, st.executions, st.capped)
}

fn spelling_sig(f: &SpellFail, v: &V) -> String {
    format!("{}[{}]:{}", f.stage, f.types.join("+"), shape_sig(v))
}

/// Direction 2 for one value: explore, on failure minimise value and spelling, record.
fn check_spellings(v: &V, bound: Option<usize>, cap: u64, local: &mut Local) {
    local.eval();
    local.states += 1;
    if nontrivial_value(v) {
        local.nontrivial(&v.key());
    }
    let (fail, execs, capped) = explore_spellings(v, bound, None, cap, Some(local));
    local.traces += execs;
    if capped {
        local.count("capped-values");
    }
    if let Some(f) = fail {
        let ndev = f.choices.iter().filter(|c| **c != 0).count();
        let types = f.types.clone();
        let pred = |c: &V| explore_spellings(c, Some(ndev), Some(&types), 200_000, None).0.is_some();
        let min = shrink(v, true, &pred);
        let mf = explore_spellings(&min, Some(ndev), Some(&types), 200_000, None).0.unwrap_or(f);
        local.outcome(&mf.stage);
        local.fail(&spelling_sig(&mf, &min), json!({"value": to_json(&min), "choices": mf.choices}), mf.detail);
    } else {
        local.outcome("ok");
    }
}

fn core_grids() -> Vec<V> {
    // one grid per layout feature
    let mut out = vec![u::small_grid(), u::meta_grid()];
    let sh = u::grid_shapes(2, 2, 2, 1);
    let cp = vec![V::Null, V::str("x,\n\">>"), V::numu(5.5, "kW")];
    for s in sh.iter().filter(|s| s.nrows > 0) {
        let mut k = 0;
        u::grids_of_shape(s, &cp, &mut |g| {
            if k % 11 == 0 {
                out.push(g);
            }
            k += 1;
        });
    }
    out
}

pub fn run(tier: Tier) -> i32 {
    let mut run = Run::new("C04", tier, "model_checking");
    run.rule = "reference Zinc reader/writer written from the grammar (DESIGN Appendix A.1). Direction 1: every value of Σ ∪ U encoded by libhaystack is parsed by the strict reference reader and must denote the value. Direction 2: for every value, every spelling the reference writer can produce with <= b deviations from the canonical spelling (choice points: CRLF per line, spaces after/before commas and inside brackets, dict separator, trailing list comma, each character literal vs short escape vs \\uXXXX lower/upper, number as integer/.0/exponent e|E|e+|E-|shifted ±1/underscores, marker as m vs m:M, Z vs Z UTC, Z vs +00:00 for zero-offset zones, fraction digits padded to 3/6/9, trailing blank line, newline after <<) is decoded by libhaystack and must give the value. states = values explored in direction 2, transitions = spellings executed, traces_validated = spellings decoded by the implementation (all of them); non-trivial as C01 Plus every escape form (short escapes, \\uXXXX decoding to 1 / 2 / 3 bytes, a surrogate pair, raw multi-byte characters) after every number 0..600 of plain bytes in Str / Ref display name / XStr / Uri: decoded to the reference reader's value.".into();
    run.assume("the grammar of DESIGN Appendix A.1 is the Project Haystack Zinc grammar (written from memory of the specification; constructs marked (L) are accepted by the reference reader and never written)");
    run.assume("reference writer -> reference reader is checked to be the identity on every explored spelling (else exit 2)");
    crate::engine::quiet_panics();
    {
        let pool: Vec<V> = super::c01::probe_pool();
        if super::common::probe_first(&mut run, "zinc-codec", &pool, &super::c01::zinc_observation, &|v: &V| crate::model::v::to_json(v)) {
            return run.finish(&replay);
        }
    }

    // ---- direction 1
    let scalars = u::scalars(tier);
    let l = par_for(scalars.len(), |i, local| {
        check_value(&scalars[i], local, true, &emitted_is_sentence);
        local.count("d1-values");
    });
    run.absorb(l);
    let shards = u::container_shards(tier);
    let l = par_for(shards.len(), |i, local| {
        shards[i](&mut |v| {
            check_value(&v, local, true, &emitted_is_sentence);
            local.count("d1-values");
        })
    });
    run.absorb(l);

    // size witnesses: the library's text is a sentence denoting the value, and the reference
    // writer's canonical text decodes to it
    let nsw = u::size_witnesses_cached(tier).len();
    let l = crate::engine::par_for_stack(nsw, 64 << 20, |i, local| {
        local.eval();
        local.count("size-witnesses");
        if let Err((sig, d)) = size_witness_case(i, tier) {
            local.fail(&sig, json!({"size_witness": i, "tier": tier.name()}), d);
        }
    });
    run.absorb(l);

    // ---- direction 2
    // escapes at every offset 0..=600 (11 forms x 4 string positions)
    {
        let l = par_for(601, |k, local| {
            for form in 0..11usize {
                for pos in 0..4usize {
                    if pos > 0 && !(k % 5 == 0 || (60..=130).contains(&k) || (250..=260).contains(&k) || (505..=520).contains(&k)) {
                        continue;
                    }
                    local.eval();
                    local.transitions += 1;
                    local.count("escape-offset-documents");
                    if let Err((sig, d)) = escape_offset_case(k, form, pos) {
                        local.fail(&sig, json!({"escape_offset": [k, form, pos]}), d);
                    }
                }
            }
        });
        run.absorb(l);
    }
    // (a) every scalar: all spellings with <= 2 deviations; unbounded when the space is small
    let sc2 = u::scalars(Tier::Quick);
    let l = par_for(sc2.len(), |i, local| {
        check_spellings(&sc2[i], Some(2), 2_000_000, local);
        local.count("d2-scalars-bound2");
    });
    run.absorb(l);
    let l = par_for(sc2.len(), |i, local| {
        // unbounded exploration where the choice space is <= 10^4 spellings
        let mut ch = Chooser::replaying(vec![]);
        let _ = zinc_ref::write(&sc2[i], &mut ch);
        let space: f64 = ch.trace.iter().map(|p| p.arity as f64).product();
        if space <= 10_000.0 {
            check_spellings(&sc2[i], None, 20_000, local);
            local.count("d2-scalars-unbounded");
        }
    });
    run.absorb(l);
    // (b) containers: <= 1 deviation on U (quick: U(2,2)); <= 2 on the core
    let cshards = u::container_shards(Tier::Quick);
    let l = par_for(cshards.len(), |i, local| {
        let mut k = 0usize;
        cshards[i](&mut |v| {
            k += 1;
            if tier == Tier::Quick && k % 5 != 0 {
                return;
            }
            check_spellings(&v, Some(1), 1_000_000, local);
            local.count("d2-containers-bound1");
        })
    });
    run.absorb(l);
    let mut core: Vec<V> = vec![];
    {
        let mut pool = u::pool_scalars();
        pool.extend(u::pool_containers1());
        u::lists_over(&pool, tier.pick(1, 2), &mut |v| core.push(v));
        u::dicts_over(&pool, tier.pick(1, 2), &mut |v| core.push(v));
        core.extend(core_grids());
    }
    let l = par_for(core.len(), |i, local| {
        check_spellings(&core[i], Some(2), 3_000_000, local);
        local.count("d2-core-bound2");
    });
    run.absorb(l);
    // three deviations at once on a small kind-complete set (thorough: also the pool containers)
    let mut b3: Vec<V> = u::pool_scalars();
    b3.extend([u::small_grid(), u::meta_grid(), V::dict(&[("a", V::num(1.0)), ("b", V::Marker)]), V::List(vec![V::num(1.0), V::str("s")])]);
    if tier == Tier::Thorough {
        b3.extend(u::pool_containers1());
        b3.extend(core_grids());
    }
    let l = par_for(b3.len(), |i, local| {
        check_spellings(&b3[i], Some(3), tier.pick(400_000, 8_000_000), local);
        local.count("d2-bound3");
    });
    run.absorb(l);
    if tier == Tier::Thorough {
        let sct = u::scalars(Tier::Thorough);
        let l = par_for(sct.len(), |i, local| {
            check_spellings(&sct[i], Some(2), 2_000_000, local);
            local.count("d2-scalars-thorough-bound2");
        });
        run.absorb(l);
        let tsh = u::container_shards(Tier::Thorough);
        let l = par_for(tsh.len(), |i, local| {
            let mut k = 0usize;
            tsh[i](&mut |v| {
                k += 1;
                if k % 40 == 0 {
                    check_spellings(&v, Some(1), 1_000_000, local);
                    local.count("d2-containers-thorough-bound1");
                }
            })
        });
        run.absorb(l);
    }
    run.exhaustive = run.counter("capped-values") == 0;
    run.note("deviation_bounds_completed", json!({"scalars": 2, "scalars_small_space": "unbounded", "containers": 1, "core": 2, "values_capped": run.counter("capped-values")}));
    for t in ["crlf", "comma-space", "escape-spelling", "number-spelling", "dict-separator", "trailing-comma", "marker-spelling", "utc-spelling", "fraction-digits", "trailing-blank-line", "newline-after-<<", "meta-space", "zero-offset-spelling", "space-before-comma", "list-inner-space", "dict-inner-space", "utc-fields-with-zone"] {
        run.require(run.counter(&format!("deviated:{t}")) > 0, &format!("choice-point type {t} never deviated"));
    }
    run.require(run.counter("d1-values") > 50_000, "direction 1 too small");
    run.stats.samples = vec![
        json!({"value": to_json(&V::numu(1500.0, "kW")), "spellings": ["1500kW", "1500.0kW", "1500e0kW", "15000e-1kW", "150.0e1kW", "1_5_0_0kW"]}),
        json!({"value": to_json(&V::str("a\"\n")), "spellings": ["\"a\\\"\\n\"", "\"\\u0061\\\"\\n\"", "\"a\\u0022\\u000A\""]}),
        json!({"grid_layout_choices": ["CRLF per line", "spaces around ','", "m vs m:M", "trailing blank line"]}),
    ];
    run.finish(&replay)
}


/// Direction 2 for escapes at every offset: the text `"` + k plain bytes + one escape form + `b"`
/// (also as a Ref display name, an XStr payload, a Uri) denotes, by the reference reader, a value;
/// libhaystack must decode the text to that value — for every k 0..=600 (whatever the size of a
/// decoder's internal chunk, some k puts the escape across its end).
fn escape_offset_case(k: usize, form: usize, pos: usize) -> Verdict {
    const ESC: [&str; 11] = ["\\n", "\\\\", "\\\"", "\\$", "\\u0041", "\\u00e9", "\\u20ac", "\\ud83d\\ude00", "é", "€", "😀"];
    let pad = "a".repeat(k);
    let esc = ESC[form];
    let text = match pos {
        0 => format!("\"{pad}{esc}b\""),
        1 => format!("@r \"{pad}{esc}\""),
        2 => format!("Bin(\"{pad}{esc}b\")"),
        _ => format!("`{pad}{}`", if esc == "\\\"" || esc == "\\$" { "\\`" } else { esc }),
    };
    let want = match zinc_ref::read(&text) {
        Ok(v) => v,
        Err(_) => return Ok(()),
    };
    match guarded(|| libhaystack::encoding::zinc::decode::from_str(&text)) {
        Err(p) => Err(("d2-decode-panic[escape-at-offset]".into(), format!("{p}; {k} plain bytes before {esc:?}"))),
        Ok(Err(e)) => Err(("d2-decode-error[escape-at-offset]".into(), format!("{e}; {k} plain bytes before {esc:?}"))),
        Ok(Ok(b)) => same(&want, &crate::model::v::from_lib(&b)).map_err(|d| ("d2-decoded-other-value[escape-at-offset]".to_string(), format!("{d}; {k} plain bytes before {esc:?}"))),
    }
}

pub fn replay(case: &J) -> Verdict {
    if case["free_running"] == "zinc-codec" {
        let pool: Vec<V> = super::c01::probe_pool();
        return super::common::replay_probe(&pool, &super::c01::zinc_observation, &|v: &V| crate::model::v::to_json(v));
    }
    if let Some(a) = case["escape_offset"].as_array() {
        let g = |i: usize| a[i].as_u64().unwrap_or(0) as usize;
        return escape_offset_case(g(0), g(1), g(2));
    }
    if let Some(i) = case["size_witness"].as_u64() {
        let tier = if case["tier"] == "thorough" { Tier::Thorough } else { Tier::Quick };
        return size_witness_case(i as usize, tier);
    }
    let v = from_json(&case["value"]);
    if let Some(ch) = case.get("choices").and_then(|c| c.as_array()) {
        let choices: Vec<u32> = ch.iter().map(|x| x.as_u64().unwrap_or(0) as u32).collect();
        let mut chooser = Chooser::replaying(choices);
        let (_t, dev, verdict) = one_spelling(&v, &mut chooser);
        return match verdict {
            Ok(()) => Ok(()),
            Err((stage, detail)) => {
                let mut types = dev;
                types.sort();
                types.dedup();
                let f = SpellFail { choices: vec![], types, stage, detail: detail.clone() };
                Err((spelling_sig(&f, &v), detail))
            }
        };
    }
    replay_value(case, &emitted_is_sentence)
}
