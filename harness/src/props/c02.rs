//! C02 — Hayson encode -> decode returns the original value (DESIGN §5 C02).

use super::common::*;
use crate::engine::{guarded, par_for, Run, Tier};
use crate::model::universe as u;
use crate::model::v::{from_lib, mk_tags, same, to_json, to_lib, Col, G, V};
use libhaystack::val::*;
use serde_json::{json, Value as J};

fn typed_roundtrip(v: &Value) -> Option<Result<Value, String>> {
    macro_rules! rt {
        ($x:expr, $t:ty) => {{
            let s = match serde_json::to_string($x) {
                Ok(s) => s,
                Err(e) => return Some(Err(format!("typed to_string: {e}"))),
            };
            match serde_json::from_str::<$t>(&s) {
                Ok(b) => Ok(Value::from(b)),
                Err(e) => Err(format!("typed from_str: {e}; text={s}")),
            }
        }};
    }
    Some(match v {
        Value::Number(x) => rt!(x, Number),
        Value::Ref(x) => rt!(x, Ref),
        Value::Uri(x) => rt!(x, Uri),
        Value::Symbol(x) => rt!(x, Symbol),
        Value::Date(x) => rt!(x, Date),
        Value::Time(x) => rt!(x, Time),
        Value::DateTime(x) => rt!(x, DateTime),
        Value::Coord(x) => rt!(x, Coord),
        Value::XStr(x) => rt!(x, XStr),
        Value::Dict(x) => rt!(x, Dict),
        Value::Grid(x) => rt!(x, Grid),
        Value::Marker => rt!(&Marker, Marker),
        Value::Na => rt!(&Na, Na),
        Value::Remove => rt!(&Remove, Remove),
        _ => return None,
    })
}

/// everything observable of encoding and decoding one value through Hayson
pub fn hayson_observation(v: &V) -> String {
    let lv = to_lib(v);
    let t = serde_json::to_string(&lv).map_err(|e| e.to_string());
    let tree = serde_json::to_value(&lv).map_err(|e| e.to_string());
    let back = t.as_ref().ok().map(|t| serde_json::from_str::<Value>(t).map(|b| format!("{:?}", from_lib(&b))).map_err(|e| e.to_string()));
    let back2 = tree.as_ref().ok().map(|t| serde_json::from_value::<Value>(t.clone()).map(|b| format!("{:?}", from_lib(&b))).map_err(|e| e.to_string()));
    // encodes into writers that fail at the 1st / 2nd / 5th call (the error is part of the observation)
    let failing: Vec<String> = [1usize, 2, 5]
        .iter()
        .map(|&k| {
            let mut w = super::common::FailAt { calls: 0, k, out: vec![] };
            format!("{:?}", serde_json::to_writer(&mut w, &lv).map_err(|e| e.to_string()))
        })
        .collect();
    format!("{t:?}|{back:?}|{back2:?}|{failing:?}")
}

pub fn hayson_roundtrip(v: &V) -> Verdict {
    let lv = to_lib(v);
    let enc = guarded(|| {
        (
            serde_json::to_string(&lv).map_err(|e| e.to_string()),
            serde_json::to_vec(&lv).map_err(|e| e.to_string()),
            serde_json::to_value(&lv).map_err(|e| e.to_string()),
        )
    })
    .map_err(|p| ("encode-panic".to_string(), p))?;
    let (s, b, t) = match enc {
        (Ok(s), Ok(b), Ok(t)) => (s, b, t),
        (s, b, t) => {
            return Err(("encode-error".into(), format!("to_string={:?} to_vec={:?} to_value={:?}", s.err(), b.err(), t.err())))
        }
    };
    if s.as_bytes() != b.as_slice() {
        return Err(("encode-string-vs-vec".into(), format!("to_string {s} vs to_vec {}", String::from_utf8_lossy(&b))));
    }
    // a clone has the same text
    match guarded(|| serde_json::to_string(&lv.clone())) {
        Ok(Ok(t2)) if t2 == s => {}
        other => return Err(("clone-encodes-differently".into(), format!("original {s}, clone {other:?}"))),
    }
    // the three encodings through the three decoders
    let texts: Vec<(&str, String)> = vec![("to_string", s.clone()), ("to_value", t.to_string())];
    for (ename, text) in &texts {
        let decs = guarded(|| {
            vec![
                ("from_str", serde_json::from_str::<Value>(text).map_err(|e| e.to_string())),
                ("from_slice", serde_json::from_slice::<Value>(text.as_bytes()).map_err(|e| e.to_string())),
                (
                    "from_value",
                    serde_json::from_str::<serde_json::Value>(text)
                        .map_err(|e| e.to_string())
                        .and_then(|tree| serde_json::from_value::<Value>(tree).map_err(|e| e.to_string())),
                ),
            ]
        })
        .map_err(|p| ("decode-panic".to_string(), format!("{p}; text={text}")))?;
        for (dname, r) in decs {
            match r {
                Err(e) => return Err(("decode-error".into(), format!("{ename}->{dname}: {e}; text={text}"))),
                Ok(back) => same(v, &from_lib(&back)).map_err(|d| ("mismatch".to_string(), format!("{ename}->{dname}: {d}; text={text}")))?,
            }
        }
    }
    // to_value tree directly into from_value (no text in between)
    match guarded(|| serde_json::from_value::<Value>(t.clone())) {
        Err(p) => return Err(("decode-panic".into(), p)),
        Ok(Err(e)) => return Err(("decode-error".into(), format!("to_value->from_value: {e}; tree={t}"))),
        Ok(Ok(back)) => same(v, &from_lib(&back)).map_err(|d| ("mismatch".to_string(), format!("to_value->from_value: {d}; tree={t}")))?,
    }
    match guarded(|| typed_roundtrip(&lv)) {
        Err(p) => return Err(("typed-panic".into(), p)),
        Ok(Some(Err(e))) => return Err(("typed-error".into(), e)),
        Ok(Some(Ok(back))) => same(v, &from_lib(&back)).map_err(|d| ("typed-mismatch".to_string(), d))?,
        Ok(None) => {}
    }
    // every typed entry point (from_str / from_slice / from_reader::<T>, Option<T>, Vec<T>
    // element, from_value::<T> with sorted members) on the emitted text
    super::c05::typed_decode_agrees(&s, v, true).map_err(|(st, d)| (st.replace("d2-", ""), d))?;
    Ok(())
}

fn string_positions(s: &str) -> Vec<V> {
    let sv = V::Str(s.to_string());
    let mut out = vec![
        sv.clone(),
        V::Ref("a".into(), Some(s.to_string())),
        V::XStr("Bin".into(), s.to_string()),
        V::dict(&[("k", sv.clone())]),
        V::Grid(Box::new(G {
            ver: "3.0".into(),
            meta: Some(mk_tags(&[("dis", sv.clone())])),
            cols: vec![Col { name: "a".into(), meta: Some(mk_tags(&[("dis", sv.clone())])) }],
            rows: vec![mk_tags(&[("a", sv.clone())])],
        })),
    ];
    if u::uri_ok(s) {
        out.push(V::Uri(s.to_string()));
    }
    out
}

pub fn run(tier: Tier) -> i32 {
    let mut run = Run::new("C02", tier, "exploration");
    run.rule = "every well-formed value of Σ and U through to_string|to_vec|to_value x from_str|from_slice|from_value for Value and to_string/from_str for each typed value implementing both traits; every scalar of Σ and the kind-complete pool also embedded in a user's own serde type (Option / Vec / BTreeMap / tuple fields of Value and of each typed value: to_string, to_value, member-sorted text, from_str, from_value, from_slice); component-wise oracle (absent meta ≡ empty meta); non-trivial as C01".into();
    run.assume("component-wise `same` (numbers numerically equal or both NaN) is the intended equality");
    run.assume("serde_json is trusted as the JSON text layer");
    crate::engine::quiet_panics();
    {
        let pool: Vec<V> = super::c01::probe_pool();
        if super::common::probe_first(&mut run, "hayson-codec", &pool, &hayson_observation, &|v: &V| to_json(v)) {
            return run.finish(&replay);
        }
    }
    crate::engine::quiet_panics();
    let scalars = u::scalars(tier);
    let l = par_for(scalars.len(), |i, local| {
        let v = &scalars[i];
        check_value(v, local, true, &hayson_roundtrip);
        if i % tier.pick(7, 1) == 0 {
            check_value(&V::List(vec![v.clone()]), local, true, &hayson_roundtrip);
            check_value(&V::dict(&[("k", v.clone())]), local, true, &hayson_roundtrip);
        }
    });
    run.absorb(l);
    // size witnesses: strings, containers and nesting at and around 2^6 … 2^16
    // serde_json refuses documents nested deeper than 128 arrays/objects (its recursion limit, the
    // JSON counterpart of the Zinc decoder's nesting limit): deeper values are outside the scope
    let sw: Vec<V> = u::size_witnesses(tier).into_iter().filter(|v| u::json_depth(v) <= 127).collect();
    run.assume("values whose Hayson document nests deeper than serde_json's recursion limit (128 arrays/objects, i.e. 42 grids inside each other) are out of scope: a depth limit is what C03 demands of a decoder");
    run.note("size_witnesses", json!(sw.len()));
    let l = crate::engine::par_for_stack(sw.len(), 64 << 20, |i, local| {
        check_value(&sw[i], local, true, &hayson_roundtrip);
        local.count("size-witnesses");
    });
    run.absorb(l);

    // typed values embedded in a user's own serde type (Option / Vec / map / tuple fields)
    let scal = u::scalars(Tier::Quick);
    let l = par_for(scal.len(), |i, local| {
        super::common::check_value_as(&scal[i], local, true, "user-record", &user_record_roundtrip);
        local.count("user-records");
    });
    run.absorb(l);
    let conts: Vec<V> = super::c01::history_pool();
    let l = par_for(conts.len(), |i, local| {
        super::common::check_value_as(&conts[i], local, true, "user-record", &user_record_roundtrip);
        local.count("user-records");
    });
    run.absorb(l);
    // accumulation: 300 repetitions (incl. encodes into a failing writer) on each container, then the pool
    {
        let pool = super::c01::history_pool();
        let before: Vec<V> = {
            let mut b = u::pool_containers1();
            b.extend(u::pool_containers2().into_iter().step_by(5));
            b.extend([u::small_grid(), u::meta_grid()]);
            b.truncate(32);
            b
        };
        let mut then: Vec<V> = pool.iter().step_by(9).cloned().collect();
        then.extend(u::size_witnesses_cached(Tier::Quick).iter().filter(|v| (100..=127).contains(&u::json_depth(v))).take(4).cloned());
        let l = super::common::history_after_repeats("hayson-codec", &before, &then, 300, &hayson_observation, &|v: &V| to_json(v));
        run.absorb(l);
    }
    let pool = super::c01::history_pool();
    let l = super::common::history_pairs("hayson-codec", &pool, &hayson_observation, &|v: &V| to_json(v));
    run.absorb(l);

    // two values in one document: [w, v, {a:w b:v}] for all ordered pairs of the pool (state inside
    // one decode or encode call: a "last unit / last zone / last string" memo)
    {
        let pool = super::c01::history_pool();
        let l = par_for(pool.len(), |i, local| {
            for v in pool.iter() {
                let doc = V::List(vec![pool[i].clone(), v.clone(), V::dict(&[("a", pool[i].clone()), ("b", v.clone())])]);
                local.eval();
                if let Err((stage, d)) = hayson_roundtrip(&doc) {
                    // minimise to the pair
                    let pair = V::List(vec![pool[i].clone(), v.clone()]);
                    let (stage, d, shown) = match hayson_roundtrip(&pair) {
                        Err((s2, d2)) => (s2, d2, pair),
                        Ok(()) => (stage, d, doc),
                    };
                    local.fail(&format!("{stage}:two-values-in-one-document:{}", crate::model::shrink::shape_sig(&shown)), json!({"value": to_json(&shown), "pair_document": true}), d);
                }
            }
            local.count("pair-documents");
        });
        run.absorb(l);
    }

    let shards = u::container_shards(tier);
    let l = par_for(shards.len(), |i, local| {
        shards[i](&mut |v| {
            check_value(&v, local, true, &hayson_roundtrip);
            local.count("containers");
        });
    });
    run.absorb(l);
    let units: Vec<String> = {
        let mut v: Vec<String> = libhaystack::units::units_generated::UNITS.values().map(|u| u.symbol().to_string()).collect();
        v.sort();
        v.dedup();
        v
    };
    let l = par_for(units.len(), |i, local| {
        for x in [1.0, -2.5e-3, 1e21] {
            check_value(&V::numu(x, &units[i]), local, true, &hayson_roundtrip);
        }
        local.count("units");
    });
    run.absorb(l);
    let zones = crate::model::time_ref::in_model_zones();
    let l = par_for(zones.len(), |i, local| {
        for t in [1_610_000_000i64, 1_625_097_600] {
            check_value(&V::dt(t, 0, &zones[i]), local, true, &hayson_roundtrip);
        }
        local.count("zones");
    });
    run.absorb(l);
    if tier == Tier::Thorough {
        let l = par_for(0x110000 / 256, |blk, local| {
            for cp in (blk * 256)..(blk * 256 + 256) {
                if let Some(c) = char::from_u32(cp as u32) {
                    for v in string_positions(&c.to_string()) {
                        check_value(&v, local, true, &hayson_roundtrip);
                    }
                }
            }
        });
        run.absorb(l);
        let l = par_for(61, |ei, local| {
            let e = ei as i32 - 30;
            for m in -999i32..=999 {
                let x: f64 = format!("{m}e{e}").parse().unwrap();
                check_value(&V::num(x), local, true, &hayson_roundtrip);
            }
        });
        run.absorb(l);
        let l = par_for(2098, |i, local| {
            let e = i as i32 - 1074;
            let x = 2f64.powi(e);
            for y in [x, f64::from_bits(x.to_bits() + 1), f64::from_bits(x.to_bits().saturating_sub(1)), -x] {
                if y.is_finite() {
                    check_value(&V::num(y), local, true, &hayson_roundtrip);
                    check_value(&V::Coord(y.clamp(-90.0, 90.0), y.clamp(-180.0, 180.0)), local, true, &hayson_roundtrip);
                }
            }
        });
        run.absorb(l);
    }
    run.require(run.stats.evals > 50_000, "fewer than 50 000 evaluations");
    run.require(run.counter("units") >= 400 && run.counter("zones") >= 300, "databases not swept");
    for s in [V::num(1e21), V::dt(1_625_097_600, 0, "Australia/Sydney"), u::meta_grid()] {
        run.stats.samples.insert(0, to_json(&s));
    }
    run.stats.samples.truncate(5);
    run.finish(&replay)
}

pub fn replay(case: &J) -> Verdict {
    if case["free_running"] == "hayson-codec" {
        let pool: Vec<V> = super::c01::probe_pool();
        return super::common::replay_probe(&pool, &hayson_observation, &|v: &V| to_json(v));
    }
    if case["history_repeats"].is_string() {
        return super::common::replay_history_repeats(case, &|j| crate::model::v::from_json(j), &hayson_observation, "hayson-codec");
    }
    if case["pair_document"] == true {
        let v = crate::model::v::from_json(&case["value"]);
        return hayson_roundtrip(&v).map_err(|(stage, d)| (format!("{stage}:two-values-in-one-document:{}", crate::model::shrink::shape_sig(&v)), d));
    }
    if case["history_pair"].is_string() {
        return super::common::replay_history_pair(case, &|j| crate::model::v::from_json(j), &hayson_observation, "hayson-codec");
    }
    if case["oracle"] == "user-record" {
        return replay_value(case, &user_record_roundtrip);
    }
    replay_value(case, &hayson_roundtrip)
}

// ------------------------------------------------------------------------------ typed values inside user types

/// A user's own serde type that embeds the typed values the way applications do (Option, Vec,
/// map, tuple fields): serde drives the typed Serialize / Deserialize impls through different
/// entry points than a bare `Value` (visit_some, sequence elements, map values, newtype paths).
#[derive(serde::Serialize, serde::Deserialize, Debug)]
struct UserRecord {
    any: Value,
    opt_any: Option<Value>,
    list: Vec<Value>,
    map: std::collections::BTreeMap<String, Value>,
    pair: (Value, Value),
    number: Option<Number>,
    numbers: Vec<Number>,
    uri: Option<Uri>,
    reference: Option<Ref>,
    refs: Vec<Ref>,
    symbol: Option<Symbol>,
    coord: Option<Coord>,
    xstr: Option<XStr>,
    date: Option<Date>,
    time: Option<Time>,
    ts: Option<DateTime>,
    tss: Vec<DateTime>,
    dict: Option<Dict>,
    grid: Option<Grid>,
    #[serde(default)]
    missing: Option<Number>,
}

fn user_record_of(v: &Value) -> UserRecord {
    macro_rules! pick {
        ($p:path) => {
            match v {
                $p(x) => Some(x.clone()),
                _ => None,
            }
        };
    }
    UserRecord {
        any: v.clone(),
        opt_any: Some(v.clone()),
        list: vec![v.clone(), Value::Null, v.clone()],
        map: [("k".to_string(), v.clone()), ("val".to_string(), v.clone())].into_iter().collect(),
        pair: (v.clone(), Value::make_marker()),
        number: pick!(Value::Number),
        numbers: pick!(Value::Number).into_iter().flat_map(|n| [n, n]).collect(),
        uri: pick!(Value::Uri),
        reference: pick!(Value::Ref),
        refs: pick!(Value::Ref).into_iter().flat_map(|r| [r.clone(), r]).collect(),
        symbol: pick!(Value::Symbol),
        coord: pick!(Value::Coord),
        xstr: pick!(Value::XStr),
        date: pick!(Value::Date),
        time: pick!(Value::Time),
        ts: pick!(Value::DateTime),
        tss: pick!(Value::DateTime).into_iter().flat_map(|d| [d.clone(), d]).collect(),
        dict: pick!(Value::Dict),
        grid: pick!(Value::Grid),
        missing: None,
    }
}

/// the typed values of a user record as one model value (for the component-wise comparison)
fn user_record_model(r: &UserRecord) -> V {
    let opt = |v: Option<Value>| v.map(|x| from_lib(&x)).unwrap_or(V::Null);
    V::List(vec![
        from_lib(&r.any),
        opt(r.opt_any.clone()),
        V::List(r.list.iter().map(from_lib).collect()),
        V::List(r.map.values().map(from_lib).collect()),
        from_lib(&r.pair.0),
        opt(r.number.map(Value::Number)),
        V::List(r.numbers.iter().map(|n| from_lib(&Value::Number(*n))).collect()),
        opt(r.uri.clone().map(Value::Uri)),
        opt(r.reference.clone().map(Value::Ref)),
        V::List(r.refs.iter().map(|x| from_lib(&Value::Ref(x.clone()))).collect()),
        opt(r.symbol.clone().map(Value::Symbol)),
        opt(r.coord.map(Value::Coord)),
        opt(r.xstr.clone().map(Value::XStr)),
        opt(r.date.map(Value::Date)),
        opt(r.time.map(Value::Time)),
        opt(r.ts.clone().map(Value::DateTime)),
        V::List(r.tss.iter().map(|x| from_lib(&Value::DateTime(x.clone()))).collect()),
        opt(r.dict.clone().map(Value::Dict)),
        opt(r.grid.clone().map(Value::Grid)),
        opt(r.missing.map(Value::Number)),
    ])
}

/// a value embedded in a user record survives to_string/from_str, to_value/from_value and the
/// member-sorted text
pub fn user_record_roundtrip(v: &V) -> Verdict {
    let rec = user_record_of(&to_lib(v));
    let want = user_record_model(&rec);
    let text = guarded(|| serde_json::to_string(&rec)).map_err(|p| ("user-record-encode-panic".to_string(), p))?.map_err(|e| ("user-record-encode-error".to_string(), e.to_string()))?;
    let tree = guarded(|| serde_json::to_value(&rec)).map_err(|p| ("user-record-encode-panic".to_string(), p))?.map_err(|e| ("user-record-encode-error".to_string(), e.to_string()))?;
    let backs: Vec<(&str, Result<Result<UserRecord, serde_json::Error>, String>)> = vec![
        ("from_str", guarded(|| serde_json::from_str::<UserRecord>(&text))),
        ("from_value", guarded(|| serde_json::from_value::<UserRecord>(tree.clone()))),
        ("from_str(sorted members)", guarded(|| serde_json::from_str::<UserRecord>(&tree.to_string()))),
        ("from_slice", guarded(|| serde_json::from_slice::<UserRecord>(text.as_bytes()))),
    ];
    for (how, b) in backs {
        match b {
            Err(p) => return Err(("user-record-decode-panic".into(), format!("{how}: {p}"))),
            Ok(Err(e)) => return Err(("user-record-decode-error".into(), format!("{how}: {e}; text={}", text.chars().take(400).collect::<String>()))),
            Ok(Ok(back)) => same(&want, &user_record_model(&back)).map_err(|d| ("user-record-mismatch".to_string(), format!("{how}: {d}; text={}", text.chars().take(400).collect::<String>())))?,
        }
    }
    Ok(())
}
