//! C11 — re-encoding decoded text is stable; stream decoding equals buffer decoding; the lazy
//! grid iterator is lazy (DESIGN §5 C11).

use super::c03::{tables, TOK};
use super::common::Verdict;
use crate::engine::choice::{explore, Chooser};
use crate::engine::{guarded, par_for, Local, Run, Tier};
use crate::model::shrink::str_classes;
use crate::model::universe as u;
use crate::model::v::{from_lib, same_strict, V};
use crate::model::zinc_ref;
use libhaystack::encoding::zinc::decode::parser::Parser;
use libhaystack::encoding::zinc::decode::{from_str, parse_grid, parse_grid_iterator};
use libhaystack::encoding::zinc::encode::to_zinc_string;
use libhaystack::val::Value;
use serde_json::{json, Value as J};
use std::io::Read;

// ------------------------------------------------------------------------------ (a) stability

fn feature_class(v: &V) -> String {
    // coarse class of the decoded value for the signature: kinds present + notable features
    let mut kinds = std::collections::BTreeSet::new();
    v.walk(&mut |x| {
        kinds.insert(match x {
            V::Grid(g) if g.ver != "3.0" => "grid-ver-other".to_string(),
            V::Num(n, _) if n.is_nan() => "nan".to_string(),
            V::Num(n, _) if n.is_infinite() => "inf".to_string(),
            V::XStr(t, _) => format!("xstr-type[{}]", str_classes(t)),
            other => other.kind_name().to_string(),
        });
    });
    kinds.into_iter().collect::<Vec<_>>().join("+")
}

/// replace every timestamp whose zone offset has seconds (local mean time before the zone was
/// standardised) by a placeholder: RFC 3339 cannot spell such an offset
fn blank_seconds_offset_timestamps(v: &V) -> V {
    use crate::model::v::G;
    let f = blank_seconds_offset_timestamps;
    let tags = |t: &crate::model::v::Tags| t.iter().map(|(k, x)| (k.clone(), f(x))).collect::<Vec<_>>();
    match v {
        V::DateTime(d) if d.offset % 60 != 0 => V::Str(format!("<timestamp in {} at an offset with seconds>", d.tz)),
        V::List(l) => V::List(l.iter().map(f).collect()),
        V::Dict(d) => V::Dict(tags(d)),
        V::Grid(g) => V::Grid(Box::new(G {
            ver: g.ver.clone(),
            meta: g.meta.as_ref().map(|m| tags(m)),
            cols: g.cols.iter().map(|c| crate::model::v::Col { name: c.name.clone(), meta: c.meta.as_ref().map(|m| tags(m)) }).collect(),
            rows: g.rows.iter().map(|r| tags(r)).collect(),
        })),
        other => other.clone(),
    }
}

fn only_seconds_offset_timestamps_differ(a: &V, b: &V) -> bool {
    let (x, y) = (blank_seconds_offset_timestamps(a), blank_seconds_offset_timestamps(b));
    same_strict(a, &x).is_err() && same_strict(&x, &y).is_ok()
}

fn drop_empty_rows_of_one_column_grids(v: &V) -> V {
    use crate::model::v::G;
    let f = drop_empty_rows_of_one_column_grids;
    let tags = |t: &crate::model::v::Tags| t.iter().map(|(k, x)| (k.clone(), f(x))).collect::<Vec<_>>();
    match v {
        V::List(l) => V::List(l.iter().map(f).collect()),
        V::Dict(d) => V::Dict(tags(d)),
        V::Grid(g) => {
            let mut rows: Vec<_> = g.rows.iter().map(|r| tags(r)).collect();
            if g.cols.len() == 1 {
                rows.retain(|r| !r.is_empty());
            }
            V::Grid(Box::new(G {
                ver: g.ver.clone(),
                meta: g.meta.as_ref().map(|m| tags(m)),
                cols: g.cols.iter().map(|c| crate::model::v::Col { name: c.name.clone(), meta: c.meta.as_ref().map(|m| tags(m)) }).collect(),
                rows,
            }))
        }
        other => other.clone(),
    }
}

/// a line made of cell separators and blanks only (at least one `,`)
fn has_separator_only_line(text: &str) -> bool {
    text.split(|c| c == '\n' || c == '\r').any(|l| l.contains(',') && l.chars().all(|c| c == ',' || c == ' ' || c == '\t'))
}

/// Zinc: T accepted => encode(decode(T)) decodes to the same value and is a fixed point
pub fn zinc_stable(text: &str) -> Result<bool, (String, String)> {
    let v1 = match guarded(|| from_str(text)) {
        Err(p) => return Err(("zinc-decode-panic".into(), p)),
        Ok(Err(_)) => return Ok(false),
        Ok(Ok(v)) => v,
    };
    let m1 = from_lib(&v1);
    let cls = feature_class(&m1);
    let t2 = match guarded(|| to_zinc_string(&v1)) {
        Err(p) => return Err((format!("zinc-reencode-panic:{cls}"), p)),
        Ok(Err(e)) => return Err((format!("zinc-reencode-error:{cls}"), format!("{e}; decoded {m1:?}"))),
        Ok(Ok(t)) => t,
    };
    let v2 = match guarded(|| from_str(&t2)) {
        Err(p) => return Err((format!("zinc-redecode-panic:{cls}"), p)),
        Ok(Err(e)) => return Err((format!("zinc-redecode-error:{cls}"), format!("{e}; re-encoded text {t2:?} from {text:?}"))),
        Ok(Ok(v)) => v,
    };
    if let Err(d) = same_strict(&m1, &from_lib(&v2)) {
        // one specific, separately classified defect: a row without cells in a one-column grid has
        // no Zinc spelling (the empty line ends the grid). It is that defect iff the value minus
        // such rows is what came back, and that reduced value is itself stable.
        let reduced = drop_empty_rows_of_one_column_grids(&m1);
        if same_strict(&m1, &reduced).is_err() && same_strict(&reduced, &from_lib(&v2)).is_ok() {
            let lr = crate::model::v::to_lib(&reduced);
            if let Ok(Ok(t)) = guarded(|| to_zinc_string(&lr)) {
                if let Ok(Ok(b)) = guarded(|| from_str(&t)) {
                    if same_strict(&reduced, &from_lib(&b)).is_ok() {
                        // the recorded finding is about rows spelled with separators only (`,`):
                        // an empty row obtained from any other spelling is a different violation
                        let sig = if has_separator_only_line(text) {
                            "zinc-normalisation-loses:empty-row-of-one-column-grid"
                        } else {
                            "zinc-normalisation-loses:empty-row-of-one-column-grid-from-another-spelling"
                        };
                        return Err((sig.into(), format!("{d}; {text:?} -> {t2:?}")));
                    }
                }
            }
        }
        if only_seconds_offset_timestamps_differ(&m1, &from_lib(&v2)) {
            return Err(("zinc-normalisation-loses:timestamp-at-offset-with-seconds".into(), format!("{d}; {text:?} -> {t2:?}")));
        }
        return Err((format!("zinc-normalisation-loses:{cls}"), format!("{d}; {text:?} -> {t2:?}")));
    }
    match guarded(|| to_zinc_string(&v2)) {
        Ok(Ok(t3)) if t3 == t2 => Ok(true),
        other => Err((format!("zinc-not-a-fixed-point:{cls}"), format!("{t2:?} re-encodes as {other:?}"))),
    }
}

pub fn hayson_stable(text: &str) -> Result<bool, (String, String)> {
    let v1: Value = match guarded(|| serde_json::from_str::<Value>(text)) {
        Err(p) => return Err(("hayson-decode-panic".into(), p)),
        Ok(Err(_)) => return Ok(false),
        Ok(Ok(v)) => v,
    };
    let m1 = from_lib(&v1);
    let cls = feature_class(&m1);
    let t2 = match guarded(|| serde_json::to_string(&v1)) {
        Err(p) => return Err((format!("hayson-reencode-panic:{cls}"), p)),
        Ok(Err(e)) => return Err((format!("hayson-reencode-error:{cls}"), format!("{e}; decoded {m1:?}"))),
        Ok(Ok(t)) => t,
    };
    let v2: Value = match guarded(|| serde_json::from_str::<Value>(&t2)) {
        Err(p) => return Err((format!("hayson-redecode-panic:{cls}"), p)),
        Ok(Err(e)) => return Err((format!("hayson-redecode-error:{cls}"), format!("{e}; re-encoded text {t2} from {text}"))),
        Ok(Ok(v)) => v,
    };
    if let Err(d) = same_strict(&m1, &from_lib(&v2)) {
        if only_seconds_offset_timestamps_differ(&m1, &from_lib(&v2)) {
            return Err(("hayson-normalisation-loses:timestamp-at-offset-with-seconds".into(), format!("{d}; {text} -> {t2}")));
        }
        return Err((format!("hayson-normalisation-loses:{cls}"), format!("{d}; {text} -> {t2}")));
    }
    match guarded(|| serde_json::to_string(&v2)) {
        Ok(Ok(t3)) if t3 == t2 => Ok(true),
        other => Err((format!("hayson-not-a-fixed-point:{cls}"), format!("{t2} re-encodes as {other:?}"))),
    }
}

fn run_stable(fmt: &str, text: &str, local: &mut Local) {
    local.eval();
    let r = if fmt == "zinc" { zinc_stable(text) } else { hayson_stable(text) };
    match r {
        Ok(true) => {
            local.count(&format!("{fmt}-accepted"));
            local.nontrivial(text);
            local.outcome("stable");
        }
        Ok(false) => local.outcome("rejected"),
        Err((sig, d)) => {
            local.outcome("unstable");
            local.fail(&sig, json!({"format": fmt, "text": text}), d)
        }
    }
}

// ------------------------------------------------------------------------------ (b) chunking

struct ChunkReader<'a, 'b> {
    data: &'a [u8],
    pos: usize,
    ch: &'b mut Chooser,
    requested: usize,
}

impl Read for ChunkReader<'_, '_> {
    fn read(&mut self, buf: &mut [u8]) -> std::io::Result<usize> {
        if buf.is_empty() {
            return Ok(0);
        }
        let avail = self.data.len() - self.pos;
        let want = buf.len().min(avail);
        if want == 0 {
            return Ok(0);
        }
        // 0: everything asked for; 1: Interrupted; 2: one byte; 3: half
        let n = if want > 2 {
            4
        } else if want > 1 {
            3
        } else {
            2
        };
        let k = match self.ch.choose(n) {
            0 => want,
            1 => return Err(std::io::Error::new(std::io::ErrorKind::Interrupted, "interrupted")),
            2 => 1,
            _ => (want + 1) / 2,
        };
        buf[..k].copy_from_slice(&self.data[self.pos..self.pos + k]);
        self.pos += k;
        self.requested += k;
        Ok(k)
    }
}

/// a reader that delivers at most `size` bytes per call and answers every `intr`-th call with
/// Interrupted (0 = never)
struct FixedChunks<'a> {
    data: &'a [u8],
    pos: usize,
    size: usize,
    intr: usize,
    calls: usize,
}

impl Read for FixedChunks<'_> {
    fn read(&mut self, buf: &mut [u8]) -> std::io::Result<usize> {
        self.calls += 1;
        // intr == 1: only the very first call is interrupted
        if (self.intr == 1 && self.calls == 1) || (self.intr > 1 && self.calls % self.intr == 0) {
            return Err(std::io::Error::new(std::io::ErrorKind::Interrupted, "interrupted"));
        }
        let k = buf.len().min(self.size).min(self.data.len() - self.pos);
        buf[..k].copy_from_slice(&self.data[self.pos..self.pos + k]);
        self.pos += k;
        Ok(k)
    }
}

const CHUNK_SIZES: &[(usize, usize)] = &[(1, 0), (2, 0), (3, 0), (4, 0), (5, 0), (6, 0), (7, 0), (8, 0), (9, 0), (10, 0), (11, 0), (12, 0), (13, 0), (14, 0), (15, 0), (16, 0), (17, 0), (31, 0), (32, 0), (33, 0), (63, 0), (64, 0), (65, 0), (100, 0), (255, 0), (256, 0), (257, 0), (1000, 0), (4095, 0), (4096, 0), (4097, 0), (8191, 0), (8192, 0), (8193, 0), (usize::MAX, 0), (1, 2), (3, 3), (6, 5), (usize::MAX, 7), (usize::MAX, 1)];

/// one size witness: stability in both formats, and the Zinc text through readers of fixed chunk sizes
fn size_witness_case(i: usize, tier: Tier) -> Verdict {
    let sw = u::size_witnesses_cached(tier);
    let lv = crate::model::v::to_lib(&sw[i]);
    let text = match guarded(|| to_zinc_string(&lv)) {
        Ok(Ok(t)) => t,
        Ok(Err(e)) => return Err(("size-witness-not-encodable".into(), e.to_string())),
        Err(p) => return Err(("zinc-reencode-panic:size-witness".into(), p)),
    };
    zinc_stable(&text).map_err(|(s, d)| (s, d.chars().take(600).collect()))?;
    if u::json_depth(&sw[i]) <= 127 {
        if let Ok(Ok(j)) = guarded(|| serde_json::to_string(&lv)) {
            hayson_stable(&j).map_err(|(s, d)| (s, d.chars().take(600).collect()))?;
        }
    }
    let doc = text.as_bytes();
    let want_value = value_key(&from_str(&text).map_err(|e| e.to_string()));
    let want_rows: Result<Vec<String>, String> = {
        let mut c = std::io::Cursor::new(doc);
        Parser::make(&mut c).map_err(|e| e.to_string()).and_then(|mut p| parse_grid(&mut p).map_err(|e| e.to_string())).map(|g| g.rows.iter().map(|r| format!("{:?}", from_lib(&Value::Dict(r.clone())))).collect())
    };
    for &(size, intr) in CHUNK_SIZES {
        let got = guarded(|| {
            let mut r = FixedChunks { data: doc, pos: 0, size, intr, calls: 0 };
            Parser::make(&mut r).map_err(|e| e.to_string()).and_then(|mut p| p.parse_value().map_err(|e| e.to_string()))
        })
        .map_err(|p| ("chunking-panic".to_string(), p))?;
        if value_key(&got) != want_value {
            return Err(("chunking-value-differs".into(), format!("size witness #{i} ({} bytes) through a reader delivering <= {size} bytes per call (Interrupted every {intr} calls) decodes differently from the buffer", doc.len())));
        }
        if want_rows.is_ok() {
            let rows = guarded(|| {
                let mut r = FixedChunks { data: doc, pos: 0, size, intr, calls: 0 };
                let mut p = Parser::make(&mut r).map_err(|e| e.to_string())?;
                let it = parse_grid_iterator(&mut p).map_err(|e| e.to_string())?;
                let mut rows = vec![];
                for row in it {
                    rows.push(format!("{:?}", from_lib(&Value::Dict(row.map_err(|e| e.to_string())?))));
                    if rows.len() > doc.len() + 2 {
                        return Err("iterator does not terminate".to_string());
                    }
                }
                Ok(rows)
            })
            .map_err(|p| ("chunking-panic".to_string(), p))?;
            if rows != want_rows {
                return Err(("chunking-rows-differ".into(), format!("size witness #{i}: lazy rows through a reader delivering <= {size} bytes per call differ from parse_grid")));
            }
        }
    }
    Ok(())
}

fn value_key(r: &Result<Value, String>) -> String {
    match r {
        Ok(v) => format!("{:?}", from_lib(v)),
        Err(_) => "Err".to_string(),
    }
}

fn chunk_case(doc: &[u8], bound: usize, local: &mut Local) {
    let text = String::from_utf8_lossy(doc).to_string();
    let want_value = value_key(&from_str(&text).map_err(|e| e.to_string()));
    let want_rows: Result<Vec<String>, String> = {
        let mut c = std::io::Cursor::new(doc);
        Parser::make(&mut c).map_err(|e| e.to_string()).and_then(|mut p| parse_grid(&mut p).map_err(|e| e.to_string())).map(|g| g.rows.iter().map(|r| format!("{:?}", from_lib(&Value::Dict(r.clone())))).collect())
    };
    let mut failure: Option<(String, Vec<u32>, String)> = None;
    let st = explore(Some(bound), 2_000_000, |ch| {
        let script = ch.choices();
        let _ = script;
        // parse_value through the reader
        let got = guarded(|| {
            let mut r = ChunkReader { data: doc, pos: 0, ch, requested: 0 };
            Parser::make(&mut r).map_err(|e| e.to_string()).and_then(|mut p| p.parse_value().map_err(|e| e.to_string()))
        });
        match got {
            Err(p) => {
                failure = Some(("chunking-panic".into(), ch.choices(), p));
                return false;
            }
            Ok(r) => {
                let k = value_key(&r);
                if k != want_value {
                    failure = Some(("chunking-value-differs".into(), ch.choices(), format!("buffer decode gives {want_value}, chunked reader gives {k}")));
                    return false;
                }
            }
        }
        true
    });
    local.evals += st.executions;
    local.transitions += st.executions;
    local.count_n("chunk-scripts", st.executions);
    if failure.is_none() && want_rows.is_ok() {
        let st = explore(Some(bound), 2_000_000, |ch| {
            let got = guarded(|| {
                let mut r = ChunkReader { data: doc, pos: 0, ch, requested: 0 };
                let mut p = Parser::make(&mut r).map_err(|e| e.to_string())?;
                let it = parse_grid_iterator(&mut p).map_err(|e| e.to_string())?;
                let mut rows = vec![];
                for row in it {
                    rows.push(format!("{:?}", from_lib(&Value::Dict(row.map_err(|e| e.to_string())?))));
                    if rows.len() > doc.len() + 2 {
                        return Err("iterator does not terminate".to_string());
                    }
                }
                Ok(rows)
            });
            match got {
                Err(p) => {
                    failure = Some(("chunking-panic".into(), ch.choices(), p));
                    false
                }
                Ok(rows) => {
                    if rows != want_rows {
                        failure = Some(("chunking-rows-differ".into(), ch.choices(), format!("parse_grid rows {want_rows:?}, lazy rows through the chunked reader {rows:?}")));
                        false
                    } else {
                        true
                    }
                }
            }
        });
        local.evals += st.executions;
        local.transitions += st.executions;
        local.count_n("chunk-scripts", st.executions);
    }
    local.states += 1;
    if let Some((sig, script, d)) = failure {
        local.fail(&sig, json!({"format": "zinc", "text": text, "chunk_script": script}), d);
    }
}

// ------------------------------------------------------------------------------ (c) laziness

struct CountingReader<'a> {
    data: &'a [u8],
    pos: usize,
    delivered: std::rc::Rc<std::cell::Cell<usize>>,
}
impl Read for CountingReader<'_> {
    fn read(&mut self, buf: &mut [u8]) -> std::io::Result<usize> {
        let n = buf.len().min(self.data.len() - self.pos);
        buf[..n].copy_from_slice(&self.data[self.pos..self.pos + n]);
        self.pos += n;
        self.delivered.set(self.delivered.get() + n);
        Ok(n)
    }
}

const CELLS: &[&str] = &["1", "\"abc\"", "M", "", "[1,2]", "12.5kW", "2021-01-01", "<<\nver:\"3.0\"\nx\n1\n>>", "@r \"d\"", "N"];

/// end offset (exclusive) of the first token of a cell text
fn first_token_len(cell: &str) -> usize {
    let b = cell.as_bytes();
    if b.is_empty() {
        return 0;
    }
    match b[0] {
        b'"' => 1 + cell[1..].find('"').unwrap() + 1,
        b'[' | b'<' => 1,
        b'@' => cell.len(),
        _ => cell.len(),
    }
}

/// a lazy-iteration document and, per row, the largest admissible number of bytes consumed when
/// that row is yielded: end of the first token after the row's line terminator + lookahead slack
fn lazy_doc(ncols: usize, nrows: usize, seed: usize, crlf: bool, blank_lines: bool) -> (String, Vec<usize>) {
    let nl = if crlf { "\r\n" } else { "\n" };
    let mut s = String::from("ver:\"3.0\" m");
    s.push_str(nl);
    let cols = ["a", "b", "c"];
    s.push_str(&cols[..ncols].join(","));
    s.push_str(nl);
    let mut row_texts: Vec<Vec<&str>> = vec![];
    for r in 0..nrows {
        let mut cells = vec![];
        for c in 0..ncols {
            let mut cell = CELLS[(seed + r * 3 + c * 7) % CELLS.len()];
            if ncols == 1 && cell.is_empty() {
                cell = "1";
            }
            cells.push(cell);
        }
        row_texts.push(cells);
    }
    let mut bounds = vec![];
    let mut row_ends = vec![];
    for cells in &row_texts {
        s.push_str(&cells.join(","));
        s.push_str(nl);
        if blank_lines && false {
            s.push_str(nl);
        }
        row_ends.push(s.len());
    }
    let total = s.len();
    for (i, end) in row_ends.iter().enumerate() {
        // first token after row i's terminator
        let next = if i + 1 < row_texts.len() {
            let first = row_texts[i + 1][0];
            if first.is_empty() {
                1 // the ',' itself
            } else {
                first_token_len(first)
            }
        } else {
            0
        };
        bounds.push((end + next + 12).min(total));
    }
    (s, bounds)
}

fn lazy_case(doc: &str, bounds: &[usize]) -> Verdict {
    let delivered = std::rc::Rc::new(std::cell::Cell::new(0usize));
    let mut r = CountingReader { data: doc.as_bytes(), pos: 0, delivered: delivered.clone() };
    let res = guarded(|| -> Result<(), (String, String)> {
        let mut p = Parser::make(&mut r).map_err(|e| ("lazy-decode-error".to_string(), e.to_string()))?;
        let it = parse_grid_iterator(&mut p).map_err(|e| ("lazy-decode-error".to_string(), e.to_string()))?;
        let mut i = 0;
        for row in it {
            row.map_err(|e| ("lazy-decode-error".to_string(), format!("row {i}: {e}")))?;
            if i >= bounds.len() {
                return Err(("lazy-row-count".into(), format!("more than {} rows", bounds.len())));
            }
            let used = delivered.get();
            if used > bounds[i] {
                return Err((
                    "lazy-reads-ahead".into(),
                    format!("row {i} of {} yielded after consuming {used} bytes; the first token after that row ends at byte {} (+12 lookahead)", bounds.len(), bounds[i] - 12.min(bounds[i])),
                ));
            }
            i += 1;
        }
        if i != bounds.len() {
            return Err(("lazy-row-count".into(), format!("{i} rows yielded, document has {}", bounds.len())));
        }
        Ok(())
    });
    match res {
        Err(p) => Err(("lazy-panic".into(), p)),
        Ok(r) => r,
    }
}

/// Every way of driving the lazy iterator gives the rows of `parse_grid`: next, nth(k), skip(k),
/// step_by(k), last, count, size_hint bounds, take_while … (an overridden adaptor method must agree
/// with the default one built on `next`).
fn iterator_api_case(doc: &str) -> Verdict {
    let rows_of = |g: &libhaystack::val::Grid| -> Vec<String> { g.rows.iter().map(|r| format!("{:?}", from_lib(&Value::Dict(r.clone())))).collect() };
    let want: Vec<String> = {
        let mut c = std::io::Cursor::new(doc.as_bytes());
        match Parser::make(&mut c).map_err(|e| e.to_string()).and_then(|mut p| parse_grid(&mut p).map_err(|e| e.to_string())) {
            Ok(g) => rows_of(&g),
            Err(_) => return Ok(()),
        }
    };
    let n = want.len();
    let show = |r: Option<Result<libhaystack::val::Dict, std::io::Error>>| -> Option<String> { r.map(|x| x.map(|d| format!("{:?}", from_lib(&Value::Dict(d)))).unwrap_or_else(|e| format!("Err({e})"))) };
    macro_rules! with_iter {
        ($it:ident, $body:expr) => {{
            let mut c = std::io::Cursor::new(doc.as_bytes());
            let mut p = Parser::make(&mut c).map_err(|e| ("iterator-api-decode-error".to_string(), e.to_string()))?;
            #[allow(unused_mut)]
            let mut $it = parse_grid_iterator(&mut p).map_err(|e| ("iterator-api-decode-error".to_string(), e.to_string()))?;
            $body
        }};
    }
    let r = guarded(|| -> Verdict {
        for k in 0..=n + 1 {
            // nth(k), then the row after it
            let (a, b) = with_iter!(it, (show(it.nth(k)), show(it.next())));
            if a != want.get(k).cloned() || b != want.get(k + 1).cloned() {
                return Err(("iterator-api:nth".into(), format!("nth({k}) then next() give {a:?}, {b:?}; rows are {want:?}")));
            }
            let a: Vec<Option<String>> = with_iter!(it, it.skip(k).map(|x| show(Some(x))).collect());
            if a.iter().flatten().cloned().collect::<Vec<_>>() != want[k.min(n)..].to_vec() {
                return Err(("iterator-api:skip".into(), format!("skip({k}) gives {a:?}; rows are {want:?}")));
            }
            if k >= 1 {
                let a: Vec<String> = with_iter!(it, it.step_by(k).filter_map(|x| show(Some(x))).collect());
                let w: Vec<String> = want.iter().step_by(k).cloned().collect();
                if a != w {
                    return Err(("iterator-api:step_by".into(), format!("step_by({k}) gives {a:?}, expected {w:?}")));
                }
            }
            let a: Vec<String> = with_iter!(it, it.take(k).filter_map(|x| show(Some(x))).collect());
            if a != want[..k.min(n)].to_vec() {
                return Err(("iterator-api:take".into(), format!("take({k}) gives {a:?}")));
            }
        }
        let a = with_iter!(it, show(it.last()));
        if a != want.last().cloned() {
            return Err(("iterator-api:last".into(), format!("last() gives {a:?}")));
        }
        let a = with_iter!(it, it.count());
        if a != n {
            return Err(("iterator-api:count".into(), format!("count() gives {a}, the grid has {n} rows")));
        }
        let (lo, hi) = with_iter!(it, it.size_hint());
        if lo > n || hi.map_or(false, |h| h < n) {
            return Err(("iterator-api:size_hint".into(), format!("size_hint() = ({lo}, {hi:?}) for {n} rows")));
        }
        let a: Vec<String> = with_iter!(it, it.by_ref().filter_map(|x| show(Some(x))).collect());
        if a != want {
            return Err(("iterator-api:next".into(), format!("next() rows {a:?}, parse_grid rows {want:?}")));
        }
        Ok(())
    });
    match r {
        Err(p) => Err(("iterator-api-panic".into(), p)),
        Ok(v) => v,
    }
}

// ------------------------------------------------------------------------------ run

fn mutant_texts(tier: Tier) -> Vec<String> {
    // accepted or not is decided at run time; here: every single-byte mutant of the small documents
    let t = tables(tier);
    let mut out = vec![];
    for d in t.zdocs.iter().filter(|d| d.len() <= tier.pick(24, 40)) {
        let l = d.len();
        for i in 0..l {
            for &b in TOK {
                let mut m = d.clone();
                m[i] = b;
                out.push(String::from_utf8_lossy(&m).to_string());
            }
            let mut m = d.clone();
            m.remove(i);
            out.push(String::from_utf8_lossy(&m).to_string());
        }
    }
    out
}

pub fn run(tier: Tier) -> i32 {
    let mut run = Run::new("C11", tier, "model_checking");
    run.rule = "(a) stability: every spelling with <= 1 (thorough 2) deviations of the scalar alphabet and of a container sample (reference writer), the corpus files shipped with the repository, a timestamp in every zone of the database (bare and inside a grid / list / dict), every accepted single-byte mutant of the small documents, for Zinc and Hayson: decode, re-encode, decode again (same value incl. grid ver), re-encode (identical text). (b) chunking (E2): every script of a reader that at each read() delivers all / one byte / half / Interrupted, with <= 2 deviations, for parse_value and for parse_grid_iterator vs parse_grid. (a'/b') every size witness (strings, widths, nesting at and around 2^6..2^16): stable in both formats, and its Zinc text through readers delivering at most 1..17, 31..33, 63..65, 100, 255..257, 1000, 4095..4097, 8191..8193 bytes per call, or Interrupted on the first / every 2nd / 3rd / 5th / 7th call decodes (whole value and lazy rows) as from a buffer. (b'') the iterator API of the lazy row iterator (nth, skip, step_by, take, last, count, size_hint, next) on the laziness documents and on grids with nested grid / list / dict cells gives the rows of parse_grid. (c) laziness: a counting reader under parse_grid_iterator for grids of 1-3 columns x 1-40 rows (LF and CRLF, nested grids, empty cells): bytes consumed when row i is yielded <= end of the first token after row i + 12; the same for grids of 1 000 / 5 000 / 20 000 (thorough 100 000) rows — up to megabytes — at every row. states = documents, transitions = reader scripts executed; non-trivial = distinct accepted text".into();
    run.assume("12 bytes = the lexer's maximal lookahead (1 scanner byte + up to 10 peeked bytes for number/date detection + CR LF)");
    run.assume("Interrupted reads are retried by the decoder (std::io::Read::read_exact semantics)");
    crate::engine::quiet_panics();
    {
        let pool: Vec<V> = super::c01::probe_pool();
        if super::common::probe_first(&mut run, "zinc-codec", &pool, &super::c01::zinc_observation, &|v: &V| crate::model::v::to_json(v)) {
            return run.finish(&replay);
        }
    }

    // (a) grammar spellings
    let mut vals: Vec<V> = u::scalars(Tier::Quick);
    let cont = u::containers(Tier::Quick);
    for (i, c) in cont.into_iter().enumerate() {
        if i % tier.pick(23, 5) == 0 {
            vals.push(c);
        }
    }
    // grids with a non-default version (a decoder keeps `ver`)
    for ver in ["2.0", "3.0", "4"] {
        vals.push(V::Grid(Box::new(crate::model::v::G { ver: ver.into(), meta: None, cols: vec![crate::model::v::Col { name: "a".into(), meta: None }], rows: vec![crate::model::v::mk_tags(&[("a", V::num(1.0))])] })));
    }
    let bound = tier.pick(1usize, 2);
    let l = par_for(vals.len(), |i, local| {
        for s in zinc_ref::spellings(&vals[i], bound, 3000) {
            run_stable("zinc", &s, local);
        }
        // the Hayson text libhaystack emits, and a hand-respelled variant (member order reversed via serde_json::Value)
        if let Ok(Ok(t)) = guarded(|| serde_json::to_string(&crate::model::v::to_lib(&vals[i]))) {
            run_stable("hayson", &t, local);
        }
        local.states += 1;
    });
    run.absorb(l);
    // corpora
    for (fmt, path) in [("zinc", "/repo/tests/defs/defs.zinc"), ("zinc", "/repo/benches/zinc/points.zinc"), ("hayson", "/repo/benches/json/points.json")] {
        match std::fs::read_to_string(path) {
            Ok(text) => {
                let mut l = Local::new();
                run_stable(fmt, &text, &mut l);
                if l.counters.get(&format!("{fmt}-accepted")).is_none() && l.fails.is_empty() {
                    crate::engine::machinery(&format!("corpus file {path} is not accepted by the decoder"));
                }
                // corpus failures carry the path instead of the whole text
                for f in l.fails.values_mut() {
                    f.case = json!({"format": fmt, "file": path});
                }
                l.count("corpus-files");
                run.absorb(l);
            }
            Err(e) => crate::engine::machinery(&format!("{path}: {e}")),
        }
    }
    // accepted mutants
    // every zone of the database (two instants), bare and as a grid cell, in both formats
    let zones = crate::model::time_ref::in_model_zones();
    let l = par_for(zones.len(), |i, local| {
        for t in [1_610_000_000i64, 1_625_556_600] {
            // texts from the reference writers (the statement is about any accepted text, not only
            // about what the library itself writes)
            let v = V::dt(t, 0, &zones[i]);
            let z = zinc_ref::write_canonical(&v);
            run_stable("zinc", &z, local);
            run_stable("zinc", &format!("ver:\"3.0\"\nts,n\n{z},1\n"), local);
            let (j, _) = crate::model::hayson_ref::write(&v, &mut Chooser::replaying(vec![]));
            run_stable("hayson", &j, local);
            run_stable("hayson", &format!("[{j},{{\"ts\":{j}}}]"), local);
            local.count("zone-texts");
            if zinc_stable(&z) != Ok(true) || hayson_stable(&j) != Ok(true) {
                local.count("zone-texts-not-accepted");
            }
        }
    });
    run.absorb(l);
    run.require(run.counter("zone-texts") > 1000 && run.counter("zone-texts-not-accepted") == 0 || !run.stats.fails.is_empty(), "zone texts of the reference writers are not all accepted");
    let muts = mutant_texts(tier);
    let l = par_for(muts.len(), |i, local| run_stable("zinc", &muts[i], local));
    run.absorb(l);
    let t = tables(tier);
    let jdocs: Vec<&Vec<u8>> = t.jdocs.iter().filter(|d| d.len() <= tier.pick(40, 70)).collect();
    let l = par_for(jdocs.len(), |i, local| {
        let d = jdocs[i];
        for k in 0..d.len() {
            for &b in b"{}[]\":,_kindvalu0-.e tr" {
                let mut m = (*d).clone();
                m[k] = b;
                run_stable("hayson", &String::from_utf8_lossy(&m), local);
            }
            let mut m = (*d).clone();
            m.remove(k);
            run_stable("hayson", &String::from_utf8_lossy(&m), local);
        }
    });
    run.absorb(l);

    // (a'/b') size witnesses: stability and fixed chunk sizes on large documents
    let nsw = u::size_witnesses_cached(tier).len();
    let l = crate::engine::par_for_stack(nsw, 64 << 20, |i, local| {
        local.eval();
        local.count("size-witnesses");
        local.transitions += CHUNK_SIZES.len() as u64;
        match size_witness_case(i, tier) {
            Ok(()) => local.outcome("stable"),
            Err((sig, d)) => local.fail(&sig, json!({"size_witness": i, "tier": tier.name()}), d),
        }
    });
    run.absorb(l);

    // (b) chunking
    let docs: Vec<&Vec<u8>> = t.zdocs.iter().filter(|d| d.len() <= tier.pick(56, 80)).collect();
    run.note("chunking_documents", json!(docs.len()));
    let l = par_for(docs.len(), |i, local| {
        let b = if docs[i].len() <= 12 { 4 } else { 2 };
        chunk_case(docs[i], b, local);
    });
    run.absorb(l);

    // (c) laziness
    let mut lazy: Vec<(String, Vec<usize>)> = vec![];
    for ncols in 1..=3 {
        for nrows in 1..=40 {
            for seed in 0..tier.pick(3, 10) {
                for crlf in [false, true] {
                    lazy.push(lazy_doc(ncols, nrows, seed, crlf, false));
                }
            }
        }
    }
    // the iterator API on every laziness document and on grids with nested grid / list / dict cells
    let mut api_docs: Vec<String> = lazy.iter().step_by(tier.pick(7, 1)).map(|d| d.0.clone()).collect();
    for nrows in 0..=6usize {
        for cell in ["<<\nver:\"3.0\"\nx,y\n1,2\n3,4\n>>", "[1,\n2]", "{a:1 b:<<\nver:\"3.0\"\nz\n1\n>>}", "\"s\"", ""] {
            let mut d = String::from("ver:\"3.0\"\na,b\n");
            for r in 0..nrows {
                d.push_str(&format!("{r},{}\n", if r % 2 == 0 { cell } else { "N" }));
            }
            api_docs.push(d.clone());
            api_docs.push(d.replace('\n', "\r\n"));
        }
    }
    let l = par_for(api_docs.len(), |i, local| {
        local.eval();
        local.transitions += 1;
        local.count("iterator-api-docs");
        if let Err((sig, d)) = iterator_api_case(&api_docs[i]) {
            local.fail(&sig, json!({"iterator_api_doc": api_docs[i]}), d.chars().take(700).collect());
        }
    });
    run.absorb(l);
    let l = par_for(lazy.len(), |i, local| {
        local.eval();
        local.states += 1;
        local.count("lazy-docs");
        if lazy[i].1.len() >= 3 {
            local.count("lazy-docs-3+rows");
        }
        local.nontrivial(&lazy[i].0);
        if let Err((sig, d)) = lazy_case(&lazy[i].0, &lazy[i].1) {
            local.fail(&sig, json!({"lazy_doc": lazy[i].0, "bounds": lazy[i].1}), d);
        }
    });
    run.absorb(l);
    // laziness does not wear off: grids of 1 000 .. 20 000 (thorough 100 000) rows, i.e. up to a few
    // megabytes — the bound holds at every row, however far into the stream
    {
        let mut big: Vec<(usize, usize, usize, bool)> = vec![];
        for nrows in tier.pick(vec![1_000usize, 5_000, 20_000], vec![1_000, 5_000, 20_000, 100_000]) {
            for (ncols, seed, crlf) in [(3usize, 1usize, false), (1, 2, true), (2, 0, false)] {
                big.push((ncols, nrows, seed, crlf));
            }
        }
        let l = par_for(big.len(), |i, local| {
            let (ncols, nrows, seed, crlf) = big[i];
            let (doc, bounds) = lazy_doc(ncols, nrows, seed, crlf, false);
            local.eval();
            local.states += 1;
            local.count("lazy-big-docs");
            local.count_n("lazy-big-bytes", doc.len() as u64);
            if let Err((sig, d)) = lazy_case(&doc, &bounds) {
                local.fail(&format!("{sig}:big-grid"), json!({"lazy_big": [ncols, nrows, seed, crlf as usize]}), d);
            }
        });
        run.absorb(l);
        run.require(run.counter("lazy-big-bytes") > 500_000, "big laziness documents too small");
    }
    run.stats.traces = run.stats.transitions;
    run.require(run.counter("zinc-accepted") > 10_000 && run.counter("hayson-accepted") > 1000, "too few accepted texts");
    run.require(run.counter("corpus-files") == 3, "corpus files");
    run.require(run.counter("chunk-scripts") > 10_000, "chunk scripts");
    run.require(run.counter("lazy-docs-3+rows") > 100, "lazy documents");
    run.stats.samples = vec![json!({"format": "zinc", "text": "ver:\"2.0\"\r\na\r\n1_0e0kW\r\n"}), json!({"chunk_script": [0, 2, 1, 0]}), json!({"lazy_doc": lazy[5].0, "bounds": lazy[5].1})];
    run.finish(&replay)
}

pub fn replay(case: &J) -> Verdict {
    if case["free_running"] == "zinc-codec" {
        let pool: Vec<V> = super::c01::probe_pool();
        return super::common::replay_probe(&pool, &super::c01::zinc_observation, &|v: &V| crate::model::v::to_json(v));
    }
    if let Some(a) = case["lazy_big"].as_array() {
        let g = |k: usize| a[k].as_u64().unwrap_or(0) as usize;
        let (doc, bounds) = lazy_doc(g(0), g(1), g(2), g(3) == 1, false);
        return lazy_case(&doc, &bounds).map_err(|(s, d)| (format!("{s}:big-grid"), d));
    }
    if let Some(doc) = case["iterator_api_doc"].as_str() {
        return iterator_api_case(doc);
    }
    if let Some(doc) = case["lazy_doc"].as_str() {
        let b: Vec<usize> = case["bounds"].as_array().unwrap().iter().map(|x| x.as_u64().unwrap() as usize).collect();
        return lazy_case(doc, &b);
    }
    if let Some(i) = case["size_witness"].as_u64() {
        let tier = if case["tier"] == "thorough" { Tier::Thorough } else { Tier::Quick };
        return size_witness_case(i as usize, tier);
    }
    let fmt = case["format"].as_str().unwrap_or("zinc");
    if let Some(script) = case.get("chunk_script").and_then(|s| s.as_array()) {
        // replay the whole bounded exploration of that document (deterministic) and report its failure
        let mut l = Local::new();
        let text = case["text"].as_str().unwrap_or("");
        let nd = script.iter().filter(|x| x.as_u64() != Some(0)).count().max(1);
        chunk_case(text.as_bytes(), nd, &mut l);
        return match l.fails.values().next() {
            Some(f) => Err((f.sig.clone(), f.detail.clone())),
            None => Ok(()),
        };
    }
    let text = match case["file"].as_str() {
        Some(p) => std::fs::read_to_string(p).unwrap_or_default(),
        None => case["text"].as_str().unwrap_or("").to_string(),
    };
    let r = if fmt == "zinc" { zinc_stable(&text) } else { hayson_stable(&text) };
    r.map(|_| ())
}
