//! C08 — filter text and filter tree correspond: print-then-parse is the identity, and every
//! legal spacing of a filter's text parses to the tree the grammar prescribes (DESIGN §5 C08).

use super::c07::f_unjson;
use super::common::Verdict;
use crate::engine::choice::{explore, Chooser};
use crate::engine::{guarded, machinery, par_for, Local, Run, Tier};
use crate::model::filter_ref::{print, print_canonical, to_lib_filter, Op, F, OPS};
use crate::model::v::{to_json, V};
use libhaystack::filter::Filter;
use serde_json::{json, Value as J};

fn p(s: &str) -> Vec<String> {
    s.split("->").map(|x| x.to_string()).collect()
}

pub fn literals() -> Vec<V> {
    let mut strs: Vec<V> = vec![];
    // every single character of the alphabet Χ and every pair over its core, as Str literals
    for &c in crate::model::universe::CHI {
        strs.push(V::Str(c.to_string()));
    }
    for &a in crate::model::universe::CHI_CORE {
        for &b in crate::model::universe::CHI_CORE {
            strs.push(V::Str(format!("{a}{b}")));
        }
    }
    let mut v = base_literals();
    v.extend(strs);
    v
}

fn base_literals() -> Vec<V> {
    vec![
        V::str("s"),
        V::str(""),
        V::str("a\"b\\c\n$d\t\u{8}é😀"),
        V::str("and or not"),
        V::num(5.0),
        V::num(-1.5),
        V::num(1e21),
        V::num(1e-7),
        V::numu(5.5, "kW"),
        V::numu(-40.0, "°F"),
        V::numu(3.0, "%"),
        V::Date(2021, 1, 1),
        V::Time(12, 0, 0, 0),
        V::Time(23, 59, 59, 120_000_000),
        V::dt(1_625_097_600, 0, "UTC"),
        V::dt(1_625_097_600, 500_000_000, "America/New_York"),
        V::dt(1_625_097_600, 0, "Australia/Sydney"),
        V::dt(1_610_000_000, 0, "Asia/Kolkata"),
        V::dt(1_610_000_000, 0, "Europe/London"),
        V::Ref("r".into(), None),
        V::Ref("a-b:c.d~e_1".into(), None),
        V::Ref("r".into(), Some("Dis \"q\" x".into())),
        V::Ref("r".into(), Some("b\\s".into())),
        V::Uri("a\\b".into()),
        V::Uri("http://a/b?c=d&e".into()),
        V::Uri("a`b".into()),
        V::Sym("s".into()),
        V::Sym("a-b".into()),
        V::Bool(true),
        V::Bool(false),
    ]
}

pub fn all_leaves() -> Vec<F> {
    leaves_over(base_literals())
}

fn leaves() -> Vec<F> {
    let mut out = leaves_over(literals());
    // every scalar of the alphabet Σ that the filter grammar can spell, once (operator and path rotate)
    let mut k = 0usize;
    for v in crate::model::universe::scalars(crate::engine::Tier::Quick) {
        let ok = match &v {
            V::Num(x, _) => x.is_finite(),
            V::Str(_) | V::Ref(..) | V::Uri(_) | V::Sym(_) | V::Date(..) | V::Time(..) | V::DateTime(_) | V::Bool(_) => true,
            _ => false,
        };
        if ok {
            out.push(F::Cmp(p(["a", "a->b", "siteRef"][k % 3]), OPS[k % OPS.len()], v));
            k += 1;
        }
    }
    // tag names that start with or equal a keyword, single letters, digits and '_' in second position
    for name in ["notify", "order", "android", "trueish", "falsePositive", "t", "f", "n", "na", "inf", "nan", "a1", "a_b", "siteRef", "curVal", "nottingham", "oracle", "andOr"] {
        out.push(F::Has(p(name)));
        out.push(F::Missing(p(&format!("{name}->{name}"))));
        out.push(F::Cmp(p(name), Op::Lt, V::num(-5.0)));
        out.push(F::Cmp(p(&format!("a->{name}")), Op::Eq, V::Bool(true)));
    }
    out
}

fn leaves_over(lits: Vec<V>) -> Vec<F> {
    let mut out = vec![];
    for path in ["a", "zZ_9", "a->b", "a->b->c", "a->b->c->d", "andy", "ore", "nota", "truey"] {
        out.push(F::Has(p(path)));
        out.push(F::Missing(p(path)));
    }
    for (i, lit) in lits.into_iter().enumerate() {
        for (j, op) in OPS.iter().enumerate() {
            let path = ["a", "a->b", "a->b->c->d"][(i + j) % 3];
            out.push(F::Cmp(p(path), *op, lit.clone()));
        }
    }
    out.push(F::IsA("site".into()));
    out.push(F::IsA("hot-water".into()));
    out.push(F::IsA("lib:ph".into()));
    out.push(F::Wild(p("a"), "r".into(), None));
    out.push(F::Wild(p("a->b"), "x-y".into(), Some("d".into())));
    out.push(F::Rel("containedBy".into(), None, None));
    out.push(F::Rel("inputs".into(), Some("air".into()), None));
    out.push(F::Rel("containedBy".into(), None, Some(("r".into(), None))));
    out.push(F::Rel("inputs".into(), Some("air-output".into()), Some(("r".into(), Some("d".into())))));
    out
}

fn core_leaves() -> Vec<F> {
    vec![
        F::Has(p("a")),
        F::Has(p("a->b")),
        F::Missing(p("a")),
        F::Cmp(p("a"), Op::Eq, V::num(5.0)),
        F::Cmp(p("a->b"), Op::Lt, V::num(-1.5)),
        F::Cmp(p("a"), Op::Ge, V::str("s")),
        F::Cmp(p("a"), Op::Ne, V::Ref("r".into(), Some("d".into()))),
        F::Cmp(p("a"), Op::Eq, V::Bool(true)),
        F::Cmp(p("a"), Op::Gt, V::dt(1_625_097_600, 0, "America/New_York")),
        F::IsA("site".into()),
        F::Wild(p("a"), "r".into(), None),
        F::Rel("inputs".into(), Some("air".into()), Some(("r".into(), None))),
        F::Rel("containedBy".into(), None, None),
    ]
}

/// Debug rendering of the tree with Ref display names blanked: filter equality (like Ref
/// equality) is by id, so a display name is not part of "an equal filter"
fn tree_key(f: &Filter) -> String {
    let s = format!("{:?}", f.or);
    let mut out = String::new();
    let mut rest = s.as_str();
    while let Some(i) = rest.find("dis: Some(\"") {
        out.push_str(&rest[..i]);
        out.push_str("dis: _");
        // skip the quoted string (Debug escapes quotes as \")
        let body = &rest[i + 11..];
        let mut esc = false;
        let mut end = body.len();
        for (k, c) in body.char_indices() {
            if esc {
                esc = false;
            } else if c == '\\' {
                esc = true;
            } else if c == '"' {
                end = k + 1;
                break;
            }
        }
        rest = &body[end..];
        rest = rest.strip_prefix(')').unwrap_or(rest);
    }
    out.push_str(rest);
    out.replace("dis: None", "dis: _")
}

fn leaf_class(f: &F) -> String {
    match f {
        F::Or(_) | F::And(_) | F::Parens(_) => {
            // compound: connective structure + the coarse kinds of the leaves involved
            fn shape(f: &F) -> String {
                match f {
                    F::Or(v) => format!("or{}", v.len()),
                    F::And(v) => format!("and{}", v.len()),
                    F::Parens(x) => format!("parens({})", shape(x)),
                    _ => String::new(),
                }
            }
            let mut kinds: Vec<String> = leaves_of(f)
                .iter()
                .map(|l| match l {
                    F::Has(p) => format!("has[{}]", p.len().min(2)),
                    F::Missing(_) => "missing".to_string(),
                    F::Cmp(p, _, _) => format!("cmp[{}]", p.len().min(2)),
                    F::IsA(_) => "isa".to_string(),
                    F::Wild(..) => "wildcard".to_string(),
                    _ => "rel".to_string(),
                })
                .collect();
            kinds.sort();
            kinds.dedup();
            format!("{}{{{}}}", shape(f), kinds.join(","))
        }
        F::Has(p) => format!("has[{}]", p.len().min(2)),
        F::Missing(p) => format!("missing[{}]", p.len().min(2)),
        F::Cmp(p, _, v) => format!("cmp[{}]{}", p.len().min(2), crate::model::shrink::shape_sig(v)),
        F::IsA(_) => "isa".into(),
        F::Wild(..) => "wildcard".into(),
        F::Rel(_, t, r) => format!("rel[{}{}]", if t.is_some() { "term" } else { "" }, if r.is_some() { "+ref" } else { "" }),
    }
}

/// (1) libhaystack's own printing parses back to an equal tree
fn print_parse(f: &F) -> Verdict {
    let lf = to_lib_filter(f);
    let want = tree_key(&lf);
    let text = guarded(|| lf.to_string()).map_err(|p| ("print-panic".to_string(), p))?;
    match guarded(|| Filter::try_from(text.as_str())) {
        Err(p) => Err(("parse-panic".into(), format!("{p}; text={text:?}"))),
        Ok(Err(e)) => Err(("printed-text-rejected".into(), format!("{e}; text={text:?}"))),
        Ok(Ok(back)) => {
            if tree_key(&back) != want {
                return Err(("printed-text-parses-to-other-tree".into(), format!("text={text:?}: parsed {}, original {want}", tree_key(&back))));
            }
            // a second print is a fixed point
            let t2 = back.to_string();
            if t2 != text {
                return Err(("print-not-stable".into(), format!("{text:?} reprints as {t2:?}")));
            }
            Ok(())
        }
    }
}

/// (2) one legal spelling of the reference printer
fn one_spelling(f: &F, ch: &mut Chooser) -> (String, Vec<&'static str>, Verdict) {
    let (text, dev) = print(f, ch);
    let want = tree_key(&to_lib_filter(f));
    let v = match guarded(|| Filter::try_from(text.as_str())) {
        Err(p) => Err(("parse-panic".to_string(), format!("{p}; text={text:?}"))),
        Ok(Err(e)) => Err(("spelling-rejected".to_string(), format!("{e}; text={text:?}"))),
        Ok(Ok(back)) => {
            if tree_key(&back) == want {
                Ok(())
            } else {
                Err(("spelling-parses-to-other-tree".to_string(), format!("text={text:?}: parsed {}, expected {want}", tree_key(&back))))
            }
        }
    };
    (text, dev, v)
}

fn f_json(f: &F) -> J {
    // reuse C07's descriptor format
    match f {
        F::Or(v) => json!({"or": v.iter().map(f_json).collect::<Vec<_>>()}),
        F::And(v) => json!({"and": v.iter().map(f_json).collect::<Vec<_>>()}),
        F::Parens(x) => json!({"parens": f_json(x)}),
        F::Has(p) => json!({"has": p}),
        F::Missing(p) => json!({"missing": p}),
        F::Cmp(p, op, v) => json!({"cmp": p, "op": op.text(), "lit": to_json(v)}),
        F::IsA(s) => json!({"isa": s}),
        F::Wild(p, r, d) => json!({"wild": p, "ref": r, "dis": d}),
        F::Rel(r, t, x) => json!({"rel": r, "term": t, "ref": x.as_ref().map(|(a, b)| json!([a, b]))}),
    }
}

fn check_tree(f: &F, bound: usize, local: &mut Local) {
    local.eval();
    local.states += 1;
    local.nontrivial(&format!("{f:?}"));
    if let Err((stage, d)) = print_parse(f) {
        // attribute to a leaf when a leaf alone fails
        let mut done = false;
        for leaf in leaves_of(f) {
            if let Err((s2, d2)) = print_parse(&leaf) {
                local.fail(&format!("{s2}:{}", leaf_class(&leaf)), json!({"filter": f_json(&leaf)}), d2);
                done = true;
                break;
            }
        }
        if !done {
            local.fail(&format!("{stage}:{}", leaf_class(f)), json!({"filter": f_json(f)}), d);
        }
        local.outcome("print-parse-fails");
        return;
    }
    let mut fail: Option<(Vec<u32>, Vec<&'static str>, String, String)> = None;
    let st = explore(Some(bound), 2_000_000, |ch| {
        let (_t, dev, v) = one_spelling(f, ch);
        for d in &dev {
            local.count(&format!("deviated:{d}"));
        }
        match v {
            Ok(()) => true,
            Err((stage, detail)) => {
                let mut types = dev;
                types.sort();
                types.dedup();
                fail = Some((ch.choices(), types, stage, detail));
                false
            }
        }
    });
    local.transitions += st.executions;
    if st.capped {
        local.count("capped");
    }
    match fail {
        None => local.outcome("ok"),
        Some((choices, types, stage, detail)) => {
            local.outcome(&stage);
            // minimise to a leaf if a leaf alone has a failing spelling within the same bound
            for leaf in leaves_of(f) {
                let mut lf: Option<(Vec<u32>, Vec<&'static str>, String, String)> = None;
                explore(Some(bound), 200_000, |ch| {
                    let (_t, dev, v) = one_spelling(&leaf, ch);
                    match v {
                        Ok(()) => true,
                        Err((s, d)) => {
                            let mut t = dev;
                            t.sort();
                            t.dedup();
                            lf = Some((ch.choices(), t, s, d));
                            false
                        }
                    }
                });
                if let Some((c, t, s, d)) = lf {
                    local.fail(&format!("{s}[{}]:{}", t.join("+"), leaf_class(&leaf)), json!({"filter": f_json(&leaf), "choices": c}), d);
                    return;
                }
            }
            local.fail(&format!("{stage}[{}]:{}", types.join("+"), leaf_class(f)), json!({"filter": f_json(f), "choices": choices}), detail);
        }
    }
}

fn leaves_of(f: &F) -> Vec<F> {
    match f {
        F::Or(v) | F::And(v) => v.iter().flat_map(leaves_of).collect(),
        F::Parens(x) => leaves_of(x),
        other => vec![other.clone()],
    }
}

/// pool and operation of the free-running probe: printed leaves and prefixes of two multi-segment
/// filters, parsed to a tree rendering or an error text
fn parser_probe_pool() -> Vec<String> {
    let mut texts: Vec<String> = core_leaves().iter().map(print_canonical).collect();
    for t in ["equipRef->siteRef->dis == \"HQ\" and not a->b->c", "a->b->c >= 5kW or b->c == @r \"d\""] {
        for k in (0..=t.len()).step_by(3) {
            if t.is_char_boundary(k) {
                texts.push(t[..k].to_string());
            }
        }
    }
    texts
}

fn parser_probe_op(t: &String) -> String {
    match Filter::try_from(t.as_str()) {
        Ok(f) => format!("ok {} | {}", tree_key(&f), f),
        Err(e) => format!("err {e}"),
    }
}

pub fn run(tier: Tier) -> i32 {
    let mut run = Run::new("C08", tier, "model_checking");
    run.rule = "filter trees built from the public node structs: every leaf over literals of every admissible kind (strings with every escape class, numbers ± fraction / 1e21 / 1e-7 / units, dates, times with fraction, timestamps UTC and zoned (+/-, two-digit hour, half hour, zero offset), refs with and without display name incl. a quote, uris, symbols, booleans), paths of 1-4 segments incl. names that start with a keyword, not, ^symbol, *==, four relationship forms; every and/or/parens shape with <= 2 (thorough 3) leaves over a core. (1) Filter::to_string then Filter::try_from gives an equal tree (Debug rendering) and reprints identically; (2) every spelling of the reference printer with <= 2 deviations (required white space: one space / two / newline / tab; optional white space around operators, parens and ->: default / toggled / newline / two spaces) parses to the same tree. (3) long chains: n flat parenthesised groups, n leaves, n and-in-or terms, nesting n deep, for every n 1..72, 100, 120, 126..130, 255..257, 1000; (4) flat chains of 5 000 / 20 000 / 100 000 (thorough 300 000) operands in five shapes, each printed, parsed and reprinted in a child process on a 2 MiB stack (crash / hang = exit status / 30 s watchdog). (5) history independence of the parser over ~330 texts (well-formed ones and every proper prefix of six multi-segment filters: errors at every position): all ordered pairs, and every third failing text 300 times before each of the six. states = trees, transitions = spellings parsed".into();
    run.assume("an 'equal filter' compares Refs by id (libhaystack's and Haystack's Ref equality): display names of Refs are not compared");
    run.assume("filter grammar of DESIGN Appendix A.3; literal syntax = Zinc scalar syntax; tag names exclude the reserved words");
    crate::engine::quiet_panics();
    if super::common::probe_first(&mut run, "filter-parser", &parser_probe_pool(), &parser_probe_op, &|t: &String| json!(t)) {
        return run.finish(&replay);
    }
    let all = leaves();
    let l = par_for(all.len(), |i, local| check_tree(&all[i], 3, local));
    run.absorb(l);
    let core = core_leaves();
    let n = core.len();
    // shapes
    let l = par_for(n * n, |k, local| {
        let (i, j) = (k / n, k % n);
        let (a, b) = (core[i].clone(), core[j].clone());
        let shapes: Vec<F> = vec![
            F::And(vec![a.clone(), b.clone()]),
            F::Or(vec![a.clone(), b.clone()]),
            F::Parens(Box::new(F::Or(vec![a.clone(), b.clone()]))),
            F::And(vec![F::Parens(Box::new(a.clone())), b.clone()]),
            F::Or(vec![a.clone(), F::Parens(Box::new(F::Parens(Box::new(b.clone()))))]),
        ];
        for s in &shapes {
            check_tree(s, 2, local);
        }
        if tier == Tier::Thorough || (i + j) % 4 == 0 {
            for m in 0..n {
                if tier == Tier::Quick && m % 3 != 0 {
                    continue;
                }
                let c = core[m].clone();
                for s in [
                    F::Or(vec![F::And(vec![a.clone(), b.clone()]), c.clone()]),
                    F::Or(vec![a.clone(), F::And(vec![b.clone(), c.clone()])]),
                    F::And(vec![F::Parens(Box::new(F::Or(vec![a.clone(), b.clone()]))), c.clone()]),
                    F::And(vec![a.clone(), b.clone(), c.clone()]),
                ] {
                    check_tree(&s, tier.pick(1, 2), local);
                }
            }
        }
    });
    run.absorb(l);
    run.stats.traces = run.stats.transitions;
    run.exhaustive = run.counter("capped") == 0;
    // long chains: n flat parenthesised groups, n leaves, n-fold and-in-or, nesting n deep (within
    // the parser's limit of 128), for every n 1..72, 100, 120, 126..130 (flat only beyond 127), 255..257, 1000
    let ns: Vec<usize> = (1..=72).chain([100, 120, 126, 127, 128, 129, 130, 255, 256, 257, 1000]).collect();
    let l = crate::engine::par_for_stack(ns.len(), 256 << 20, |i, local| {
        let n = ns[i];
        let a = |k: usize| F::Cmp(p(["a", "b", "c"][k % 3]), OPS[k % OPS.len()], V::num(k as f64));
        let mut trees: Vec<F> = vec![
            F::Or((0..n.max(2)).map(|k| F::Parens(Box::new(a(k)))).collect()),
            F::And((0..n.max(2)).map(|k| F::Parens(Box::new(F::Or(vec![a(k), F::Has(p("x"))])))).collect()),
            F::And((0..n.max(2)).map(a).collect()),
            F::Or((0..n.max(2)).map(|k| F::And(vec![a(k), F::Missing(p("y"))])).collect()),
        ];
        if n <= 126 {
            let mut t = a(0);
            for _ in 0..n {
                t = F::Parens(Box::new(t));
            }
            trees.push(t);
        }
        for t in trees {
            local.eval();
            local.states += 1;
            local.transitions += 1;
            local.count("long-chains");
            local.nontrivial(&format!("chain{n}:{}", leaf_class(&t)));
            if let Err((stage, d)) = print_parse(&t) {
                local.fail(&format!("{stage}:{}", leaf_class(&t)), json!({"filter": f_json(&t)}), d.chars().take(600).collect());
                continue;
            }
            // the reference printer's canonical text parses to the tree as well
            let text = print_canonical(&t);
            match guarded(|| Filter::try_from(text.as_str())) {
                Err(pn) => local.fail(&format!("canonical-text-panic:{}", leaf_class(&t)), json!({"filter": f_json(&t), "canonical": true}), pn),
                Ok(Err(e)) => local.fail(&format!("canonical-text-rejected:{}", leaf_class(&t)), json!({"filter": f_json(&t), "canonical": true}), format!("{e}; {} groups/leaves", n)),
                Ok(Ok(parsed)) => {
                    if tree_key(&parsed) != tree_key(&to_lib_filter(&t)) {
                        local.fail(&format!("canonical-text-parses-to-other-tree:{}", leaf_class(&t)), json!({"filter": f_json(&t), "canonical": true}), format!("{n} groups/leaves"));
                    }
                }
            }
        }
    });
    run.absorb(l);
    run.require(run.counter("long-chains") > 300, "long chains missing");
    // history independence of the parser: the tree (or the error) for a text is the same whether
    // it is the first text parsed on a thread or follows any other text — well-formed texts and
    // every proper prefix of six multi-segment ones (errors at every position, incl. inside a
    // path, a literal, a relationship term); all ordered pairs, and each failing text 300 times
    {
        let mut texts: Vec<String> = core_leaves().iter().map(print_canonical).collect();
        let long: Vec<String> = vec![
            "equipRef->siteRef->dis == \"HQ\" and not a->b->c".into(),
            "a->b->c >= 5kW or b->c == @r \"d\"".into(),
            "containedBy? ^site @r and x->y".into(),
            "(a->b or c->d->e < 2021-01-01) and f *== @x".into(),
            "a->b->c->d == `u` or ^lib:ph and inputs? ^air".into(),
            "ts->mod > 2021-01-01T00:00:00-05:00 New_York".into(),
        ];
        for t in &long {
            for k in 0..=t.len() {
                if t.is_char_boundary(k) {
                    texts.push(t[..k].to_string());
                }
            }
        }
        texts.sort();
        texts.dedup();
        let op = |t: &String| -> String {
            match Filter::try_from(t.as_str()) {
                Ok(f) => format!("ok {}", tree_key(&f)),
                Err(e) => format!("err {e}"),
            }
        };
        run.note("parser_history_texts", json!(texts.len()));
        let l = super::common::history_pairs("filter-parser", &texts, &op, &|t: &String| json!(t));
        run.absorb(l);
        let failing: Vec<String> = texts.iter().filter(|t| op(t).starts_with("err")).step_by(3).cloned().collect();
        let then: Vec<String> = long.clone();
        let l = super::common::history_after_repeats("filter-parser", &failing, &then, 300, &op, &|t: &String| json!(t));
        run.absorb(l);
    }
    // very long flat chains, each in a child process on a 2 MiB stack
    {
        let sizes = flat_sizes(tier);
        let n = (sizes.len() * FLAT_SHAPES) as u64;
        let all = flat_sizes(Tier::Thorough);
        let d = move |ord: u64| json!({"job": "flat", "ordinal": ord, "generated": true, "shape": (ord as usize) % FLAT_SHAPES, "n": all[(ord as usize) / FLAT_SHAPES], "stack": "2MiB"});
        let job = crate::engine::isolate::Job { prop: "C08", tier: tier.name(), job: "flat", n, chunk: 1, env: vec![], exe: None, describe: &d };
        let l = crate::engine::isolate::run_job(&job);
        let clean = l.fails.is_empty();
        run.absorb(l);
        run.require(!clean || run.counter("flat-chains") >= n, "flat chains missing");
    }
    for t in ["required-space", "optional-space"] {
        run.require(run.counter(&format!("deviated:{t}")) > 0, &format!("choice type {t} never deviated"));
    }
    run.stats.samples = vec![json!({"tree": "a->b < -1.5 and ( not c or d == @r \"x\" )", "spellings": ["a->b< -1.5 and(not c or d==@r \"x\")", "a ->\nb < -1.5\tand ( not  c or d == @r \"x\" )"]})];
    let _ = (machinery as fn(&str) -> !, print_canonical as fn(&F) -> String);
    run.finish(&replay)
}

// ------------------------------------------------------------------------------ very long flat chains (isolated)

const FLAT_SHAPES: usize = 5;
fn flat_sizes(tier: Tier) -> Vec<usize> {
    tier.pick(vec![5_000, 20_000, 100_000], vec![5_000, 20_000, 100_000, 300_000])
}

fn flat_tree(shape: usize, n: usize) -> F {
    let a = |k: usize| F::Cmp(p(["a", "b", "c"][k % 3]), OPS[k % OPS.len()], V::Ref(format!("p{k}"), None));
    match shape {
        0 => F::Or((0..n).map(a).collect()),
        1 => F::And((0..n).map(a).collect()),
        2 => F::Or((0..n).map(|k| F::And(vec![a(k), F::Missing(p("y"))])).collect()),
        3 => F::And((0..n).map(|k| F::Parens(Box::new(F::Or(vec![a(k), F::Has(p("x"))])))).collect()),
        _ => F::Or((0..n).map(|k| F::Parens(Box::new(a(k)))).collect()),
    }
}

/// child side: print / parse / reprint of one flat chain on a 2 MiB stack (a crash or hang is
/// reported by the parent from the exit status)
pub fn child(tier: Tier, job: String, start: u64, end: u64, ctx: &mut crate::engine::isolate::ChildCtx, local: &mut Local) {
    let sizes = flat_sizes(Tier::Thorough);
    let _ = tier;
    let one = |ord: u64, local: &mut Local| {
        let (shape, n) = ((ord as usize) % FLAT_SHAPES, sizes[(ord as usize) / FLAT_SHAPES]);
        let t = flat_tree(shape, n);
        local.eval();
        local.states += 1;
        local.transitions += 1;
        local.count("flat-chains");
        local.nontrivial(&format!("flat{shape}:{n}"));
        if let Err((stage, d)) = print_parse(&t) {
            local.fail(&format!("{stage}:flat-chain"), json!({"job": "flat", "ordinal": ord, "generated": true, "shape": shape, "n": n}), d.chars().take(300).collect());
        }
    };
    if let Some(o) = job.strip_prefix("onegen:flat:") {
        ctx.begin(0);
        one(o.parse().unwrap(), local);
        return;
    }
    for ord in start..end {
        ctx.begin(ord);
        one(ord, local);
    }
}

pub fn replay(case: &J) -> Verdict {
    if case["free_running"] == "filter-parser" {
        return super::common::replay_probe(&parser_probe_pool(), &parser_probe_op, &|t: &String| json!(t));
    }
    if case["history_pair"].is_string() || case["history_repeats"].is_string() {
        let op = |t: &String| -> String {
            match Filter::try_from(t.as_str()) {
                Ok(f) => format!("ok {}", tree_key(&f)),
                Err(e) => format!("err {e}"),
            }
        };
        if case["history_repeats"].is_string() {
            return super::common::replay_history_repeats(case, &|j| j.as_str().unwrap_or("").to_string(), &op, "filter-parser");
        }
        return super::common::replay_history_pair(case, &|j| j.as_str().unwrap_or("").to_string(), &op, "filter-parser");
    }
    if case.get("generated").is_some() {
        let jobname = format!("onegen:flat:{}", case["ordinal"].as_u64().unwrap_or(0));
        let c2 = case.clone();
        let d = move |_o: u64| c2.clone();
        let job = crate::engine::isolate::Job { prop: "C08", tier: "thorough", job: &jobname, n: 1, chunk: 1, env: vec![], exe: None, describe: &d };
        let l = crate::engine::isolate::run_job(&job);
        return match l.fails.values().next() {
            Some(f) => Err((f.sig.clone(), if f.sig.starts_with("crash") || f.sig == "hang" { f.sig.clone() } else { f.detail.clone() })),
            None => Ok(()),
        };
    }
    let f = f_unjson(&case["filter"]);
    if let Some(ch) = case.get("choices").and_then(|c| c.as_array()) {
        let choices: Vec<u32> = ch.iter().map(|x| x.as_u64().unwrap_or(0) as u32).collect();
        let mut chooser = Chooser::replaying(choices);
        let (_t, dev, v) = one_spelling(&f, &mut chooser);
        return v.map_err(|(s, d)| {
            let mut t = dev;
            t.sort();
            t.dedup();
            (format!("{s}[{}]:{}", t.join("+"), leaf_class(&f)), d)
        });
    }
    if case["canonical"] == true {
        let text = print_canonical(&f);
        return match guarded(|| Filter::try_from(text.as_str())) {
            Err(pn) => Err((format!("canonical-text-panic:{}", leaf_class(&f)), pn)),
            Ok(Err(e)) => Err((format!("canonical-text-rejected:{}", leaf_class(&f)), e.to_string())),
            Ok(Ok(parsed)) => {
                if tree_key(&parsed) != tree_key(&to_lib_filter(&f)) {
                    Err((format!("canonical-text-parses-to-other-tree:{}", leaf_class(&f)), "other tree".into()))
                } else {
                    Ok(())
                }
            }
        };
    }
    print_parse(&f).map_err(|(s, d)| (format!("{s}:{}", leaf_class(&f)), d))
}
