//! C03 — decoders are total: any input gives a value or an error, never a crash or hang
//! (DESIGN §5 C03). Fault enumeration; every case runs in an isolated child process with a
//! watchdog, so stack overflows, aborts and hangs are observed as verdicts about the subject.

use super::common::Verdict;
use crate::engine::choice::{explore, Chooser};
use crate::engine::isolate::{run_job, ChildCtx, Job};
use crate::engine::{guarded, Local, Run, Tier};
use crate::model::universe as u;
use crate::model::v::V;
use crate::model::zinc_ref;
use libhaystack::encoding::zinc::decode::parser::Parser;
use libhaystack::encoding::zinc::decode::{from_str, parse_grid, parse_grid_iterator};
use libhaystack::val::*;
use serde_json::{json, Value as J};
use std::io::{Cursor, Read};
use std::sync::OnceLock;

pub const TOK: &[u8] = b"\"\\`@^,\n\r{}:[]<>09-.aNTZ( \x80\xff";
const JTOK: &[u8] = b"{}[]\":,_kindval0-.e\\ tu";

// ------------------------------------------------------------------------------ entry points

fn panic_class(msg: &str) -> String {
    let s: String = msg.chars().filter(|c| !c.is_ascii_digit()).take(60).collect();
    s.replace('\n', " ")
}

/// all Zinc entry points on one input; Err = (entry, panic message)
pub fn zinc_entries(bytes: &[u8]) -> Result<u32, (String, String)> {
    let mut accepted = 0u32;
    let text = String::from_utf8_lossy(bytes).to_string();
    if guarded(|| from_str(&text).is_ok()).map_err(|p| ("zinc:from_str".to_string(), p))? {
        accepted += 1;
    }
    guarded(|| {
        let mut c = Cursor::new(bytes);
        if let Ok(mut p) = Parser::make(&mut c) {
            let _ = p.parse_value();
        }
    })
    .map_err(|p| ("zinc:parse_value".to_string(), p))?;
    guarded(|| {
        let mut c = Cursor::new(bytes);
        if let Ok(mut p) = Parser::make(&mut c) {
            let _ = parse_grid(&mut p);
        }
    })
    .map_err(|p| ("zinc:parse_grid".to_string(), p))?;
    let rows = guarded(|| {
        let mut c = Cursor::new(bytes);
        let mut n = 0usize;
        if let Ok(mut p) = Parser::make(&mut c) {
            if let Ok(it) = parse_grid_iterator(&mut p) {
                for r in it {
                    n += 1;
                    if r.is_err() || n > bytes.len() + 2 {
                        break;
                    }
                }
            }
        }
        n
    })
    .map_err(|p| ("zinc:parse_grid_iterator".to_string(), p))?;
    if rows > bytes.len() + 2 {
        return Err(("zinc:parse_grid_iterator".into(), format!("iterator yielded more rows ({rows}) than the input has bytes ({}): it does not terminate", bytes.len())));
    }
    Ok(accepted)
}

pub fn json_entries(bytes: &[u8]) -> Result<u32, (String, String)> {
    let mut accepted = 0u32;
    let text = String::from_utf8_lossy(bytes).to_string();
    if guarded(|| serde_json::from_str::<Value>(&text).is_ok()).map_err(|p| ("hayson:from_str".to_string(), p))? {
        accepted += 1;
    }
    guarded(|| {
        let _ = serde_json::from_slice::<Value>(bytes);
    })
    .map_err(|p| ("hayson:from_slice".to_string(), p))?;
    guarded(|| {
        let _ = serde_json::from_slice::<Dict>(bytes);
        let _ = serde_json::from_slice::<Grid>(bytes);
        let _ = serde_json::from_slice::<Number>(bytes);
        let _ = serde_json::from_slice::<DateTime>(bytes);
        let _ = serde_json::from_slice::<Ref>(bytes);
        let _ = serde_json::from_slice::<Coord>(bytes);
        let _ = serde_json::from_slice::<XStr>(bytes);
        let _ = serde_json::from_slice::<Str>(bytes);
        let _ = serde_json::from_slice::<Marker>(bytes);
        let _ = serde_json::from_slice::<Remove>(bytes);
        let _ = serde_json::from_slice::<Na>(bytes);
        let _ = serde_json::from_slice::<List>(bytes);
        let _ = serde_json::from_slice::<Date>(bytes);
        let _ = serde_json::from_slice::<Time>(bytes);
        let _ = serde_json::from_slice::<Uri>(bytes);
        let _ = serde_json::from_slice::<Symbol>(bytes);
        if let Ok(tree) = serde_json::from_slice::<serde_json::Value>(bytes) {
            let _ = serde_json::from_value::<Value>(tree);
        }
    })
    .map_err(|p| ("hayson:typed".to_string(), p))?;
    Ok(accepted)
}

// ------------------------------------------------------------------------------ document sets

pub fn base_values(tier: Tier) -> Vec<V> {
    let mut v: Vec<V> = vec![];
    let sc = u::scalars(Tier::Quick);
    // one scalar per (kind, shape) class
    let mut seen = std::collections::BTreeSet::new();
    for s in &sc {
        if seen.insert(crate::model::shrink::shape_sig(s)) {
            v.push(s.clone());
        }
    }
    let cont = u::containers(Tier::Quick);
    let step = tier.pick(400, 40);
    for (i, c) in cont.iter().enumerate() {
        if i % step == 0 {
            v.push(c.clone());
        }
    }
    v.push(u::small_grid());
    v.push(u::meta_grid());
    for c in u::pool_containers2().into_iter().take(6) {
        v.push(c);
    }
    v
}

pub struct Tables {
    pub zdocs: Vec<Vec<u8>>,
    zmut_prefix: Vec<u64>,
    pub jdocs: Vec<Vec<u8>>,
    jmut_prefix: Vec<u64>,
    structural: Vec<Vec<u8>>,
    jstructural: Vec<Vec<u8>>,
    splice: Vec<Vec<u8>>,
    rdocs: Vec<Vec<u8>>,
    long: Vec<Vec<u8>>,
    /// short documents for the all-256-bytes substitution / insertion sweep, with prefix sums
    sub_docs: Vec<Vec<u8>>,
    sub_prefix: Vec<u64>,
    jsub_docs: Vec<Vec<u8>>,
    jsub_prefix: Vec<u64>,
}

fn mutants_of(len: usize, alpha: usize) -> u64 {
    let l = len as u64;
    let a = alpha as u64;
    (l + 1) + l * a + l + l + (l + 1) * a
}

fn mutant(doc: &[u8], mut k: u64, alpha: &[u8]) -> Vec<u8> {
    let l = doc.len() as u64;
    let a = alpha.len() as u64;
    if k < l + 1 {
        return doc[..k as usize].to_vec(); // prefix (truncation point)
    }
    k -= l + 1;
    if k < l * a {
        let mut d = doc.to_vec();
        d[(k / a) as usize] = alpha[(k % a) as usize]; // substitution
        return d;
    }
    k -= l * a;
    if k < l {
        let mut d = doc.to_vec();
        d.remove(k as usize); // deletion
        return d;
    }
    k -= l;
    if k < l {
        let mut d = doc.to_vec();
        d.insert(k as usize, doc[k as usize]); // duplication
        return d;
    }
    k -= l;
    let mut d = doc.to_vec();
    d.insert((k / a) as usize, alpha[(k % a) as usize]); // insertion
    d
}

fn structural_docs() -> Vec<Vec<u8>> {
    let mut out: Vec<String> = vec![];
    let hdr = "ver:\"3.0\"\n";
    // rows with more and fewer cells than columns, with and without final newline, CRLF
    for ncols in 1..=3usize {
        let cols: Vec<&str> = ["a", "b", "c"][..ncols].to_vec();
        for ncells in 0..=(ncols + 3) {
            for nl in ["\n", "", "\r\n", "\r"] {
                for cell in ["1", "\"s\"", "", "M", "[1]", "N"] {
                    let row: Vec<&str> = (0..ncells).map(|_| cell).collect();
                    out.push(format!("{hdr}{}\n{}{nl}", cols.join(","), row.join(",")));
                    out.push(format!("{hdr}{}\n{}{nl}{}{nl}", cols.join(","), row.join(","), row.join(",")));
                    out.push(format!("[<<\n{hdr}{}\n{}{nl}>>]", cols.join(","), row.join(",")));
                }
            }
        }
    }
    // unterminated strings / uris / lists / dicts / nested grids at every position
    for body in ["\"abc", "`abc", "[1,2", "{a:1", "{a:", "{a", "<<\nver:\"3.0\"\na\n1\n", "<<\nver:\"3.0\"\na\n1\n>", "<<", "<", "C(1,", "C(1", "Bin(\"x\"", "Bin(", "@a \"x", "\"\\", "\"\\u00", "`\\", "`\\u12", "2021-01-01T", "2021-01-01T00:00:00", "2021-01-01T00:00:00+", "2021-01-01T00:00:00-05:00", "2021-01-01T00:00:00-05:00 ", "2021-01-01T00:00:00Z ", "12:00:", "1e", "1e+", "-", "-I", "-IN", "1kW/", "^", "@"] {
        out.push(body.to_string());
        out.push(format!("[{body}"));
        out.push(format!("{{a:{body}"));
        out.push(format!("{hdr}a\n{body}"));
        out.push(format!("{hdr}a\n{body}\n"));
        out.push(format!("{hdr}a {body}"));
        out.push(format!("ver:\"3.0\" m:{body}\na\n"));
    }
    // header damage
    for h in ["ver", "ver:", "ver:1", "ver:\"3.0\"", "ver:\"3.0\"\n", "ver:\"3.0\"\n\n", "ver:\"3.0\"\na", "ver:\"3.0\"\na,", "ver:\"3.0\"\na,\n", "ver:\"3.0\"\n,a\n", "ver:\"3.0\"\na b\n", "ver:\"3.0\"\na b:\n", "ver:\"3.0\"\nA\n", "ver:\"3.0\" \n", "ver:\"3.0\" x:\na\n", "ver:@a\na\n", "Ver:\"3.0\"\na\n", "ver :\"3.0\"\na\n", "ver:\"3.0\"\r\na\r\n1\r\n", "ver:\"3.0\"\ra\r1\r", "empty", "ver:\"3.0\"\nempty", "ver:\"3.0\"\nempty\n", "ver:\"3.0\"\nempty\n\n1\n"] {
        out.push(h.to_string());
        out.push(format!("<<{h}>>"));
        out.push(format!("<<\n{h}>>"));
        out.push(format!("[<<\n{h}\n>>]"));
    }
    out.into_iter().map(|s| s.into_bytes()).collect()
}

/// token boundaries of a Zinc text (coarse: every position next to a delimiter or white space)
fn boundaries(d: &[u8]) -> Vec<usize> {
    let mut b = vec![0];
    for i in 1..d.len() {
        let delim = |c: u8| b",\n\r{}:[]<> \"`()".contains(&c);
        if delim(d[i]) || delim(d[i - 1]) {
            b.push(i);
        }
    }
    b.push(d.len());
    b
}

pub fn tables(tier: Tier) -> &'static Tables {
    static T: OnceLock<Tables> = OnceLock::new();
    T.get_or_init(|| {
        let vals = base_values(tier);
        let mut zdocs: Vec<Vec<u8>> = vals.iter().map(|v| zinc_ref::write_canonical(v).into_bytes()).collect();
        // a few 1-deviation spellings (CRLF, exponent, escapes) so that mutants start from them too
        for v in vals.iter().step_by(7) {
            for s in zinc_ref::spellings(v, 1, 4) {
                zdocs.push(s.into_bytes());
            }
        }
        zdocs.retain(|d| d.len() <= 160);
        zdocs.sort();
        zdocs.dedup();
        let mut zp = vec![0u64];
        for d in &zdocs {
            zp.push(zp.last().unwrap() + mutants_of(d.len(), TOK.len()));
        }
        let mut jdocs: Vec<Vec<u8>> = vec![];
        for v in &vals {
            if let Ok(Ok(s)) = guarded(|| serde_json::to_string(&crate::model::v::to_lib(v))) {
                if s.len() <= 200 {
                    jdocs.push(s.into_bytes());
                }
            }
        }
        jdocs.sort();
        jdocs.dedup();
        let mut jp = vec![0u64];
        for d in &jdocs {
            jp.push(jp.last().unwrap() + mutants_of(d.len(), JTOK.len()));
        }
        // splices A[..i] + B[j..] at token boundaries over a 40-document core
        let core: Vec<&Vec<u8>> = zdocs.iter().filter(|d| d.len() >= 6 && d.len() <= 60).step_by((zdocs.len() / 40).max(1)).take(40).collect();
        let mut splice = vec![];
        for a in &core {
            for b in &core {
                for &i in boundaries(a).iter().step_by(2) {
                    for &j in boundaries(b).iter().step_by(2) {
                        let mut s = a[..i].to_vec();
                        s.extend_from_slice(&b[j..]);
                        splice.push(s);
                    }
                }
            }
        }
        // reader-fault documents: a hand-written list that has every construct with blanks, line
        // endings, escapes and look-ahead in it, then documents spread evenly over the sorted set
        let mut rdocs: Vec<Vec<u8>> = READER_DOCS.iter().map(|d| d.as_bytes().to_vec()).collect();
        let want = tier.pick(150usize, 2000);
        let stride = (zdocs.len() / want).max(1);
        rdocs.extend(zdocs.iter().step_by(stride).take(want).cloned());
        let mut long: Vec<Vec<u8>> = vec![];
        for t in long_tokens() {
            long.push(t.clone());
            let wrap = |pre: &str, suf: &str| -> Vec<u8> {
                let mut v = pre.as_bytes().to_vec();
                v.extend_from_slice(&t);
                v.extend_from_slice(suf.as_bytes());
                v
            };
            if t.len() <= 400 {
                long.push(wrap("[1,", ",2]"));
                long.push(wrap("{a:", " b}"));
                long.push(wrap("ver:\"3.0\"\na,b\n", ",1\n2,3\n"));
            }
        }
        // timestamps whose wall clock falls into the skipped / repeated hour of their zone, with
        // agreeing and disagreeing offsets (Zinc, in a list, in a cell)
        for (text, city, _) in crate::model::time_ref::transition_texts() {
            long.push(format!("{text} {city}").into_bytes());
            long.push(format!("[{text} {city},1]").into_bytes());
            long.push(format!("ver:\"3.0\"\nts\n{text} {city}\n").into_bytes());
        }
        // flat inputs of 100 000+ elements (a recursion that is linear in the LENGTH of the input
        // overflows the stack here although nothing is nested)
        for n in if tier == Tier::Thorough { vec![20_000usize, 100_000, 300_000] } else { vec![20_000usize, 100_000] } {
            long.push(format!("[{}]", "1,".repeat(n)).into_bytes());
            long.push(format!("[{}1]", "\"s\", ".repeat(n)).into_bytes());
            long.push(format!("{{{}}}", (0..n).map(|i| format!("t{i}")).collect::<Vec<_>>().join(" ")).into_bytes());
            long.push(format!("{{{}}}", (0..n / 4).map(|i| format!("t{i}:{i}")).collect::<Vec<_>>().join(",")).into_bytes());
            long.push(format!("ver:\"3.0\"\na\n{}", "1\n".repeat(n)).into_bytes());
            long.push(format!("ver:\"3.0\"\na,b\n{}", "1,\"x\"\r\n".repeat(n)).into_bytes());
            long.push(format!("ver:\"3.0\" {}\na\n", (0..n / 4).map(|i| format!("m{i}")).collect::<Vec<_>>().join(" ")).into_bytes());
            long.push(format!("\"{}\"", "ab\\n".repeat(n)).into_bytes());
            long.push(format!("`{}`", "a/".repeat(n)).into_bytes());
            long.push(format!("{}", "9".repeat(n)).into_bytes());
            long.push(format!("1.{}", "3".repeat(n)).into_bytes());
            long.push(format!("1{}", "_0".repeat(n)).into_bytes());
            long.push(format!("[{}]", "[],".repeat(n)).into_bytes());
            long.push(format!("[{}]", "{},".repeat(n)).into_bytes());
            long.push(format!("[{}]", "<<\nver:\"3.0\"\na\n>>,".repeat(n / 10)).into_bytes());
        }
        // long names: tags, columns, dict keys
        for n in (1..=72usize).chain([127, 128, 129, 255, 256, 257, 1000]) {
            let name = "a".repeat(n);
            long.push(format!("{{{name}}}").into_bytes());
            long.push(format!("{{{name}:1 {name}b:2}}").into_bytes());
            long.push(format!("ver:\"3.0\" {name}:1\n{name},b {name}\n1,2\n").into_bytes());
            long.push(format!("ver:\"3.0\"\n{}\n", (0..n).map(|i| format!("c{i}")).collect::<Vec<_>>().join(",")).into_bytes());
            long.push(format!("ver:\"3.0\"\na\n{}\n", ",".repeat(n)).into_bytes());
        }
        let mut jstructural: Vec<Vec<u8>> = super::c10::json_docs().into_iter().map(|d| d.into_bytes()).collect();
        for n in if tier == Tier::Thorough { vec![20_000usize, 100_000, 300_000] } else { vec![20_000usize, 100_000] } {
            jstructural.push(format!("[{}1]", "1,".repeat(n)).into_bytes());
            jstructural.push(format!("{{{}\"z\":1}}", (0..n / 4).map(|i| format!("\"t{i}\":{i},")).collect::<String>()).into_bytes());
            jstructural.push(format!("{{\"_kind\":\"grid\",\"cols\":[{{\"name\":\"a\"}}],\"rows\":[{}{{\"a\":1}}]}}", "{\"a\":1},".repeat(n / 4)).into_bytes());
            jstructural.push(format!("{{\"_kind\":\"grid\",\"cols\":[{}{{\"name\":\"z\"}}],\"rows\":[]}}", (0..n / 8).map(|i| format!("{{\"name\":\"c{i}\"}},")).collect::<String>()).into_bytes());
            jstructural.push(format!("\"{}\"", "ab\\n".repeat(n)).into_bytes());
            jstructural.push(format!("[{}[]]", "[],".repeat(n)).into_bytes());
        }
        for (text, city, _) in crate::model::time_ref::transition_texts() {
            jstructural.push(format!("{{\"_kind\":\"dateTime\",\"val\":\"{text}\",\"tz\":\"{city}\"}}").into_bytes());
        }
        let limit = tier.pick(14usize, 40);
        let sub_docs: Vec<Vec<u8>> = zdocs.iter().filter(|d| d.len() <= limit).cloned().collect();
        let mut sub_prefix = vec![0u64];
        for d in &sub_docs {
            sub_prefix.push(sub_prefix.last().unwrap() + (2 * d.len() as u64 + 1) * 256);
        }
        let jlimit = tier.pick(24usize, 48);
        let jsub_docs: Vec<Vec<u8>> = jdocs.iter().filter(|d| d.len() <= jlimit).cloned().collect();
        let mut jsub_prefix = vec![0u64];
        for d in &jsub_docs {
            jsub_prefix.push(jsub_prefix.last().unwrap() + (2 * d.len() as u64 + 1) * 256);
        }
        Tables { sub_docs, sub_prefix, jsub_docs, jsub_prefix, zdocs, zmut_prefix: zp, jdocs, jmut_prefix: jp, structural: structural_docs(), jstructural, splice, rdocs, long }
    })
}

const READER_DOCS: &[&str] = &[
    "[1, 2,  3]",
    "[ 1 ,2 ]",
    "[1,\n2,\r\n3,]",
    "{a:1  b:\"x\"}",
    "{a b,c}",
    "{ a:1 , b:2 }",
    "ver:\"3.0\" a:1  b\na  x:1 , b\n1 , 2\n",
    "ver:\"3.0\"\na,b\n 1 ,\"x\" \nN,\n",
    "ver:\"3.0\"\r\na\r\n1\r\n",
    "ver:\"2.0\" m\nempty\n",
    "C(1.5,-2)",
    "C( 1.5 , -2 )",
    "Bin(\"x\")",
    "Span( \"x\" )",
    "@a  \"dis\"",
    "@a \"d\\\"s\"",
    "2021-03-11T23:55:00-05:00 New_York",
    "2021-03-11T23:55:00Z UTC",
    "2021-03-11T23:55:00.123456789+05:30 Kolkata",
    "2021-03-11T23:55:00Z",
    "1.5e+3kW",
    "-1_000.25_5E-2m²",
    "5$",
    "`a b\\`c`",
    "\"a\\u00e9\\n\\$é😀\"",
    "^sym:a.b",
    "<<\nver:\"3.0\"\na\n<<\nver:\"3.0\"\nb\n1\n>>\n>>",
    "<<ver:\"3.0\"\na\n1\n>>",
    "[<<\nver:\"3.0\"\na\n1\n>> , 2]",
    "12:30:15.123",
    "12:30",
    "2021-01-01",
    "NA",
    "R",
    "M",
    "T",
    "F",
    "N",
    "INF",
    "-INF",
    "NaN",
];

/// Long tokens: every token kind of the scalar grammar with a body of every length 1..=72, around
/// 2^7, 2^8 and a few big ones, plain and with a 2-, 3-, 4-byte character or a stray 0xFF in the
/// middle or at the end of the body (fixed-size buffers, length fields and byte slicing show at
/// their own size and alignment); plus all sequences of <= 3 \uXXXX escapes over 11 code units
/// (surrogates in every combination) in Str, Uri and Ref display-name literals.
pub fn long_tokens() -> Vec<Vec<u8>> {
    let kinds: Vec<(&str, &str, &str)> = vec![
        ("", "7", ""),
        ("1.", "3", ""),
        ("1e", "9", ""),
        ("1e-", "9", ""),
        ("-", "1_", "5"),
        ("1", "k", ""),
        ("1.5e3", "W", ""),
        ("@", "a", ""),
        ("@a \"", "x", "\""),
        ("^", "a", ""),
        ("\"", "x", "\""),
        ("\"", "\\n", "\""),
        ("\"", "\\u00e9", "\""),
        ("`", "x", "`"),
        ("`", "\\:", "`"),
        ("T", "y", "(\"x\")"),
        ("Bin(\"", "z", "\")"),
        ("2021-01-01T00:00:00Z N", "y", ""),
        ("2021-01-01T00:00:00-05:00 N", "y", ""),
        ("2021-01-01T00:00:00.", "1", "Z"),
        ("", "2", "-01-01"),
        ("12:00:00.", "1", ""),
        ("C(", "1", ",2)"),
        ("C(1,", "2", ")"),
    ];
    let lens: Vec<usize> = (1..=72).chain([100, 127, 128, 129, 255, 256, 257, 300, 1000, 4096]).collect();
    let inject: [&[u8]; 4] = ["°".as_bytes(), "€".as_bytes(), "😀".as_bytes(), &[0xff]];
    let mut out: Vec<Vec<u8>> = vec![];
    for (pre, body, suf) in &kinds {
        for &n in &lens {
            let mk = |at: Option<(usize, &[u8])>| -> Vec<u8> {
                let mut v = pre.as_bytes().to_vec();
                for i in 0..n {
                    if let Some((k, c)) = at {
                        if i == k {
                            v.extend_from_slice(c);
                        }
                    }
                    v.extend_from_slice(body.as_bytes());
                }
                if let Some((k, c)) = at {
                    if k >= n {
                        v.extend_from_slice(c);
                    }
                }
                v.extend_from_slice(suf.as_bytes());
                v
            };
            out.push(mk(None));
            if n <= 300 {
                for c in inject {
                    out.push(mk(Some((n, c))));
                    out.push(mk(Some((n / 2, c))));
                }
            }
        }
    }
    let units = ["0041", "00e9", "d83d", "d800", "dbff", "de00", "dc00", "dfff", "ffff", "0000", "2028"];
    let mut seqs: Vec<String> = vec![];
    for a in units {
        seqs.push(format!("\\u{a}"));
        for b in units {
            seqs.push(format!("\\u{a}\\u{b}"));
            for c in units {
                seqs.push(format!("\\u{a}\\u{b}\\u{c}"));
            }
        }
    }
    for q in &seqs {
        for tail in ["", "x"] {
            out.push(format!("\"{q}{tail}\"").into_bytes());
            out.push(format!("`{q}{tail}`").into_bytes());
            out.push(format!("@r \"{q}{tail}\"").into_bytes());
            out.push(format!("\"{}{tail}\"", q.to_uppercase().replace("\\U", "\\u")).into_bytes());
        }
    }
    // escape x offset: every escape form (decoding to 1, 2, 3, 4 bytes; a surrogate pair; raw
    // multi-byte characters) after every number 0..=600 of plain bytes — whatever the size of a
    // decoder's internal chunk, some offset puts the escape across its end — in the three string
    // positions
    for k in 0..=600usize {
        for esc in ["\\n", "\\\\", "\\\"", "\\$", "\\u0041", "\\u00e9", "\\u20ac", "\\ud83d\\ude00", "\\ud83d", "é", "€", "😀"] {
            let pad = "a".repeat(k);
            out.push(format!("\"{pad}{esc}b\"").into_bytes());
            if k % 7 == 0 || (60..=130).contains(&k) || (250..=260).contains(&k) || (505..=520).contains(&k) {
                out.push(format!("@r \"{pad}{esc}\"").into_bytes());
                out.push(format!("Bin(\"{pad}{esc}\")").into_bytes());
                out.push(format!("`{pad}{}`", if esc.starts_with("\\$") || esc == "\\\"" { "\\`" } else { esc }).into_bytes());
            }
        }
    }
    out
}

fn nest_depths() -> Vec<usize> {
    let mut d: Vec<usize> = (1..=256).collect();
    let mut k = 512;
    while k <= 131_072 {
        d.push(k);
        d.push(k + 1);
        k *= 2;
    }
    d.push(100_000);
    d
}

const NEST_PATTERNS: usize = 17;
fn nest_doc(pattern: usize, d: usize) -> (Vec<u8>, bool) {
    // (text, is_json)
    let s = match pattern {
        0 => "[".repeat(d),
        1 => "[".repeat(d) + &"]".repeat(d),
        2 => "{a:".repeat(d),
        3 => "{a:".repeat(d) + "1" + &"}".repeat(d),
        4 => "<<\nver:\"3.0\"\na\n".repeat(d),
        5 => "<<\nver:\"3.0\"\na\n".repeat(d) + "1\n" + &">>\n".repeat(d),
        6 => "[{a:<<\nver:\"3.0\"\na\n".repeat(d),
        7 => "ver:\"3.0\"\na\n".to_string() + &"[".repeat(d) + "\n",
        8 => "ver:\"3.0\" m:".to_string() + &"{a:".repeat(d),
        9 => return (("[".repeat(d) + &"]".repeat(d)).into_bytes(), true),
        10 => return (("{\"a\":".repeat(d)).into_bytes(), true),
        11 => return (("{\"_kind\":\"grid\",\"cols\":[],\"rows\":[{\"a\":".repeat(d)).into_bytes(), true),
        // every place a value may start with an undelimited grid (`ver:` after an identifier token)
        12 => "ver:\"3.0\" a:".repeat(d) + "1\na\n",
        13 => "ver:\"3.0\"\nc a:".repeat(d) + "1\n",
        14 => "[ver:\"3.0\"\na\n".repeat(d),
        15 => "{a:ver:\"3.0\" b:".repeat(d) + "1\na\n",
        _ => "ver:\"3.0\"\na\n".repeat(d),
    };
    (s.into_bytes(), false)
}

// ------------------------------------------------------------------------------ jobs

pub enum Input {
    Zinc(Vec<u8>),
    Json(Vec<u8>),
}

fn strings_over(alpha: &[u8], maxlen: usize) -> u64 {
    (0..=maxlen).map(|l| (alpha.len() as u64).pow(l as u32)).sum()
}
fn string_at(alpha: &[u8], mut ord: u64) -> Vec<u8> {
    let a = alpha.len() as u64;
    let mut len = 0u32;
    loop {
        let n = a.pow(len);
        if ord < n {
            break;
        }
        ord -= n;
        len += 1;
    }
    let mut v = Vec::with_capacity(len as usize);
    for _ in 0..len {
        v.push(alpha[(ord % a) as usize]);
        ord /= a;
    }
    v
}

const ALL_BYTES: [u8; 256] = {
    let mut a = [0u8; 256];
    let mut i = 0;
    while i < 256 {
        a[i] = i as u8;
        i += 1;
    }
    a
};

fn jobs(tier: Tier) -> Vec<(&'static str, u64, u64)> {
    // (name, cases, chunk)
    let t = tables(tier);
    let nd = nest_depths().len() as u64;
    vec![
        ("bytes", strings_over(&ALL_BYTES, tier.pick(2, 3)), 1 << 20),
        ("jbytes", strings_over(&ALL_BYTES, 2), 1 << 20),
        ("tok", strings_over(TOK, tier.pick(4, 5)), 1 << 20),
        ("jtok", strings_over(JTOK, tier.pick(4, 5)), 1 << 20),
        ("zmut", *t.zmut_prefix.last().unwrap(), 1 << 18),
        ("jmut", *t.jmut_prefix.last().unwrap(), 1 << 18),
        ("struct", t.structural.len() as u64, 1 << 12),
        ("jstruct", t.jstructural.len() as u64, 1 << 12),
        ("long", t.long.len() as u64, 1 << 13),
        ("zsub", *t.sub_prefix.last().unwrap(), 1 << 18),
        ("jsub", *t.jsub_prefix.last().unwrap(), 1 << 18),
        ("splice", t.splice.len() as u64, 1 << 16),
        ("nest8", nd * NEST_PATTERNS as u64, 64),
        ("nest2", nd * NEST_PATTERNS as u64, 64),
        ("reader", t.rdocs.len() as u64, 16),
    ]
}

fn locate(prefix: &[u64], ord: u64) -> (usize, u64) {
    let i = match prefix.binary_search(&ord) {
        Ok(i) => i,
        Err(i) => i - 1,
    };
    // skip empty docs (equal prefix entries)
    let mut i = i;
    while prefix[i + 1] <= ord {
        i += 1;
    }
    (i, ord - prefix[i])
}

pub fn job_input(job: &str, tier: Tier, ord: u64) -> Input {
    let t = tables(tier);
    match job {
        "bytes" => Input::Zinc(string_at(&ALL_BYTES, ord)),
        "jbytes" => Input::Json(string_at(&ALL_BYTES, ord)),
        "tok" => Input::Zinc(string_at(TOK, ord)),
        "jtok" => Input::Json(string_at(JTOK, ord)),
        "zmut" => {
            let (i, k) = locate(&t.zmut_prefix, ord);
            Input::Zinc(mutant(&t.zdocs[i], k, TOK))
        }
        "jmut" => {
            let (i, k) = locate(&t.jmut_prefix, ord);
            Input::Json(mutant(&t.jdocs[i], k, JTOK))
        }
        "struct" => Input::Zinc(t.structural[ord as usize].clone()),
        "jstruct" => Input::Json(t.jstructural[ord as usize].clone()),
        "long" => Input::Zinc(t.long[ord as usize].clone()),
        "zsub" | "jsub" => {
            // every byte value substituted at, and inserted before, every position (and appended)
            let (docs, prefix) = if job == "zsub" { (&t.sub_docs, &t.sub_prefix) } else { (&t.jsub_docs, &t.jsub_prefix) };
            let (i, k) = locate(prefix, ord);
            let mut d = docs[i].clone();
            let (pos, byte) = ((k / 256) as usize, (k % 256) as u8);
            if pos < d.len() {
                d[pos] = byte;
            } else {
                d.insert(pos - docs[i].len(), byte);
            }
            if job == "zsub" {
                Input::Zinc(d)
            } else {
                Input::Json(d)
            }
        }
        "splice" => Input::Zinc(t.splice[ord as usize].clone()),
        "nest8" | "nest2" => {
            let depths = nest_depths();
            let p = (ord as usize) / depths.len();
            let d = depths[(ord as usize) % depths.len()];
            let (text, is_json) = nest_doc(p, d);
            if is_json {
                Input::Json(text)
            } else {
                Input::Zinc(text)
            }
        }
        "reader" => Input::Zinc(t.rdocs[ord as usize].clone()),
        other => crate::engine::machinery(&format!("C03: unknown job {other}")),
    }
}

fn hex(b: &[u8]) -> String {
    b.iter().map(|x| format!("{x:02x}")).collect()
}
fn unhex(s: &str) -> Vec<u8> {
    (0..s.len() / 2).map(|i| u8::from_str_radix(&s[2 * i..2 * i + 2], 16).unwrap()).collect()
}

fn describe_input(job: &str, inp: &Input) -> J {
    let (fmt, b) = match inp {
        Input::Zinc(b) => ("zinc", b),
        Input::Json(b) => ("hayson", b),
    };
    let stack = if job == "nest2" { "2MiB" } else { "8MiB" };
    if b.len() > 400 {
        // long inputs (nesting) are described by their generator, and by a prefix
        json!({"format": fmt, "job": job, "len": b.len(), "prefix": String::from_utf8_lossy(&b[..60]), "stack": stack, "generated": true})
    } else {
        json!({"format": fmt, "hex": hex(b), "text": String::from_utf8_lossy(b), "stack": stack})
    }
}

// ------------------------------------------------------------------------------ reader faults

struct ScriptedReader<'a, 'b> {
    data: &'a [u8],
    pos: usize,
    ch: &'b mut Chooser,
}

impl Read for ScriptedReader<'_, '_> {
    fn read(&mut self, buf: &mut [u8]) -> std::io::Result<usize> {
        if buf.is_empty() {
            return Ok(0);
        }
        let avail = self.data.len() - self.pos;
        let want = buf.len().min(avail);
        // 0 deliver everything asked for, 1 Interrupted, 2 I/O error, 3 early EOF, 4 one byte only
        let n = if want > 1 { 5 } else { 4 };
        match self.ch.choose(n) {
            0 => {
                buf[..want].copy_from_slice(&self.data[self.pos..self.pos + want]);
                self.pos += want;
                Ok(want)
            }
            1 => Err(std::io::Error::new(std::io::ErrorKind::Interrupted, "interrupted")),
            2 => Err(std::io::Error::new(std::io::ErrorKind::Other, "injected I/O error")),
            3 => Ok(0),
            _ => {
                buf[0] = self.data[self.pos];
                self.pos += 1;
                Ok(1)
            }
        }
    }
}

fn reader_entries(doc: &[u8], ch: &mut Chooser, entry: usize) -> Result<(), String> {
    guarded(|| {
        let mut r = ScriptedReader { data: doc, pos: 0, ch };
        if let Ok(mut p) = Parser::make(&mut r) {
            match entry {
                0 => {
                    let _ = p.parse_value();
                }
                1 => {
                    let _ = parse_grid(&mut p);
                }
                _ => {
                    if let Ok(it) = parse_grid_iterator(&mut p) {
                        let mut n = 0;
                        for row in it {
                            n += 1;
                            if row.is_err() || n > doc.len() + 2 {
                                break;
                            }
                        }
                    }
                }
            }
        }
    })
}

fn reader_case(doc: &[u8], bound: usize, local: &mut Local) {
    for entry in 0..3usize {
        let mut failure: Option<(Vec<u32>, String)> = None;
        let st = explore(Some(bound), 5_000_000, |ch| match reader_entries(doc, ch, entry) {
            Ok(()) => true,
            Err(p) => {
                failure = Some((ch.choices(), p));
                false
            }
        });
        local.evals += st.executions;
        local.count_n("reader-scripts", st.executions);
        if st.capped {
            local.count("reader-capped");
        }
        if let Some((choices, p)) = failure {
            let name = ["parse_value", "parse_grid", "parse_grid_iterator"][entry];
            local.fail(
                &format!("panic:reader:{name}:{}", panic_class(&p)),
                json!({"format": "zinc", "hex": hex(doc), "text": String::from_utf8_lossy(doc), "reader_script": choices, "entry": entry}),
                p,
            );
        }
    }
}

// ------------------------------------------------------------------------------ child / parent

fn run_input(job: &str, ord: u64, tier: Tier, inp: &Input, local: &mut Local) {
    local.eval();
    let (r, b) = match inp {
        Input::Zinc(b) => (zinc_entries(b), b),
        Input::Json(b) => (json_entries(b), b),
    };
    match r {
        Ok(acc) => {
            if acc > 0 {
                local.count("accepted");
                local.outcome("accepted");
            } else {
                local.count("rejected");
                local.outcome("rejected");
            }
            if b.len() > 1 {
                local.nontrivial(&hex(&b[..b.len().min(64)]));
            }
        }
        Err((entry, p)) => {
            local.outcome("panic");
            // a generated (long) input is named by job + ordinal + tier, like the parent does
            let mut d = describe_input(job, inp);
            if d.get("generated").is_some() {
                d["ordinal"] = json!(ord);
                d["tier"] = json!(tier.name());
            }
            local.fail(&format!("panic:{entry}:{}", panic_class(&p)), d, p);
        }
    }
}

pub fn child(tier: Tier, job: String, start: u64, end: u64, ctx: &mut ChildCtx, local: &mut Local) {
    if let Some(h) = job.strip_prefix("one:") {
        // replay of one recorded input: "one:<zinc|hayson>:<hex>"
        let (fmt, hx) = h.split_once(':').unwrap();
        let b = unhex(hx);
        ctx.begin(0);
        let inp = if fmt == "zinc" { Input::Zinc(b) } else { Input::Json(b) };
        run_input("one", 0, tier, &inp, local);
        return;
    }
    if let Some(rest) = job.strip_prefix("onegen:") {
        // replay of a generated (nesting) case: "onegen:<job>:<ordinal>"
        let (j, o) = rest.split_once(':').unwrap();
        ctx.begin(0);
        let o: u64 = o.parse().unwrap();
        run_input(j, o, tier, &job_input(j, tier, o), local);
        return;
    }
    for ord in start..end {
        ctx.begin(ord);
        if job == "reader" {
            if let Input::Zinc(doc) = job_input(&job, tier, ord) {
                let bound = if doc.len() <= 12 { 4 } else { 2 };
                reader_case(&doc, bound, local);
                local.nontrivial(&hex(&doc));
            }
        } else {
            run_input(&job, ord, tier, &job_input(&job, tier, ord), local);
        }
    }
}

pub fn child_params(job: &str) -> (u64, u64, usize) {
    // (hang seconds, address-space cap, worker stack)
    let stack = if job == "nest2" || job.contains(":nest2:") { 2 << 20 } else { 8 << 20 };
    (6, 6 << 30, stack)
}

pub fn run(tier: Tier) -> i32 {
    let mut run = Run::new("C03", tier, "fault_enumeration");
    run.rule = "inputs: every byte string <= 2/3 over all 256 bytes, every string <= 4/5 over the 27-byte token alphabet (Zinc) and a 23-byte JSON alphabet; every prefix, substitution (by each alphabet byte), deletion, duplication and insertion at every position of grammar documents (canonical and 1-deviation spellings of one value per shape class + containers); every one of the 256 byte values substituted at and inserted before every position of the short documents (Zinc <= 14/40 bytes, Hayson <= 24/48 bytes); token-boundary splices of 40 documents; structural damage (rows with 0..n+3 cells, unterminated constructs at every position, header damage; Hayson: every kind tag with every member drawn from 19 fields of right and wrong JSON types, grid parts of the wrong type); long tokens (24 token kinds x every body length 1..72, 100, 127..129, 255..257, 300, 1000, 4096, plain and with a 2-/3-/4-byte character or 0xFF in the middle / at the end, alone and inside list, dict, grid; timestamps with the wall clock in the skipped / repeated hour of 18 zones under agreeing and disagreeing offsets (Zinc and Hayson); flat inputs of 20 000 / 100 000 / 300 000 elements (lists, dicts, rows, meta tags, escapes, digits, sibling containers; Zinc and Hayson); long tag / column names, 1..1000 columns, 1..1000 empty cells; all sequences of <= 3 \\uXXXX escapes over 11 code units incl. every surrogate combination; every escape form — decoding to 1 / 2 / 3 / 4 bytes, a lone and a paired surrogate, raw multi-byte characters — after every number 0..600 of plain bytes in Str, Ref display name, XStr and Uri); nesting depth 1..256 and 2^k(+1) up to 131072 and 10^5 for 12 nesting patterns on 8 MiB and 2 MiB stacks; reader scripts (deliver/Interrupted/error/EOF/1 byte at every read call) with <= 2 deviations (<= 4 for documents <= 12 bytes) over 41 hand-written documents (every construct with blanks, line endings, escapes, look-ahead) + 150/2000 documents spread over the grammar set. Entry points: from_str, Parser::make+parse_value, parse_grid, parse_grid_iterator (driven to the first error), serde_json from_str/from_slice for Value and 16 typed values, from_value. non-trivial = distinct input of >= 2 bytes (first 64 bytes)".into();
    run.assume("a case that does not finish within 6 s is a hang (cases take microseconds); hangs and crashes are confirmed by re-running the case in a fresh single-step child");
    run.assume("each case runs in a child process: abort, stack overflow and allocation failure are observed through the exit status");
    crate::engine::quiet_panics();
    let tname = tier.name();
    for (name, n, chunk) in jobs(tier) {
        let describe = move |ord: u64| -> J {
            let inp = job_input(name, tier, ord);
            let mut d = describe_input(name, &inp);
            if d.get("generated").is_some() {
                d["ordinal"] = json!(ord);
                d["tier"] = json!(tname);
            }
            d
        };
        let job = Job { prop: "C03", tier: tname, job: name, n, chunk, env: vec![], exe: None, describe: &describe };
        let l = run_job(&job);
        run.note(&format!("job_{name}_cases"), json!(n));
        run.absorb(l);
    }
    run.require(run.counter("accepted") > 1000 && run.counter("rejected") > 1000, "inputs not both accepted and rejected");
    run.require(run.counter("reader-scripts") > 10_000, "reader scripts");
    run.exhaustive = run.counter("reader-capped") == 0 && run.counter("chunks-skipped-after-crashes") == 0;
    run.stats.samples = vec![json!({"zinc": "ver:\"3.0\"\na\n1,2\n"}), json!({"zinc": "[".repeat(8) + "… x131072"}), json!({"hayson": "{\"_kind\":\"number\",\"val\":\"INF\""}), json!({"reader_script": [0, 0, 1, 0, 2]})];
    run.finish(&replay)
}

/// Replays always go through a fresh child process (the case may crash or hang).
pub fn replay(case: &J) -> Verdict {
    let tier = Tier::Thorough;
    if let Some(script) = case.get("reader_script").and_then(|s| s.as_array()) {
        let doc = unhex(case["hex"].as_str().unwrap_or(""));
        let choices: Vec<u32> = script.iter().map(|x| x.as_u64().unwrap() as u32).collect();
        let entry = case["entry"].as_u64().unwrap_or(0) as usize;
        let mut ch = Chooser::replaying(choices);
        return match reader_entries(&doc, &mut ch, entry) {
            Ok(()) => Ok(()),
            Err(p) => Err((format!("panic:reader:{}:{}", ["parse_value", "parse_grid", "parse_grid_iterator"][entry], panic_class(&p)), p)),
        };
    }
    let jobname = if case.get("generated").is_some() {
        format!("onegen:{}:{}", case["job"].as_str().unwrap_or(""), case["ordinal"].as_u64().unwrap_or(0))
    } else {
        format!("one:{}:{}", case["format"].as_str().unwrap_or("zinc"), case["hex"].as_str().unwrap_or(""))
    };
    // the stack size is part of the case
    let jobname = if case["stack"] == "2MiB" && !jobname.contains(":nest2:") { format!("{jobname}") } else { jobname };
    let env = if case["stack"] == "2MiB" { vec![("VERIF_C03_STACK".to_string(), "2".to_string())] } else { vec![] };
    let c2 = case.clone();
    let describe = move |_ord: u64| c2.clone();
    let tname = if case.get("generated").is_some() { case["tier"].as_str().unwrap_or("thorough").to_string() } else { tier.name().to_string() };
    let job = Job { prop: "C03", tier: &tname, job: &jobname, n: 1, chunk: 1, env, exe: None, describe: &describe };
    let l = run_job(&job);
    match l.fails.values().next() {
        Some(f) => Err((f.sig.clone(), if f.sig.starts_with("crash") || f.sig == "hang" { f.sig.clone() } else { f.detail.clone() })),
        None => Ok(()),
    }
}
