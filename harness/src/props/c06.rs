//! C06 — timestamps keep their instant and zone through every constructor and codec.
//! Exhaustive over offsets, in-model zones and the neighbourhood of every offset transition.

use super::common::Verdict;
use crate::engine::{guarded, par_for, Local, Run, Tier};
use crate::model::shrink::shape_sig;
use crate::model::time_ref::*;
use crate::model::universe::INSTANTS as ALL_INSTANTS;
use crate::model::v::{city_of, dt_from_lib, from_json, to_json, DT, V};
use chrono_tz::Tz;
use libhaystack::val::{DateTime, Value};
use serde_json::{json, Value as J};
use std::str::FromStr;

const DIGITS: [usize; 4] = [0, 3, 6, 9];

fn nanos_for(digits: usize) -> u32 {
    match digits {
        0 => 0,
        3 => 123_000_000,
        6 => 123_456_000,
        _ => 123_456_789,
    }
}

/// (i) an RFC 3339 text is rejected or denotes exactly its instant
fn check_rfc3339(text: &str) -> Verdict {
    let want = rfc3339_instant(text).ok_or_else(|| ("harness".to_string(), format!("reference cannot read {text}")))?;
    let ctors: Vec<(&str, Box<dyn Fn() -> Result<DateTime, String>>)> = vec![
        ("parse_from_rfc3339", Box::new(|| DateTime::parse_from_rfc3339(text))),
        ("from_str", Box::new(|| DateTime::from_str(text))),
        (
            "make_datetime_from_iso",
            Box::new(|| match Value::make_datetime_from_iso(text)? {
                Value::DateTime(d) => Ok(d),
                other => Err(format!("not a DateTime: {other:?}")),
            }),
        ),
    ];
    for (name, f) in ctors {
        match guarded(|| f()) {
            Err(p) => return Err((format!("rfc3339-panic:{name}"), format!("{text}: {p}"))),
            Ok(Err(_)) => {} // rejected: allowed by the statement
            Ok(Ok(d)) => {
                let got = dt_from_lib(&d);
                if got.secs != want.0 || got.nanos != want.1 {
                    return Err((
                        format!("rfc3339-instant:{name}"),
                        format!("{text} denotes {}s+{}ns, library gives {}s+{}ns (zone {})", want.0, want.1, got.secs, got.nanos, got.tz_full),
                    ));
                }
            }
        }
    }
    Ok(())
}

fn offset_class(off: i32) -> String {
    let a = off.abs();
    format!(
        "{}{}{}",
        if off < 0 {
            "west"
        } else if off > 0 {
            "east"
        } else {
            "zero"
        },
        if a / 3600 >= 10 { ",h>=10" } else { "" },
        if a % 3600 != 0 { ",minutes" } else { "" }
    )
}

/// (ii)+(iii) one instant in one zone: constructors and both codecs
fn check_zoned(zone: &str, secs: i64, digits: usize) -> Verdict {
    let nanos = nanos_for(digits);
    let v = V::dt(secs, nanos, zone);
    let want = match &v {
        V::DateTime(d) => d.clone(),
        _ => unreachable!(),
    };
    let city = city_of(zone);
    let cmp = |stage: &str, got: &DT| -> Verdict {
        if got.secs != want.secs || got.nanos != want.nanos {
            return Err((format!("{stage}:instant"), format!("{zone} {secs}: instant {}s+{}ns, expected {}s+{}ns", got.secs, got.nanos, want.secs, want.nanos)));
        }
        if got.offset != want.offset {
            return Err((format!("{stage}:offset"), format!("{zone} {secs}: local offset {}, expected {}", got.offset, want.offset)));
        }
        if got.tz != city {
            return Err((format!("{stage}:zone"), format!("{zone} {secs}: zone name {:?}, expected {city:?}", got.tz)));
        }
        Ok(())
    };
    // constructor from an instant (spelled in UTC, and spelled at the local offset) and a zone name
    for (how, text) in [
        ("utc", rfc3339_text(secs, nanos, 0, digits, "Z")),
        ("utc+00:00", rfc3339_text(secs, nanos, 0, digits, "")),
        ("local", rfc3339_text(secs, nanos, want.offset, digits, "Z")),
    ] {
        if how == "local" && want.offset % 60 != 0 {
            continue; // RFC 3339 cannot spell an offset with seconds
        }
        match guarded(|| DateTime::parse_from_rfc3339_with_timezone(&text, &city)) {
            Err(p) => return Err(("with-timezone-panic".into(), format!("{text} {city}: {p}"))),
            Ok(Err(e)) => return Err((format!("with-timezone-rejected:{how}"), format!("parse_from_rfc3339_with_timezone({text:?}, {city:?}): {e}"))),
            Ok(Ok(d)) => cmp(&format!("with-timezone:{how}"), &dt_from_lib(&d))?,
        }
    }
    // (iv) programmatic constructors from an instant and a zone
    check_programmatic(zone, secs, nanos, &want, &cmp)?;
    // codecs
    super::c01::zinc_roundtrip(&v).map_err(|(s, d)| (format!("zinc:{s}"), d))?;
    super::c02::hayson_roundtrip(&v).map_err(|(s, d)| (format!("hayson:{s}"), d))?;
    Ok(())
}

/// (iv) the constructors that take an instant and a zone rather than text: chrono conversions,
/// timezone::make_date_time_with_tz (city and full name), timezone::make_date_time (fixed offset:
/// instant only), and the C API constructor from UTC date + time + zone name with its getters.
fn check_programmatic(zone: &str, secs: i64, nanos: u32, want: &DT, cmp: &dyn Fn(&str, &DT) -> Verdict) -> Verdict {
    use chrono::{FixedOffset, TimeZone, Utc};
    use libhaystack::c_api::datetime::*;
    use libhaystack::c_api::value::*;
    use libhaystack::timezone::{make_date_time, make_date_time_with_tz};
    let tz: Tz = zone.parse().unwrap();
    let city = city_of(zone);
    let utc = Utc.timestamp_opt(secs, nanos).single().expect("instant");
    // chrono::DateTime<Tz> -> DateTime
    match guarded(|| DateTime::from(utc.with_timezone(&tz))) {
        Err(p) => return Err(("from-chrono-tz-panic".into(), format!("{zone} {secs}: {p}"))),
        Ok(d) => cmp("from-chrono-tz", &dt_from_lib(&d))?,
    }
    // chrono::DateTime<Utc> -> DateTime: the instant, in UTC
    match guarded(|| DateTime::from(utc)) {
        Err(p) => return Err(("from-chrono-utc-panic".into(), format!("{secs}: {p}"))),
        Ok(d) => {
            let got = dt_from_lib(&d);
            if got.secs != secs || got.nanos != nanos || got.offset != 0 || got.tz != "UTC" {
                return Err(("from-chrono-utc".into(), format!("{secs}s+{nanos}ns became {}s+{}ns offset {} zone {:?}", got.secs, got.nanos, got.offset, got.tz)));
            }
        }
    }
    // make_date_time_with_tz: the instant given at any fixed offset (UTC, the local one, an unrelated one)
    for (how, off) in [("utc", 0), ("local", want.offset), ("other", 19_800)] {
        let fixed = utc.with_timezone(&FixedOffset::east_opt(off).unwrap());
        for (nm, name) in [("city", city.as_str()), ("full", zone)] {
            match guarded(|| make_date_time_with_tz(&fixed, name)) {
                Err(p) => return Err(("make-with-tz-panic".into(), format!("{name} {secs}: {p}"))),
                Ok(Err(e)) => return Err((format!("make-with-tz-rejected:{nm}"), format!("make_date_time_with_tz(instant {secs} at offset {off}, {name:?}): {e}"))),
                Ok(Ok(d)) => cmp(&format!("make-with-tz:{how}:{nm}"), &dt_from_lib(&DateTime::from(d)))?,
            }
        }
    }
    // make_date_time: a fixed offset has no zone name; whatever zone stands in, the instant is kept
    if want.offset % 60 == 0 {
        let fixed = utc.with_timezone(&FixedOffset::east_opt(want.offset).unwrap());
        match guarded(|| make_date_time(fixed)) {
            Err(p) => return Err(("make-fixed-panic".into(), format!("offset {} {secs}: {p}", want.offset))),
            Ok(Err(_)) => {}
            Ok(Ok(d)) => {
                if d.timestamp() != secs || d.timestamp_subsec_nanos() != nanos {
                    return Err(("make-fixed:instant".into(), format!("offset {} instant {secs} became {}", want.offset, d.timestamp())));
                }
            }
        }
    }
    // C API: date and time are the UTC fields of the instant (whole seconds, or milliseconds)
    let days = secs.div_euclid(86400);
    let sod = secs.rem_euclid(86400) as u32;
    let (y, mo, d) = civil_from_days(days);
    let millis = nanos / 1_000_000;
    let whole_ms = nanos % 1_000_000 == 0;
    if !whole_ms {
        return Ok(());
    }
    let r: Result<Verdict, String> = guarded(|| unsafe {
        let date = Box::into_raw(haystack_value_make_date(y as i32, mo as u32, d as u32).expect("date"));
        let time = Box::into_raw(if millis == 0 {
            haystack_value_make_time(sod / 3600, sod / 60 % 60, sod % 60).expect("time")
        } else {
            haystack_value_make_time_millis(sod / 3600, sod / 60 % 60, sod % 60, millis).expect("time")
        });
        let mut verdict: Verdict = Ok(());
        for (nm, name) in [("city", city.as_str()), ("full", zone)] {
            let cname = std::ffi::CString::new(name).unwrap();
            let made = haystack_value_make_tz_datetime(date, time, cname.as_ptr());
            let Some(made) = made else {
                verdict = Err((format!("capi-make-rejected:{nm}"), format!("haystack_value_make_tz_datetime({y}-{mo}-{d} {sod}s, {name:?}) failed")));
                break;
            };
            let h = Box::into_raw(made);
            let got = match &*h {
                Value::DateTime(dt) => dt_from_lib(dt),
                other => {
                    verdict = Err(("capi-make-kind".into(), format!("{other:?}")));
                    haystack_value_destroy(h);
                    break;
                }
            };
            if let Err(e) = cmp(&format!("capi-make:{nm}"), &got) {
                verdict = Err(e);
            }
            // getters: UTC and local fields, zone name
            let out = Box::into_raw(haystack_value_init());
            for want_utc in [true, false] {
                let shift = if want_utc { 0 } else { want.offset as i64 };
                let ls = secs + shift;
                let (ly, lm, ld) = civil_from_days(ls.div_euclid(86400));
                let lsod = ls.rem_euclid(86400) as u32;
                let rc = haystack_value_get_datetime_date(h, want_utc, out);
                let ok_date = matches!(&*out, Value::Date(dd) if { use chrono::Datelike; dd.year() as i64 == ly && dd.month() as i64 == lm && dd.day() as i64 == ld });
                if rc as i32 != 1 || !ok_date {
                    verdict = verdict.and(Err((format!("capi-get-date:{}", if want_utc { "utc" } else { "local" }), format!("{zone} {secs}: got {:?}, expected {ly}-{lm}-{ld}", &*out))));
                }
                let rc = haystack_value_get_datetime_time(h, want_utc, out);
                let ok_time = matches!(&*out, Value::Time(tt) if { use chrono::Timelike; tt.num_seconds_from_midnight() == lsod && tt.nanosecond() == nanos });
                if rc as i32 != 1 || !ok_time {
                    verdict = verdict.and(Err((format!("capi-get-time:{}", if want_utc { "utc" } else { "local" }), format!("{zone} {secs}: got {:?}, expected {lsod}s of day + {nanos}ns", &*out))));
                }
            }
            let zs = haystack_value_get_datetime_timezone(h);
            if zs.is_null() {
                verdict = verdict.and(Err(("capi-get-timezone".into(), format!("{zone}: null"))));
            } else {
                let got = std::ffi::CStr::from_ptr(zs).to_string_lossy().to_string();
                libhaystack::c_api::str::haystack_string_destroy(zs as *mut _);
                if got != city {
                    verdict = verdict.and(Err(("capi-get-timezone".into(), format!("{zone}: zone name {got:?}, expected {city:?}"))));
                }
            }
            haystack_value_destroy(out);
            haystack_value_destroy(h);
            if verdict.is_err() {
                break;
            }
        }
        haystack_value_destroy(date);
        haystack_value_destroy(time);
        verdict
    });
    match r {
        Err(p) => Err(("capi-panic".into(), format!("{zone} {secs}: {p}"))),
        Ok(v) => v,
    }
}

fn zone_sig(stage: &str, zone: &str, secs: i64, digits: usize) -> String {
    format!("{stage}:{}", shape_sig(&V::dt(secs, nanos_for(digits), zone)))
}

fn run_zoned(zone: &str, secs: i64, digits: usize, local: &mut Local) {
    local.eval();
    local.nontrivial(&format!("{zone}@{secs}.{digits}"));
    match check_zoned(zone, secs, digits) {
        Ok(()) => local.outcome("ok"),
        Err((stage, d)) => {
            local.outcome(&stage);
            local.fail(&zone_sig(&stage, zone, secs, digits), json!({"zone": zone, "secs": secs, "digits": digits}), d)
        }
    }
}

/// Free-running pass (supplementary, NOT exhaustive): zone names are resolved from several OS
/// threads at once — every thread a different rotation of 24 city names, through
/// parse_from_rfc3339_with_timezone, make_date_time_with_tz and the Zinc decoder — and every result
/// must carry the zone that was asked for. (The enumerations below run on 16 threads and rely on
/// name resolution being independent of what other threads resolve.) Returns the first wrong answer.
fn free_running_zones(threads: usize, millis: u64) -> (u64, Option<String>) {
    let cities: Vec<&str> = vec!["New_York", "Kolkata", "London", "Tokyo", "Sydney", "Sao_Paulo", "Los_Angeles", "Paris", "Dubai", "Kathmandu", "Chicago", "Berlin", "Lagos", "Auckland", "Honolulu", "Denver", "Moscow", "Shanghai", "Jakarta", "Lima", "Nairobi", "Riyadh", "Dhaka", "Anchorage"];
    let total = std::sync::atomic::AtomicU64::new(0);
    let bad: std::sync::Mutex<Option<String>> = std::sync::Mutex::new(None);
    let stop = std::sync::atomic::AtomicBool::new(false);
    let barrier = std::sync::Barrier::new(threads + 1);
    std::thread::scope(|sc| {
        for t in 0..threads {
            let (cities, total, bad, stop, barrier) = (&cities, &total, &bad, &stop, &barrier);
            sc.spawn(move || {
                barrier.wait();
                let mut done = 0u64;
                let mut k = t * 5;
                let fixed = chrono::DateTime::parse_from_rfc3339("2021-06-01T12:00:00+00:00").unwrap();
                'outer: while !stop.load(std::sync::atomic::Ordering::Relaxed) {
                    for _ in 0..64 {
                        let city = cities[k % cities.len()];
                        k += 1 + t;
                        let answers: [(&str, Result<String, String>); 3] = [
                            ("parse_from_rfc3339_with_timezone", DateTime::parse_from_rfc3339_with_timezone("2021-06-01T12:00:00Z", city).map(|d| d.timezone_short_name())),
                            ("make_date_time_with_tz", libhaystack::timezone::make_date_time_with_tz(&fixed, city).map(|d| DateTime::from(d).timezone_short_name())),
                            ("zinc", libhaystack::encoding::zinc::decode::from_str(&format!("2021-06-01T12:00:00Z {city}")).map_err(|e| e.to_string()).and_then(|v| match v {
                                Value::DateTime(d) => Ok(d.timezone_short_name()),
                                other => Err(format!("{other:?}")),
                            })),
                        ];
                        for (how, a) in answers {
                            done += 1;
                            if a.as_deref() != Ok(city) {
                                let mut b = bad.lock().unwrap();
                                if b.is_none() {
                                    *b = Some(format!("thread {t} of {threads}: {how} with zone {city:?} gives {a:?}"));
                                }
                                stop.store(true, std::sync::atomic::Ordering::Relaxed);
                                break 'outer;
                            }
                        }
                    }
                }
                total.fetch_add(done, std::sync::atomic::Ordering::Relaxed);
            });
        }
        barrier.wait();
        std::thread::sleep(std::time::Duration::from_millis(millis));
        stop.store(true, std::sync::atomic::Ordering::Relaxed);
    });
    let b = bad.lock().unwrap().clone();
    (total.load(std::sync::atomic::Ordering::Relaxed), b)
}

pub fn run(tier: Tier) -> i32 {
    let instants: Vec<i64> = ALL_INSTANTS.iter().copied().filter(|t| (T1980..T2060).contains(t)).collect();
    #[allow(non_snake_case)]
    let INSTANTS: &[i64] = &instants;
    let mut run = Run::new("C06", tier, "exploration");
    run.rule = "(0) supplementary free-running pass, NOT exhaustive: 8 (thorough 16) OS threads resolve rotations of 24 city names at once through three entry points for 0.7 s (5 s), every result must carry the zone asked for; (i) every RFC 3339 offset -12:00..+14:00 in 15-minute steps x 12 instants x 0..9 fraction digits (+ Z / +00:00 / -00:00) through three constructors: rejected or exact instant; (i'') the leap second 23:59:60 UTC of 2015-06-30 and 2016-12-31 spelled at every half-hour offset, and as a value in every zone through both codecs; (i-z) ~1500 zoned texts (Zinc, Hayson, text + zone) whose wall clock lies in or next to the skipped / repeated hour of 18 zones, with the offset before, after, and offsets the zone never has: never a panic; when the offset is the zone's offset at that instant, the instant of the RFC 3339 part (or an error); (i') 27 malformed texts and 14 zone names that name no zone: error or preserved instant, never a panic; (ii) every in-model zone x every offset transition 1980-2060 x {t-3601,t-1,t,t+1,t+3599} + a lattice, through parse_from_rfc3339_with_timezone (UTC and local spelling), the chrono conversions, timezone::make_date_time_with_tz (city and full name, instant given at three offsets), make_date_time, the C API constructor from UTC date + time + zone with its date/time/zone getters, and (iii) both codecs with 0/3/6/9 fraction digits; (v) the 18 zones of the scalar alphabet beyond that range: every offset transition 1900-2100, a yearly lattice to 2200, years 1 / 1000 / 9999, instants just before 1970 (whole-minute offsets only); non-trivial = distinct (zone, instant, digits) / distinct text".into();
    run.assume("chrono_tz offsets are the reference for each zone's local offset (trusted base)");
    run.assume("in-model zone = city name (text after the first '/') designates no zone with different rules under exact or region-prefixed resolution");
    crate::engine::quiet_panics();

    // (0) free-running pass first: the enumerations below are spread over 16 threads
    {
        let (n, bad) = free_running_zones(tier.pick(8, 16), tier.pick(700, 5000));
        run.stats.evals += n;
        run.note("free_running_zone_lookups", json!(n));
        if let Some(d) = bad {
            run.stats.fail("free-running:zone-resolution-depends-on-other-threads", json!({"free_running": "zones"}), d);
            return run.finish(&replay);
        }
    }

    // (i)
    let mut texts: Vec<String> = vec![];
    for q in -48i32..=56 {
        let off = q * 900;
        for &t in INSTANTS {
            for digits in 0..=9usize {
                let nanos = 987_654_321u32 / 10u32.pow(9 - digits as u32) * 10u32.pow(9 - digits as u32);
                texts.push(rfc3339_text(t, nanos, off, digits, ""));
                if off == 0 {
                    texts.push(rfc3339_text(t, nanos, 0, digits, "Z"));
                    texts.push(rfc3339_text(t, nanos, 0, digits, "").replace("+00:00", "-00:00"));
                }
            }
        }
    }
    // leap seconds: 23:59:60 UTC spelled at every whole-hour and half-hour offset
    for q in -24i32..=28 {
        for digits in [0usize, 3, 9] {
            texts.push(rfc3339_text(1_483_228_799, 1_000_000_000 + nanos_for(digits), q * 1800, digits, ""));
            texts.push(rfc3339_text(1_435_708_799, 1_000_000_000 + nanos_for(digits), q * 1800, digits, "Z"));
        }
    }
    let l = par_for(texts.len(), |i, local| {
        local.eval();
        local.nontrivial(&texts[i]);
        local.count("rfc3339-texts");
        match check_rfc3339(&texts[i]) {
            Ok(()) => local.outcome("ok"),
            Err((stage, d)) => {
                let off = rfc3339_instant(&texts[i]).map(|x| x.2).unwrap_or(0);
                local.fail(&format!("{stage}:{}", offset_class(off)), json!({"rfc3339": texts[i]}), d)
            }
        }
    });
    run.absorb(l);

    // (i') texts outside RFC 3339 and zone names that name no zone: an error or, if accepted, the
    // instant of the well-formed part; never a panic
    let malformed = [
        "", "2021", "2021-01-01", "2021-01-01T", "2021-01-01T00:00:00", "2021-01-01T00:00:00z", "2021-01-01 00:00:00Z", "2021-02-30T00:00:00Z", "2021-13-01T00:00:00Z",
        "2021-01-01T24:00:00Z", "2021-01-01T00:60:00Z", "2021-01-01T00:00:00+24:00", "2021-01-01T00:00:00+00:60", "2021-01-01T00:00:00+0000", "2021-01-01T00:00:00+00", "2021-01-01T00:00:00.Z",
        "2021-01-01T00:00:00,5Z", "-2021-01-01T00:00:00Z", "12021-01-01T00:00:00Z", "2021-01-01T00:00:00Z UTC", "2021-01-01T00:00:00\u{e9}Z", "2021-01-01T00:00:00+0\u{e9}:00", "\u{1f600}",
        "2021-01-01T00:00:00.1234567890123Z", "0000-01-01T00:00:00Z", "9999-12-31T23:59:59+00:00", "2021-1-1T0:0:0Z",
    ];
    let bad_zones = ["", " ", "Nowhere", "New York", "new_york", "\u{e9}", "UTC+25", "/", "America/", "/New_York", "America/New_York/x", "GMT+99", "Etc/", "../UTC"];
    for text in malformed {
        run.stats.evals += 1;
        run.stats.count("malformed-texts");
        let ctors: Vec<(&str, Box<dyn Fn() -> Result<DT, String>>)> = vec![
            ("parse_from_rfc3339", Box::new(|| DateTime::parse_from_rfc3339(text).map(|d| dt_from_lib(&d)))),
            ("from_str", Box::new(|| DateTime::from_str(text).map(|d| dt_from_lib(&d)))),
            ("with_timezone", Box::new(|| DateTime::parse_from_rfc3339_with_timezone(text, "New_York").map(|d| dt_from_lib(&d)))),
            (
                "make_datetime_from_iso",
                Box::new(|| match Value::make_datetime_from_iso(text)? {
                    Value::DateTime(d) => Ok(dt_from_lib(&d)),
                    other => Err(format!("not a DateTime: {other:?}")),
                }),
            ),
        ];
        for (name, f) in ctors {
            match guarded(|| f()) {
                Err(p) => run.stats.fail(&format!("rfc3339-panic:{name}:malformed"), json!({"malformed": text}), format!("{text:?}: {p}")),
                Ok(Err(_)) => run.stats.outcome("rejected"),
                Ok(Ok(got)) => {
                    // accepted although outside the model: if the reference can read it (range limits), the instant must agree
                    if let Some(want) = rfc3339_instant(text) {
                        if got.secs != want.0 || got.nanos != want.1 {
                            run.stats.fail(&format!("rfc3339-instant:{name}:limits"), json!({"malformed": text}), format!("{text:?} denotes {}s, library gives {}s", want.0, got.secs));
                        }
                    }
                    run.stats.outcome("accepted-outside-the-model");
                }
            }
        }
    }
    for z in bad_zones {
        run.stats.evals += 1;
        run.stats.count("bad-zone-names");
        let text = "2021-07-01T10:00:00Z";
        match guarded(|| DateTime::parse_from_rfc3339_with_timezone(text, z).map(|d| dt_from_lib(&d))) {
            Err(p) => run.stats.fail("with-timezone-panic:bad-zone", json!({"bad_zone": z}), format!("{z:?}: {p}")),
            Ok(Err(_)) => run.stats.outcome("rejected"),
            Ok(Ok(got)) => {
                if got.secs != 1_625_133_600 {
                    run.stats.fail("with-timezone:instant:bad-zone", json!({"bad_zone": z}), format!("zone name {z:?} accepted and the instant moved to {}", got.secs));
                }
                run.stats.outcome("accepted-outside-the-model");
            }
        }
    }

    // (i-z) zoned texts whose wall clock is in the skipped / repeated hour, with agreeing and
    // disagreeing offsets: rejected, or the instant of the RFC 3339 part, never a panic
    for (text, city, secs) in transition_texts() {
        run.stats.evals += 1;
        run.stats.count("transition-texts");
        let z = format!("{text} {city}");
        let j = format!("{{\"_kind\":\"dateTime\",\"val\":\"{text}\",\"tz\":\"{city}\"}}");
        let results: Vec<(&str, Result<Result<DT, String>, String>)> = vec![
            ("zinc", guarded(|| match libhaystack::encoding::zinc::decode::from_str(&z) {
                Ok(Value::DateTime(d)) => Ok(dt_from_lib(&d)),
                Ok(other) => Err(format!("{other:?}")),
                Err(e) => Err(e.to_string()),
            })),
            ("hayson", guarded(|| match serde_json::from_str::<Value>(&j) {
                Ok(Value::DateTime(d)) => Ok(dt_from_lib(&d)),
                Ok(other) => Err(format!("{other:?}")),
                Err(e) => Err(e.to_string()),
            })),
            ("with-timezone", guarded(|| DateTime::parse_from_rfc3339_with_timezone(&text, &city).map(|d| dt_from_lib(&d)))),
        ];
        for (name, r) in results {
            match r {
                Err(p) => run.stats.fail(&format!("zoned-text-panic:{name}"), json!({"zoned_text": text, "city": city}), format!("{z:?}: {p}")),
                Ok(Err(_)) => run.stats.outcome("rejected"),
                Ok(Ok(got)) => {
                    // a text whose offset is not the zone's offset at that instant denotes no
                    // value (no writer can produce it): only totality is demanded of it
                    let full = crate::model::universe::ZONES.iter().find(|z| city_of(z) == city).copied().unwrap_or("UTC");
                    let agrees = rfc3339_instant(&text).map_or(false, |x| offset_at(&full.parse::<Tz>().unwrap(), secs) == x.2);
                    if !agrees {
                        run.stats.outcome("accepted-inconsistent-offset");
                        if got.secs != secs {
                            run.stats.count("inconsistent-offset-texts-read-at-another-instant");
                        }
                    } else if got.secs != secs {
                        run.stats.fail(&format!("zoned-text-instant:{name}"), json!({"zoned_text": text, "city": city}), format!("{z:?} denotes {secs}s, library gives {}s (offset {})", got.secs, got.offset));
                    }
                    run.stats.outcome("ok");
                }
            }
        }
    }

    // (ii) + (iii)
    let all = in_model_zones();
    run.note("in_model_zones", json!(all.len()));
    run.note("database_zones", json!(chrono_tz::TZ_VARIANTS.len()));
    let zones: Vec<String> = if tier == Tier::Quick {
        // one zone per distinct (winter offset, summer offset, transition count) class + the zones of Σ
        let mut seen = std::collections::BTreeSet::new();
        let mut pick = vec![];
        for z in &all {
            let tz: Tz = z.parse().unwrap();
            let key = (offset_at(&tz, 1_610_000_000), offset_at(&tz, 1_625_097_600), offset_at(&tz, 400_000_000));
            if seen.insert(key) || crate::model::universe::ZONES.contains(&z.as_str()) {
                pick.push(z.clone());
            }
        }
        pick
    } else {
        all.clone()
    };
    run.note("zones_explored", json!(zones.len()));
    let l = par_for(zones.len(), |zi, local| {
        let zone = &zones[zi];
        let tz: Tz = zone.parse().unwrap();
        let trans = transitions(&tz);
        local.count_n("transitions", trans.len() as u64);
        local.count("zones");
        let mut repeated = false;
        let mut skipped = false;
        for (k, &t) in trans.iter().enumerate() {
            let before = offset_at(&tz, t - 1);
            let after = offset_at(&tz, t);
            if after < before {
                repeated = true;
            } else {
                skipped = true;
            }
            // quick: all transitions with 2 digit settings alternating; thorough: all 4
            for (di, &digits) in DIGITS.iter().enumerate() {
                if tier == Tier::Quick && di != k % 4 && di != 0 {
                    continue;
                }
                for dt in [-3601i64, -1, 0, 1, 3599] {
                    run_zoned(zone, t + dt, digits, local);
                }
            }
        }
        if repeated {
            local.count("zones-with-repeated-hour");
        }
        if skipped {
            local.count("zones-with-skipped-hour");
        }
        // lattice: 6-hourly over one year (thorough) / weekly (quick)
        let step = tier.pick(7 * 86400 + 3600, 6 * 3600);
        let mut t = 1_600_000_000i64;
        while t < 1_600_000_000 + 366 * 86400 {
            run_zoned(zone, t, 0, local);
            t += step;
        }
        for &t in INSTANTS {
            for &digits in &DIGITS {
                run_zoned(zone, t, digits, local);
            }
        }
        // a leap second (2016-12-31T23:59:60Z) in this zone, through the codecs
        for &digits in &DIGITS {
            local.eval();
            let v = V::dt(1_483_228_799, 1_000_000_000 + nanos_for(digits), zone);
            let r = super::c01::zinc_roundtrip(&v).map_err(|(s, d)| (format!("zinc:{s}"), d)).and_then(|_| super::c02::hayson_roundtrip(&v).map_err(|(s, d)| (format!("hayson:{s}"), d)));
            if let Err((stage, d)) = r {
                local.fail(&format!("{stage}:leap-second"), json!({"zone": zone, "leap_digits": digits}), d);
            }
            local.count("leap-second-round-trips");
        }
    });
    run.absorb(l);
    // (v) beyond 1980-2060, for the zones of the scalar alphabet (their city names are unambiguous
    // at all times): every offset transition 1900-2100 (t-1, t, t+1), a yearly lattice 1900-2200,
    // years 1, 1000, 9999; instants whose local offset has seconds are skipped (RFC 3339 cannot
    // spell them; recorded under C11)
    {
        let zs: Vec<&str> = crate::model::universe::ZONES.to_vec();
        let l = par_for(zs.len(), |zi, local| {
            let zone = zs[zi];
            let tz: Tz = zone.parse().unwrap();
            let (lo, hi) = (-2_208_988_800i64, 4_102_444_800i64); // 1900-01-01 .. 2100-01-01
            let mut instants: Vec<i64> = vec![];
            let mut t = lo;
            let mut cur = offset_at(&tz, t);
            while t < hi {
                let n = (t + 86400).min(hi);
                if offset_at(&tz, n) != cur {
                    let (mut a, mut b) = (t, n);
                    while b - a > 1 {
                        let m = a + (b - a) / 2;
                        if offset_at(&tz, m) == cur {
                            a = m;
                        } else {
                            b = m;
                        }
                    }
                    instants.extend([b - 1, b, b + 1]);
                    cur = offset_at(&tz, n);
                }
                t = n;
            }
            let mut y = lo;
            while y < 7_258_118_400 {
                instants.push(y + 86_399);
                y += 31_556_952;
            }
            instants.extend([-62_135_596_800 + 86_400, -30_610_224_000, 253_402_300_799 - 86_400 * 2, -1, -86_401, 1]);
            if tier == Tier::Quick {
                instants = instants.into_iter().step_by(5).collect();
            }
            for t in instants {
                if offset_at(&tz, t) % 60 != 0 {
                    local.count("wide-range-skipped-seconds-offset");
                    continue;
                }
                for digits in [0usize, 3, 9] {
                    run_zoned(zone, t, digits, local);
                    local.count("wide-range-instants");
                }
            }
        });
        run.absorb(l);
        run.require(run.counter("wide-range-instants") > 1000, "wide range pass too small");
    }
    // (vi) history independence: decoding a timestamp after a timestamp in another zone or DST
    // state (all ordered pairs of 18 zones x 6 instants, Zinc, Hayson, text + zone constructor)
    {
        let mut pool: Vec<(String, i64)> = vec![];
        for z in crate::model::universe::ZONES {
            for t in [1_610_000_000i64, 1_625_097_600, 1_636_264_800 - 1, 1_636_264_800, 1_615_705_200 - 1, 951_782_400] {
                pool.push((z.to_string(), t));
            }
        }
        let op = |x: &(String, i64)| -> String {
            let v = V::dt(x.1, 123_000_000, &x.0);
            let z = crate::model::zinc_ref::write_canonical(&v);
            let a = libhaystack::encoding::zinc::decode::from_str(&z).map(|b| format!("{:?}", crate::model::v::from_lib(&b))).map_err(|e| e.to_string());
            let (j, _) = crate::model::hayson_ref::write(&v, &mut crate::engine::choice::Chooser::replaying(vec![]));
            let b = serde_json::from_str::<Value>(&j).map(|b| format!("{:?}", crate::model::v::from_lib(&b))).map_err(|e| e.to_string());
            let c = DateTime::parse_from_rfc3339_with_timezone(&rfc3339_text(x.1, 0, 0, 0, "Z"), &city_of(&x.0)).map(|d| format!("{:?}", dt_from_lib(&d)));
            let lv = crate::model::v::to_lib(&v);
            let d = libhaystack::encoding::zinc::encode::to_zinc_string(&lv).map_err(|e| e.to_string());
            let e = serde_json::to_string(&lv).map_err(|e| e.to_string());
            format!("{a:?}|{b:?}|{c:?}|{d:?}|{e:?}")
        };
        let l = super::common::history_pairs("timestamps", &pool, &op, &|x: &(String, i64)| json!({"zone": x.0, "secs": x.1}));
        run.absorb(l);
    }
    // (vii) several timestamps in ONE document: for every zone of the alphabet every ordered pair of
    // 6 instants (both sides of both 2021 transitions) in a list and in two rows of a grid, through
    // both codecs (reference writer text in, and library text out and in)
    {
        let zs: Vec<&str> = crate::model::universe::ZONES.to_vec();
        let ts = [1_610_000_000i64, 1_625_097_600, 1_636_264_800 - 1, 1_636_264_800, 1_615_705_200 - 1, 1_615_705_200];
        let l = par_for(zs.len() * zs.len(), |k, local| {
            let (z1, z2) = (zs[k / zs.len()], zs[k % zs.len()]);
            for &t1 in &ts {
                for &t2 in &ts {
                    if z1 != z2 && (t1 != ts[0] || t2 != ts[1]) {
                        continue; // different zones: one pair of instants
                    }
                    local.eval();
                    local.count("timestamp-pair-documents");
                    if let Err((stage, d)) = two_timestamps(z1, t1, z2, t2) {
                        local.fail(&format!("{stage}:two-timestamps-in-one-document"), json!({"two_timestamps": [z1, t1, z2, t2]}), d.chars().take(700).collect());
                    }
                }
            }
        });
        run.absorb(l);
    }
    run.require(run.counter("rfc3339-texts") > 10_000, "too few RFC 3339 texts");
    run.require(all.len() >= 500, "fewer than 500 zones in the model");
    run.require(run.counter("zones-with-repeated-hour") > 10 && run.counter("zones-with-skipped-hour") > 10, "no DST transitions explored");
    run.require(run.stats.outcomes.contains("ok"), "nothing passed");
    run.stats.samples = vec![
        json!({"rfc3339": "2021-07-01T10:00:00.987+10:00"}),
        json!({"zone": "Australia/Sydney", "secs": 1_633_190_399i64, "digits": 3}),
        json!({"zone": "America/St_Johns", "secs": 1_636_263_000i64, "digits": 9}),
    ];
    run.finish(&replay)
}

/// two timestamps in one document (a list and two rows of a grid) through both codecs and from the
/// reference writer's text
fn two_timestamps(z1: &str, t1: i64, z2: &str, t2: i64) -> Verdict {
    let (a, b) = (V::dt(t1, 0, z1), V::dt(t2, 500_000_000, z2));
    let doc = V::List(vec![
        a.clone(),
        b.clone(),
        V::Grid(Box::new(crate::model::v::G {
            ver: "3.0".into(),
            meta: None,
            cols: vec![crate::model::v::Col { name: "ts".into(), meta: None }, crate::model::v::Col { name: "v".into(), meta: None }],
            rows: vec![crate::model::v::mk_tags(&[("ts", a.clone()), ("v", V::num(1.0))]), crate::model::v::mk_tags(&[("ts", b.clone()), ("v", V::num(2.0))])],
        })),
    ]);
    super::c01::zinc_roundtrip(&doc).map_err(|(s, d)| (format!("zinc:{s}"), d))?;
    super::c02::hayson_roundtrip(&doc).map_err(|(s, d)| (format!("hayson:{s}"), d))?;
    let text = crate::model::zinc_ref::write_canonical(&doc);
    match guarded(|| libhaystack::encoding::zinc::decode::from_str(&text)) {
        Ok(Ok(back)) => crate::model::v::same(&doc, &crate::model::v::from_lib(&back)).map_err(|d| ("zinc:reference-text".to_string(), format!("{d}; text={text:?}"))),
        Ok(Err(e)) => Err(("zinc:reference-text-rejected".to_string(), format!("{e}; text={text:?}"))),
        Err(p) => Err(("zinc:reference-text-panic".to_string(), p)),
    }
}

/// the offset of a zoned text is the zone's offset at the instant the text denotes
fn consistent(text: &str, city: &str) -> bool {
    let full = crate::model::universe::ZONES.iter().find(|z| city_of(z) == city).copied().unwrap_or("UTC");
    rfc3339_instant(text).map_or(false, |x| offset_at(&full.parse::<Tz>().unwrap(), x.0) == x.2)
}

pub fn replay(case: &J) -> Verdict {
    if case["free_running"] == "zones" {
        // not a schedule: the pass is repeated, longer
        return match free_running_zones(16, 3000).1 {
            Some(_) => Err(("free-running:zone-resolution-depends-on-other-threads".into(), "a zone name resolved while other threads resolve other names gives another zone".into())),
            None => Ok(()),
        };
    }
    if let Some(a) = case["two_timestamps"].as_array() {
        let (z1, t1, z2, t2) = (a[0].as_str().unwrap_or("UTC"), a[1].as_i64().unwrap_or(0), a[2].as_str().unwrap_or("UTC"), a[3].as_i64().unwrap_or(0));
        return two_timestamps(z1, t1, z2, t2).map_err(|(s, d)| (format!("{s}:two-timestamps-in-one-document"), d));
    }
    if case["history_pair"].is_string() {
        // replayed by the whole check (the pair is only meaningful within its pool)
        return Err(("history-changes-output:timestamps".into(), "re-run ./check C06 quick".into()));
    }
    if let (Some(text), Some(city)) = (case["zoned_text"].as_str(), case["city"].as_str()) {
        let want = rfc3339_instant(text).map(|x| x.0);
        let z = format!("{text} {city}");
        return match guarded(|| libhaystack::encoding::zinc::decode::from_str(&z).ok().and_then(|v| match v { Value::DateTime(d) => Some(dt_from_lib(&d).secs), _ => None })) {
            Err(p) => Err(("zoned-text-panic:zinc".into(), p)),
            Ok(Some(s)) if Some(s) != want && consistent(text, city) => Err(("zoned-text-instant:zinc".into(), format!("{s} vs {want:?}"))),
            _ => {
                let j = format!("{{\"_kind\":\"dateTime\",\"val\":\"{text}\",\"tz\":\"{city}\"}}");
                match guarded(|| serde_json::from_str::<Value>(&j).ok().and_then(|v| match v { Value::DateTime(d) => Some(dt_from_lib(&d).secs), _ => None })) {
                    Err(p) => Err(("zoned-text-panic:hayson".into(), p)),
                    Ok(Some(s)) if Some(s) != want && consistent(text, city) => Err(("zoned-text-instant:hayson".into(), format!("{s} vs {want:?}"))),
                    _ => Ok(()),
                }
            }
        };
    }
    if let Some(t) = case["malformed"].as_str() {
        return match guarded(|| {
            let _ = DateTime::parse_from_rfc3339(t);
            let _ = DateTime::from_str(t);
            let _ = DateTime::parse_from_rfc3339_with_timezone(t, "New_York");
            let _ = Value::make_datetime_from_iso(t);
        }) {
            Ok(()) => Ok(()),
            Err(p) => Err(("rfc3339-panic:malformed".into(), p)),
        };
    }
    if let Some(z) = case["bad_zone"].as_str() {
        return match guarded(|| DateTime::parse_from_rfc3339_with_timezone("2021-07-01T10:00:00Z", z).map(|d| dt_from_lib(&d))) {
            Err(p) => Err(("with-timezone-panic:bad-zone".into(), p)),
            Ok(Ok(got)) if got.secs != 1_625_133_600 => Err(("with-timezone:instant:bad-zone".into(), format!("instant {}", got.secs))),
            _ => Ok(()),
        };
    }
    if let Some(t) = case["rfc3339"].as_str() {
        let off = rfc3339_instant(t).map(|x| x.2).unwrap_or(0);
        return check_rfc3339(t).map_err(|(s, d)| (format!("{s}:{}", offset_class(off)), d));
    }
    let zone = case["zone"].as_str().unwrap_or("UTC");
    if let Some(digits) = case["leap_digits"].as_u64() {
        let v = V::dt(1_483_228_799, 1_000_000_000 + nanos_for(digits as usize), zone);
        return super::c01::zinc_roundtrip(&v)
            .map_err(|(s, d)| (format!("zinc:{s}:leap-second"), d))
            .and_then(|_| super::c02::hayson_roundtrip(&v).map_err(|(s, d)| (format!("hayson:{s}:leap-second"), d)));
    }
    let secs = case["secs"].as_i64().unwrap_or(0);
    let digits = case["digits"].as_u64().unwrap_or(0) as usize;
    check_zoned(zone, secs, digits).map_err(|(s, d)| (zone_sig(&s, zone, secs, digits), d))
}

#[allow(dead_code)]
fn _unused(_: &J) -> V {
    from_json(&to_json(&V::Null))
}
