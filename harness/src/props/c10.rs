//! C10 — encoders never panic on any constructible value (DESIGN §5 C10).
//! Universe U_all: well-formedness removed; plus the image of both decoders on every accepted
//! short text over the token alphabets.

use super::common::Verdict;
use crate::engine::{guarded, par_for_stack, Local, Run, Tier};
use crate::model::shrink::{shape_sig, shrink};
use crate::model::universe as u;
use crate::model::v::{from_json, from_lib, mk_tags, to_json, to_lib, Col, Tags, DT, G, V};
use libhaystack::encoding::zinc::decode::from_str;
use libhaystack::encoding::zinc::encode::{to_zinc_string, ToZinc};
use libhaystack::val::{dict_to_dis, HaystackDict, Value};
use serde_json::{json, Value as J};
use std::borrow::Cow;

/// every encoder / display entry point on one library value; Err = (entry point, panic message)
pub fn encode_all(lv: &Value) -> Result<(), (String, String)> {
    guarded(|| to_zinc_string(lv).map(|_| ())).map_err(|p| ("zinc".to_string(), p))?.ok();
    guarded(|| match lv {
        Value::Number(x) => x.to_zinc_string().map(|_| ()),
        Value::Str(x) => x.to_zinc_string().map(|_| ()),
        Value::Uri(x) => x.to_zinc_string().map(|_| ()),
        Value::Ref(x) => x.to_zinc_string().map(|_| ()),
        Value::Symbol(x) => x.to_zinc_string().map(|_| ()),
        Value::Date(x) => x.to_zinc_string().map(|_| ()),
        Value::Time(x) => x.to_zinc_string().map(|_| ()),
        Value::DateTime(x) => x.to_zinc_string().map(|_| ()),
        Value::Coord(x) => x.to_zinc_string().map(|_| ()),
        Value::XStr(x) => x.to_zinc_string().map(|_| ()),
        Value::List(x) => x.to_zinc_string().map(|_| ()),
        Value::Dict(x) => x.to_zinc_string().map(|_| ()),
        Value::Grid(x) => {
            for c in &x.columns {
                let _ = c.to_zinc_string();
            }
            x.to_zinc_string().map(|_| ())
        }
        _ => Ok(()),
    })
    .map_err(|p| ("typed-zinc".to_string(), p))?
    .ok();
    guarded(|| {
        let _ = serde_json::to_string(lv);
        let _ = serde_json::to_vec(lv);
        let _ = serde_json::to_value(lv);
    })
    .map_err(|p| ("hayson".to_string(), p))?;
    // Display: the statement allows "text or an error"; `to_string()` turns a Display error into
    // a panic of the *caller*, so Display is driven through write! which reports the error.
    guarded(|| {
        use std::fmt::Write;
        let mut s = String::new();
        let _ = write!(s, "{lv}");
    })
    .map_err(|p| ("display".to_string(), p))?;
    // `to_string()` is how display text is obtained in practice: a Display impl that returns an
    // error makes it panic in the caller
    guarded(|| {
        let _ = lv.to_string();
    })
    .map_err(|p| ("to_string".to_string(), p))?;
    guarded(|| {
        let _ = format!("{lv:?}");
    })
    .map_err(|p| ("debug".to_string(), p))?;
    // format specifications: display text is asked for with width, fill, alignment, precision,
    // sign and alternate flags (table and log lines); none of them may panic either
    guarded(|| {
        use std::fmt::Write;
        let mut s = String::new();
        macro_rules! specs {
            ($x:expr) => {{
                let x = $x;
                let _ = write!(s, "{x:1}{x:8}{x:<8}{x:>6}{x:^30}{x:*^5}{x:.0}{x:.3}{x:08.2}{x:+}{x:#}{x:300}{x:-<2}");
                for w in [0usize, 1, 2, 3, 5, 17, 64] {
                    for pr in [0usize, 1, 4, 40] {
                        let _ = write!(s, "{x:w$}{x:<w$}{x:>w$.pr$}{x:^w$.pr$}");
                    }
                }
                s.clear();
            }};
        }
        macro_rules! dspecs {
            ($x:expr) => {{
                let x = $x;
                let _ = write!(s, "{x:1?}{x:#?}{x:<40?}{x:.2?}{x:#10?}");
                s.clear();
            }};
        }
        specs!(lv);
        dspecs!(lv);
        specs!(libhaystack::val::kind::HaystackKind::from(lv));
        match lv {
            Value::DateTime(x) => {
                specs!(x);
                dspecs!(x);
            }
            Value::Date(x) => {
                specs!(x);
                dspecs!(x);
            }
            Value::Time(x) => {
                specs!(x);
                dspecs!(x);
            }
            Value::Ref(x) => {
                specs!(x);
                dspecs!(x);
            }
            Value::Symbol(x) => {
                specs!(x);
                dspecs!(x);
            }
            Value::Number(x) => {
                if let Some(u) = x.unit {
                    specs!(u);
                }
                dspecs!(x);
            }
            _ => {}
        }
    })
    .map_err(|p| ("format-spec".to_string(), p))?;
    // the typed values' own Display / Debug
    guarded(|| {
        use std::fmt::Write;
        let mut s = String::new();
        match lv {
            Value::DateTime(x) => {
                let _ = write!(s, "{x}{x:?}");
                let _ = x.timezone_short_name();
                let _ = x.is_utc();
            }
            Value::Date(x) => {
                let _ = write!(s, "{x}{x:?}");
            }
            Value::Time(x) => {
                let _ = write!(s, "{x}{x:?}");
            }
            Value::Ref(x) => {
                let _ = write!(s, "{x}{x:?}");
            }
            Value::Symbol(x) => {
                let _ = write!(s, "{x}{x:?}");
            }
            Value::Number(x) => {
                if let Some(u) = x.unit {
                    let _ = write!(s, "{u}{u:?}");
                }
                let _ = write!(s, "{x:?}");
            }
            Value::Grid(x) => {
                let _ = write!(s, "{x:?}");
            }
            other => {
                let _ = write!(s, "{other:?}");
            }
        }
        let _ = write!(s, "{}", libhaystack::val::kind::HaystackKind::from(lv));
    })
    .map_err(|p| ("typed-display".to_string(), p))?;
    if let Value::Dict(d) = lv {
        guarded(|| {
            let _ = d.dis().to_string();
            let _ = dict_to_dis(d, &|k| if k == "key" { Some(Cow::Borrowed("t")) } else { None }, Some(Cow::Borrowed("def"))).to_string();
            use std::fmt::Write;
            let mut s = String::new();
            let _ = write!(s, "{d}");
        })
        .map_err(|p| ("dis".to_string(), p))?;
    }
    if let Value::Grid(g) = lv {
        guarded(|| {
            for r in &g.rows {
                let _ = r.dis().to_string();
            }
        })
        .map_err(|p| ("dis".to_string(), p))?;
    }
    Ok(())
}

fn check_v(v: &V) -> Verdict {
    let lv = match guarded(|| to_lib(v)) {
        Ok(lv) => lv,
        Err(_) => return Ok(()), // not constructible through the public API: outside the statement
    };
    encode_all(&lv).map_err(|(e, p)| (format!("panic:{e}"), p))
}

fn run_v(v: &V, local: &mut Local) {
    local.eval();
    local.nontrivial(&v.key());
    match check_v(v) {
        Ok(()) => local.outcome("ok"),
        Err(_) => {
            let min = shrink(v, false, &|c| check_v(c).is_err());
            let (stage, detail) = check_v(&min).err().unwrap();
            local.outcome(&stage);
            local.fail(&format!("{stage}:{}", shape_sig(&min)), json!({"value": to_json(&min)}), detail);
        }
    }
}

pub fn bad_strings() -> Vec<String> {
    let mut v: Vec<String> = ["", "a", "A", "é", "😀x", "ß", " ", "\u{0}", "1a", "\"", "\\", "\n", "$", "`", "ŉa", "ǆ", "a b", ">>", "\u{7f}", "\u{80}", "\u{fffd}", "İ", "_", "-", "a\u{0301}"]
        .iter()
        .map(|s| s.to_string())
        .collect();
    v.push("x".repeat(300));
    v.push("é".repeat(150));
    v
}

fn extreme_scalars() -> Vec<V> {
    let mut v = vec![];
    let ss = bad_strings();
    for s in &ss {
        v.push(V::Str(s.clone()));
        v.push(V::Uri(s.clone()));
        v.push(V::Sym(s.clone()));
        v.push(V::Ref(s.clone(), None));
        v.push(V::Ref("a".into(), Some(s.clone())));
        v.push(V::Ref(s.clone(), Some(s.clone())));
        v.push(V::XStr(s.clone(), "v".into()));
        v.push(V::XStr("T".into(), s.clone()));
        v.push(V::XStr(s.clone(), s.clone()));
    }
    for &un in u::UNITS {
        for x in [f64::NAN, f64::INFINITY, f64::NEG_INFINITY, -0.0, 5e-324, 1.7976931348623157e308] {
            v.push(V::numu(x, un));
        }
    }
    v.extend(u::numbers());
    for (y, m, d) in [(-262143, 1, 1), (262142, 12, 31), (-1, 1, 1), (10000, 1, 1), (0, 1, 1), (9999, 12, 31), (-9999, 6, 15), (99999, 2, 28)] {
        v.push(V::Date(y, m, d));
    }
    for (h, m, s, n) in [(23, 59, 59, 1_999_999_999u32), (23, 59, 59, 1_000_000_000), (0, 0, 0, 0), (12, 30, 30, 999_999_999), (0, 0, 59, 1_500_000_000)] {
        v.push(V::Time(h, m, s, n));
    }
    // timestamps: far past/future (year < 0, year > 9999), leap-second nanos cannot be built from an instant
    for z in ["UTC", "America/New_York", "Pacific/Kiritimati", "Asia/Kolkata", "Etc/GMT+12", "Africa/Monrovia", "Europe/Amsterdam"] {
        for secs in [-62_198_755_200i64 - 86400 * 400, -62_167_219_200, 253_402_300_799, 253_402_300_800, 8_210_266_876_799 - 2 * 86400, -8_334_601_228_800 + 2 * 86400, 0, -1, -2_208_988_800] {
            for nanos in [0u32, 1, 999_999_999] {
                let tz: chrono_tz::Tz = z.parse().unwrap();
                use chrono::{Offset, TimeZone};
                if let Some(d) = tz.timestamp_opt(secs, nanos).single() {
                    v.push(V::DateTime(DT { secs, nanos, offset: d.offset().fix().local_minus_utc(), tz_full: z.into(), tz: crate::model::v::city_of(z) }));
                }
            }
        }
    }
    for a in [f64::NAN, f64::INFINITY, -0.0, 91.0, -1e308, 5e-324] {
        for b in [f64::NAN, f64::NEG_INFINITY, 181.0, 0.0] {
            v.push(V::Coord(a, b));
        }
    }
    v
}

fn tagsets(vals: &[V]) -> Vec<Tags> {
    let ss = bad_strings();
    let mut out: Vec<Tags> = vec![vec![]];
    for s in &ss {
        out.push(vec![(s.clone(), V::Marker)]);
        out.push(vec![(s.clone(), V::str("x")), ("dis".into(), V::Str(s.clone()))]);
    }
    for v in vals {
        out.push(mk_tags(&[("a", v.clone())]));
        // the eight display tags with every kind of value
        for t in ["dis", "disMacro", "disKey", "name", "def", "tag", "navName", "id"] {
            out.push(mk_tags(&[(t, v.clone())]));
        }
    }
    out
}

fn weird_grids(vals: &[V]) -> Vec<V> {
    let ss = bad_strings();
    let mut out = vec![];
    let g = |ver: &str, meta: Option<Tags>, cols: Vec<Col>, rows: Vec<Tags>| V::Grid(Box::new(G { ver: ver.into(), meta, cols, rows }));
    let c = |n: &str| Col { name: n.into(), meta: None };
    // no columns, with and without rows; rows whose keys are not columns; duplicate / empty column names
    out.push(g("3.0", None, vec![], vec![]));
    out.push(g("3.0", None, vec![], vec![mk_tags(&[("a", V::num(1.0))])]));
    out.push(g("3.0", None, vec![c("a")], vec![mk_tags(&[("b", V::num(1.0))])]));
    out.push(g("3.0", None, vec![c("a"), c("a")], vec![mk_tags(&[("a", V::num(1.0))])]));
    out.push(g("3.0", None, vec![c("")], vec![mk_tags(&[("", V::num(1.0))])]));
    out.push(g("3.0", None, vec![c("a")], vec![vec![]]));
    out.push(g("3.0", Some(vec![]), vec![Col { name: "a".into(), meta: Some(vec![]) }], vec![vec![], vec![]]));
    for s in &ss {
        out.push(g(s, None, vec![c("a")], vec![]));
        out.push(g("3.0", None, vec![c(s)], vec![vec![(s.clone(), V::Marker)]]));
        out.push(g("3.0", Some(vec![(s.clone(), V::Str(s.clone()))]), vec![Col { name: s.clone(), meta: Some(vec![(s.clone(), V::Marker)]) }], vec![]));
    }
    for v in vals {
        out.push(g("3.0", Some(mk_tags(&[("m", v.clone())])), vec![Col { name: "a".into(), meta: Some(mk_tags(&[("m", v.clone())])) }, c("b")], vec![mk_tags(&[("a", v.clone())]), mk_tags(&[("b", v.clone()), ("zz", v.clone())])]));
    }
    out
}

/// nesting chains of depth d: kind pattern cycles through `pat` (l = list, d = dict, g = grid)
fn chain(depth: usize, pat: &[u8], leaf: &V) -> V {
    let mut cur = leaf.clone();
    for i in (0..depth).rev() {
        cur = match pat[i % pat.len()] {
            b'l' => V::List(vec![cur]),
            b'd' => V::dict(&[("a", cur)]),
            _ => V::Grid(Box::new(G { ver: "3.0".into(), meta: None, cols: vec![Col { name: "a".into(), meta: None }], rows: vec![mk_tags(&[("a", cur)])] })),
        };
    }
    cur
}

const ZINC_ALPHABET: &[u8] = b"\"\\`@^,\n\r{}:[]<>09-.aNTZ( \x80\xff";

fn decoder_image_zinc(len: usize, idx: usize, local: &mut Local) {
    let mut bytes = Vec::with_capacity(len);
    let mut i = idx;
    for _ in 0..len {
        bytes.push(ZINC_ALPHABET[i % ZINC_ALPHABET.len()]);
        i /= ZINC_ALPHABET.len();
    }
    let text = String::from_utf8_lossy(&bytes).to_string();
    local.eval();
    if let Ok(Ok(val)) = guarded(|| from_str(&text)) {
        local.count("zinc-accepted");
        if let Err((e, p)) = encode_all(&val) {
            let min = shrink(&from_lib(&val), false, &|c| check_v(c).is_err());
            local.fail(&format!("panic:{e}:{}", shape_sig(&min)), json!({"value": to_json(&min)}), format!("{p} (from Zinc text {text:?})"));
        }
    }
}

pub fn json_docs() -> Vec<String> {
    // Hayson-shaped documents with every kind tag and fields from a pool that includes wrong types
    let fields: Vec<&str> = vec!["\"\"", "\"a\"", "\"é\"", "\"😀x\"", "1", "-0.0", "1e400", "null", "true", "[]", "{}", "\"2021-01-01\"", "\"12:00:00\"", "\"2021-01-01T00:00:00Z\"", "\"2021-01-01T00:00:00+05:30\"", "\"New_York\"", "\"kW\"", "\"INF\"", "\"NaN\""];
    let kinds = ["marker", "remove", "na", "number", "ref", "symbol", "uri", "date", "time", "dateTime", "coord", "xstr", "grid", "dict", "bogus"];
    let mut out = vec![];
    for k in kinds {
        out.push(format!("{{\"_kind\":\"{k}\"}}"));
        for a in &fields {
            out.push(format!("{{\"_kind\":\"{k}\",\"val\":{a}}}"));
            for b in &fields {
                match k {
                    "number" => out.push(format!("{{\"_kind\":\"number\",\"val\":{a},\"unit\":{b}}}")),
                    "ref" => out.push(format!("{{\"_kind\":\"ref\",\"val\":{a},\"dis\":{b}}}")),
                    "dateTime" => out.push(format!("{{\"_kind\":\"dateTime\",\"val\":{a},\"tz\":{b}}}")),
                    "coord" => out.push(format!("{{\"_kind\":\"coord\",\"lat\":{a},\"lng\":{b}}}")),
                    "xstr" => out.push(format!("{{\"_kind\":\"xstr\",\"type\":{a},\"val\":{b}}}")),
                    "grid" => {
                        out.push(format!("{{\"_kind\":\"grid\",\"meta\":{{\"ver\":{a}}},\"cols\":[{{\"name\":{b}}}],\"rows\":[{{\"x\":{a}}}]}}"));
                        out.push(format!("{{\"_kind\":\"grid\",\"cols\":[{{\"name\":{a},\"meta\":{b}}}],\"rows\":[]}}"));
                        out.push(format!("{{\"_kind\":\"grid\",\"meta\":{a},\"cols\":{b},\"rows\":{a}}}"));
                    }
                    "dict" => out.push(format!("{{\"_kind\":\"dict\",\"dis\":{a},\"\":{b}}}")),
                    _ => {}
                }
            }
        }
    }
    // grid parts of the wrong JSON type
    for a in &fields {
        out.push(format!("{{\"_kind\":\"grid\",\"cols\":[{a}],\"rows\":[]}}"));
        out.push(format!("{{\"_kind\":\"grid\",\"cols\":[{{\"name\":\"a\"}}],\"rows\":[{a}]}}"));
        out.push(format!("{{\"_kind\":\"grid\",\"cols\":[{{\"name\":\"a\"}},{a}],\"rows\":[{{\"a\":1}},{a}]}}"));
        out.push(format!("{{\"_kind\":\"grid\",\"meta\":{a},\"cols\":[{{\"name\":\"a\",\"meta\":{a}}}],\"rows\":[{{\"a\":{a}}}]}}"));
        out.push(format!("{{\"_kind\":{a}}}"));
        out.push(format!("{{\"_kind\":{a},\"val\":{a}}}"));
    }
    for a in &fields {
        out.push(a.to_string());
        out.push(format!("[{a}]"));
        out.push(format!("{{\"disMacro\":{a},\"id\":{{\"_kind\":\"ref\",\"val\":{a}}}}}"));
    }
    out
}


// ------------------------------------------------------------------------------ units outside the database

/// Numbers whose unit is not a database entry: the library's own DEFAULT_UNIT (what
/// `get_unit_or_default` returns for an unknown name) and units a caller builds from the public
/// fields of `Unit` (no ids, empty / blank / non-ASCII / quote-carrying ids, no dimensions,
/// zero / NaN scale) — bare and inside a list, a dict and a grid.
fn exotic_unit_values() -> Vec<Value> {
    use libhaystack::units::{get_unit_or_default, Unit};
    use libhaystack::val::{Dict, Grid, Number};
    let mut units: Vec<&'static Unit> = vec![get_unit_or_default("no-such-unit"), get_unit_or_default("")];
    for ids in [vec![], vec![""], vec![" "], vec!["é"], vec!["a b", "\""], vec!["x", ""], vec!["kW", "kW"], vec!["\n"], vec!["_"]] {
        for (scale, dims) in [(1.0, false), (0.0, true), (f64::NAN, false)] {
            let u = Unit { quantity: if dims { Some("q".into()) } else { None }, ids: ids.iter().map(|s| s.to_string()).collect(), dimensions: if dims { Some(Default::default()) } else { None }, scale, offset: 0.0 };
            units.push(Box::leak(Box::new(u)));
        }
    }
    let mut out = vec![];
    for u in units {
        for x in [42.0, -0.0, f64::NAN, f64::INFINITY, 1e21] {
            let n = Value::Number(Number { value: x, unit: Some(u) });
            out.push(n.clone());
            out.push(Value::make_list(vec![n.clone(), Value::make_str("s")]));
            let mut d = Dict::new();
            d.insert("dis".into(), n.clone());
            d.insert("curVal".into(), n.clone());
            out.push(Value::make_dict(d.clone()));
            out.push(Value::make_grid(Grid::make_from_dicts(vec![d])));
        }
    }
    out
}

// ------------------------------------------------------------------------------ writer faults

/// a writer driven by a script: per call it accepts everything, at most `limit` bytes, fails with
/// an I/O error, reports Interrupted, or accepts nothing (Ok(0))
struct ScriptWriter {
    out: Vec<u8>,
    calls: usize,
    limit: usize,
    fail_at: Option<usize>,
    zero_at: Option<usize>,
    interrupt_every: usize,
    interrupted_last: bool,
}
impl std::io::Write for ScriptWriter {
    fn write(&mut self, buf: &[u8]) -> std::io::Result<usize> {
        self.calls += 1;
        if self.calls > 5_000_000 {
            panic!("writer called more than 5 000 000 times: the encoder does not make progress");
        }
        if self.fail_at == Some(self.calls) {
            return Err(std::io::Error::new(std::io::ErrorKind::Other, "disk full"));
        }
        if let Some(z) = self.zero_at {
            if self.calls >= z {
                return Ok(0);
            }
        }
        if self.interrupt_every > 0 && self.calls % self.interrupt_every == 0 && !self.interrupted_last {
            self.interrupted_last = true;
            return Err(std::io::Error::new(std::io::ErrorKind::Interrupted, "EINTR"));
        }
        self.interrupted_last = false;
        let n = buf.len().min(self.limit);
        self.out.extend_from_slice(&buf[..n]);
        Ok(n)
    }
    fn flush(&mut self) -> std::io::Result<()> {
        Ok(())
    }
}

/// Encoding into a caller's writer: a writer that takes few bytes per call or reports Interrupted
/// still receives the whole text; a writer that fails or accepts nothing makes the encoder return
/// an error (no panic, no endless loop) having written a prefix of the text.
fn writer_case(v: &V) -> Verdict {
    use libhaystack::encoding::zinc::encode::ToZinc;
    let lv = to_lib(v);
    for fmt in ["zinc", "hayson"] {
        let run = |w: &mut ScriptWriter| -> Result<Result<(), String>, String> {
            guarded(|| if fmt == "zinc" { lv.to_zinc(w).map_err(|e| e.to_string()) } else { serde_json::to_writer(&mut *w, &lv).map_err(|e| e.to_string()) })
        };
        let mk = |limit: usize, fail_at: Option<usize>, zero_at: Option<usize>, interrupt_every: usize| ScriptWriter { out: vec![], calls: 0, limit, fail_at, zero_at, interrupt_every, interrupted_last: false };
        let mut plain = mk(usize::MAX, None, None, 0);
        let text = match run(&mut plain).map_err(|p| (format!("writer-panic:{fmt}"), p))? {
            Ok(()) => plain.out.clone(),
            Err(_) => continue, // this value has no text in this format (an error is allowed)
        };
        let ncalls = plain.calls;
        for (limit, every) in [(1usize, 0usize), (2, 0), (3, 0), (7, 0), (usize::MAX, 2), (1, 3), (5, 2)] {
            let mut w = mk(limit, None, None, every);
            match run(&mut w).map_err(|p| (format!("writer-panic:{fmt}"), format!("{p} (writer takes {limit} bytes per call, Interrupted every {every})")))? {
                Ok(()) if w.out == text => {}
                Ok(()) => return Err((format!("writer-short-write-loses-text:{fmt}"), format!("a writer taking {limit} bytes per call (Interrupted every {every}) received {:?}, the text is {:?}", String::from_utf8_lossy(&w.out), String::from_utf8_lossy(&text)))),
                Err(e) => return Err((format!("writer-short-write-refused:{fmt}"), format!("a writer taking {limit} bytes per call (Interrupted every {every}): {e}"))),
            }
        }
        for k in 1..=ncalls.min(40) {
            for zero in [false, true] {
                let mut w = if zero { mk(usize::MAX, None, Some(k), 0) } else { mk(usize::MAX, Some(k), None, 0) };
                match run(&mut w).map_err(|p| (format!("writer-panic:{fmt}"), format!("{p} (writer {} at call {k})", if zero { "accepts nothing" } else { "fails" })))? {
                    Err(_) => {
                        if !text.starts_with(&w.out) {
                            return Err((format!("writer-failure-garbage:{fmt}"), format!("after the failure at call {k} the writer holds {:?}, not a prefix of {:?}", String::from_utf8_lossy(&w.out), String::from_utf8_lossy(&text))));
                        }
                    }
                    Ok(()) => return Err((format!("writer-failure-swallowed:{fmt}"), format!("the writer {} at call {k} of {ncalls}, the encoder reports success", if zero { "accepted nothing" } else { "failed" }))),
                }
            }
        }
    }
    Ok(())
}

pub fn run(tier: Tier) -> i32 {
    let mut run = Run::new("C10", tier, "exploration");
    run.rule = "U_all: every String field over 27 strings (empty, non-ASCII first, multi-char uppercase, controls, 300 chars) in every position; NaN/INF with units; numbers whose unit is not a database entry (the library's DEFAULT_UNIT, caller-built units with no / empty / blank / non-ASCII ids, no dimensions, zero or NaN scale); date/time/timestamp extremes; ill-shaped grids; every display tag with every kind; nesting chains of every depth 1..64; plus the image of the Zinc decoder on every string <= 4/5 over the 27-byte token alphabet and of the Hayson decoder on ~10^4 kind-tagged documents; each through to_zinc_string, typed ToZinc, serde_json to_string/to_vec/to_value, Display, Debug, Display and Debug under ~125 format specifications (width 0-300, fill, the three alignments, precision 0-40, sign, alternate, zero padding; Value, Date, Time, DateTime, Ref, Symbol, Unit, HaystackKind), Dict::dis, dict_to_dis; plus encoding into a caller's writer (ToZinc::to_zinc, serde_json::to_writer) under writer scripts — 1 / 2 / 3 / 7 bytes per call, Interrupted every 2nd / 3rd call, failure or 'accepts nothing' at each of the first 40 calls — for a kind-complete pool: short writes and Interrupted lose nothing, a failure is reported as an error with a prefix of the text written, no panic, no endless loop; non-trivial = distinct value".into();
    run.assume("timestamps stay two days inside chrono's representable range: at the very limits chrono itself panics computing the local time (trusted-base limitation, not libhaystack code)");
    run.assume("Display is driven through write! (an Err from Display is 'an error', which the statement allows; `to_string()` would turn it into a panic of the caller)");
    crate::engine::quiet_panics();
    {
        let pool: Vec<V> = super::c01::probe_pool();
        if super::common::probe_first(&mut run, "zinc-codec", &pool, &super::c01::zinc_observation, &|v: &V| crate::model::v::to_json(v)) {
            return run.finish(&replay);
        }
    }
    let stack = 256 << 20;

    let mut vals = extreme_scalars();
    let base: Vec<V> = vals.clone();
    let pool: Vec<V> = {
        let mut p = u::pool_scalars();
        p.extend(u::pool_containers1());
        p
    };
    for t in tagsets(&pool) {
        vals.push(V::Dict(t));
    }
    vals.extend(weird_grids(&pool));
    for v in base.iter().step_by(tier.pick(5, 1)) {
        vals.push(V::List(vec![v.clone()]));
        vals.push(V::dict(&[("dis", v.clone())]));
        vals.push(V::Grid(Box::new(G { ver: "3.0".into(), meta: Some(mk_tags(&[("m", v.clone())])), cols: vec![Col { name: "a".into(), meta: None }], rows: vec![mk_tags(&[("a", v.clone())])] })));
    }
    // nesting chains
    let pats: [&[u8]; 7] = [b"l", b"d", b"g", b"ld", b"lg", b"dg", b"ldg"];
    for d in 1..=64usize {
        for p in pats {
            vals.push(chain(d, p, &V::str("x\"")));
        }
    }
    for d in [1usize, 2, 3, 8, 64] {
        for p in pats {
            vals.push(chain(d, p, &V::List(vec![])));
            vals.push(chain(d, p, &V::XStr("".into(), "".into())));
        }
    }
    run.note("constructed_values", json!(vals.len()));
    let l = par_for_stack(vals.len(), stack, |i, local| run_v(&vals[i], local));
    run.absorb(l);

    // the well-formed universe too (quick sizes)
    let scal = u::scalars(Tier::Quick);
    let l = par_for_stack(scal.len(), stack, |i, local| run_v(&scal[i], local));
    run.absorb(l);
    let shards = u::container_shards(Tier::Quick);
    let l = par_for_stack(shards.len(), stack, |i, local| shards[i](&mut |v| run_v(&v, local)));
    run.absorb(l);

    // image of the decoders
    let maxlen = tier.pick(4usize, 5);
    let n = ZINC_ALPHABET.len();
    let mut jobs = vec![];
    for len in 1..=maxlen {
        let total = n.pow(len as u32);
        let mut s = 0;
        while s < total {
            jobs.push((len, s, (s + 65536).min(total)));
            s += 65536;
        }
    }
    let l = par_for_stack(jobs.len(), stack, |j, local| {
        let (len, s, e) = jobs[j];
        for idx in s..e {
            decoder_image_zinc(len, idx, local);
        }
    });
    run.absorb(l);
    // size witnesses (strings, widths and nesting around 2^6 … 2^16)
    let sw = u::size_witnesses(tier);
    let l = par_for_stack(sw.len(), stack, |i, local| {
        local.eval();
        local.count("size-witnesses");
        if let Err((e, p)) = check_v(&sw[i]) {
            local.fail(&format!("{e}:{}", shape_sig(&sw[i])), json!({"value": to_json(&sw[i])}), p);
        }
    });
    run.absorb(l);
    // numbers whose unit is not a database entry
    {
        let ev = exotic_unit_values();
        let l = par_for_stack(ev.len(), stack, |i, local| {
            local.eval();
            local.count("exotic-unit-values");
            if let Err((e, p)) = encode_all(&ev[i]) {
                local.fail(&format!("panic:{e}:number-with-a-unit-outside-the-database"), json!({"exotic_unit": i}), format!("{p} (value {:?})", format!("{:?}", ev[i]).chars().take(300).collect::<String>()));
            }
        });
        run.absorb(l);
    }
    // writer faults: encoding into a caller's writer (short writes, Interrupted, failure or
    // "accepts nothing" at every one of the first 40 calls)
    {
        let mut wv: Vec<V> = pool.clone();
        wv.extend(u::pool_containers2().into_iter().step_by(tier.pick(7, 1)));
        wv.extend([u::small_grid(), u::meta_grid(), V::str(&"é😀\"\n".repeat(50)), V::List((0..40).map(|i| V::num(i as f64)).collect())]);
        wv.extend(base.iter().step_by(tier.pick(9, 1)).cloned());
        let l = par_for_stack(wv.len(), stack, |i, local| {
            local.eval();
            local.count("writer-cases");
            if let Err((e, p)) = writer_case(&wv[i]) {
                let min = shrink(&wv[i], false, &|c| writer_case(c).is_err());
                let (e2, p2) = writer_case(&min).err().unwrap_or((e, p));
                local.fail(&format!("{e2}:{}", shape_sig(&min)), json!({"value": to_json(&min), "writer": true}), p2);
            }
        });
        run.absorb(l);
        run.require(run.counter("writer-cases") > 50, "writer-fault cases missing");
    }
    let docs = json_docs();
    let l = par_for_stack(docs.len(), stack, |i, local| {
        local.eval();
        if let Ok(Ok(val)) = guarded(|| serde_json::from_str::<Value>(&docs[i])) {
            local.count("hayson-accepted");
            local.nontrivial(&docs[i]);
            if let Err((e, p)) = encode_all(&val) {
                let min = shrink(&from_lib(&val), false, &|c| check_v(c).is_err());
                local.fail(&format!("panic:{e}:{}", shape_sig(&min)), json!({"value": to_json(&min)}), format!("{p} (from Hayson {})", docs[i]));
            }
        }
    });
    run.absorb(l);
    run.require(run.counter("zinc-accepted") > 1000 && run.counter("hayson-accepted") > 500, "decoder image too small");
    run.stats.samples = vec![to_json(&V::XStr("".into(), "é".into())), to_json(&V::numu(f64::NAN, "kW")), to_json(&chain(3, b"ldg", &V::str("x")))];
    run.finish(&replay)
}

pub fn replay(case: &J) -> Verdict {
    if case["free_running"] == "zinc-codec" {
        let pool: Vec<V> = super::c01::probe_pool();
        return super::common::replay_probe(&pool, &super::c01::zinc_observation, &|v: &V| crate::model::v::to_json(v));
    }
    if let Some(i) = case["exotic_unit"].as_u64() {
        let ev = exotic_unit_values();
        return match ev.get(i as usize).map(encode_all) {
            Some(Err((e, p))) => Err((format!("panic:{e}:number-with-a-unit-outside-the-database"), p)),
            _ => Ok(()),
        };
    }
    let v = from_json(&case["value"]);
    if case["writer"] == true {
        return writer_case(&v).map_err(|(s, d)| (format!("{s}:{}", shape_sig(&v)), d));
    }
    check_v(&v).map_err(|(s, d)| (format!("{s}:{}", shape_sig(&v)), d))
}
