//! C01 — Zinc encode -> decode returns the original value (DESIGN §5 C01).

use super::common::*;
use crate::engine::{guarded, par_for, Run, Tier};
use crate::model::universe as u;
use crate::model::v::{from_lib, mk_tags, same, to_json, to_lib, Col, G, V};
use libhaystack::encoding::zinc::decode::from_str;
use libhaystack::encoding::zinc::encode::{to_zinc_string, ToZinc};
use libhaystack::val::Value;
use serde_json::{json, Value as J};

/// typed `ToZinc` of the payload must give the same text as the `Value`
fn typed_text(v: &Value) -> Option<Result<String, String>> {
    let r = match v {
        Value::Number(x) => x.to_zinc_string(),
        Value::Str(x) => x.to_zinc_string(),
        Value::Uri(x) => x.to_zinc_string(),
        Value::Ref(x) => x.to_zinc_string(),
        Value::Symbol(x) => x.to_zinc_string(),
        Value::Date(x) => x.to_zinc_string(),
        Value::Time(x) => x.to_zinc_string(),
        Value::DateTime(x) => x.to_zinc_string(),
        Value::Coord(x) => x.to_zinc_string(),
        Value::XStr(x) => x.to_zinc_string(),
        Value::List(x) => x.to_zinc_string(),
        Value::Dict(x) => x.to_zinc_string(),
        Value::Grid(x) => x.to_zinc_string(),
        Value::Bool(x) => x.to_zinc_string(),
        _ => return None,
    };
    Some(r.map_err(|e| e.to_string()))
}

/// the pool of the history-independence checks: one value per kind and shape class, containers
pub fn history_pool() -> Vec<V> {
    let mut p = super::c03::base_values(Tier::Quick);
    p.truncate(400);
    p
}

/// everything observable of encoding and decoding one value through Zinc
/// pool of the free-running probe: every third value of the history pool, timestamps in many
/// zones, numbers in many units
pub fn probe_pool() -> Vec<V> {
    let mut p: Vec<V> = history_pool().into_iter().step_by(3).collect();
    p.extend(u::datetimes().into_iter().step_by(37).take(120));
    p.extend(u::UNITS.iter().map(|un| V::numu(1.5, un)));
    p
}

pub fn zinc_observation(v: &V) -> String {
    let lv = to_lib(v);
    let t = to_zinc_string(&lv).map_err(|e| e.to_string());
    let typed = typed_text(&lv);
    let back = t.as_ref().ok().map(|t| from_str(t).map(|b| format!("{:?}", from_lib(&b))).map_err(|e| e.to_string()));
    let failing: Vec<String> = [1usize, 2, 5]
        .iter()
        .map(|&k| {
            let mut w = FailAt { calls: 0, k, out: vec![] };
            format!("{:?}", lv.to_zinc(&mut w).map_err(|e| e.to_string()))
        })
        .collect();
    // a text that fails to decode part-way (the value's own text cut in the middle)
    let cut = t.as_ref().ok().map(|t| {
        let mut k = t.len() / 2;
        while !t.is_char_boundary(k) {
            k -= 1;
        }
        from_str(&t[..k]).map(|b| format!("{:?}", from_lib(&b))).map_err(|e| e.to_string())
    });
    format!("{t:?}|{typed:?}|{back:?}|{failing:?}|{cut:?}")
}

pub fn zinc_roundtrip(v: &V) -> Verdict {
    let lv = to_lib(v);
    let text = zinc_text_all_writers(&lv)?;
    match guarded(|| typed_text(&lv)) {
        Err(p) => return Err(("typed-encode-panic".into(), p)),
        Ok(Some(Err(e))) => return Err(("typed-encode-error".into(), e)),
        Ok(Some(Ok(t))) if t != text => {
            return Err(("typed-encode-differs".into(), format!("typed ToZinc gives {t:?}, Value gives {text:?}")))
        }
        _ => {}
    }
    // a clone (made after the original was encoded once, and encoded after the original is gone)
    // has the same text
    {
        let c = lv.clone();
        drop(lv);
        match guarded(|| to_zinc_string(&c)) {
            Ok(Ok(t2)) if t2 == text => {}
            other => return Err(("clone-encodes-differently".into(), format!("original {text:?}, clone {other:?}"))),
        }
    }
    let back = match guarded(|| from_str(&text)) {
        Err(p) => return Err(("decode-panic".into(), format!("{p}; text={text:?}"))),
        Ok(Err(e)) => return Err(("decode-error".into(), format!("{e}; text={text:?}"))),
        Ok(Ok(b)) => b,
    };
    same(v, &from_lib(&back)).map_err(|d| ("mismatch".to_string(), format!("{d}; text={text:?}")))
}

/// a Str in each of the string positions of the data model
fn string_positions(s: &str) -> Vec<V> {
    let sv = V::Str(s.to_string());
    let mut out = vec![
        sv.clone(),
        V::Ref("a".into(), Some(s.to_string())),
        V::XStr("Bin".into(), s.to_string()),
        V::dict(&[("k", sv.clone())]),
        V::List(vec![sv.clone(), sv.clone()]),
        V::Grid(Box::new(G {
            ver: "3.0".into(),
            meta: Some(mk_tags(&[("dis", sv.clone())])),
            cols: vec![
                Col { name: "a".into(), meta: Some(mk_tags(&[("dis", sv.clone())])) },
                Col { name: "b".into(), meta: None },
            ],
            rows: vec![mk_tags(&[("a", sv.clone()), ("b", sv.clone())])],
        })),
    ];
    if u::uri_ok(s) {
        out.push(V::Uri(s.to_string()));
    }
    out
}

fn all_units() -> Vec<String> {
    let mut v: Vec<String> = libhaystack::units::units_generated::UNITS.values().map(|u| u.symbol().to_string()).collect();
    v.sort();
    v.dedup();
    v
}

pub fn run(tier: Tier) -> i32 {
    let mut run = Run::new("C01", tier, "exploration");
    run.rule = "every well-formed value of the scalar alphabet Σ and of the container universe U (DESIGN §5), each encoded with to_zinc_string (and the typed ToZinc), decoded with decode::from_str and compared component-wise; non-trivial = contains a container, a unit, a zone or a character outside [A-Za-z0-9 ]; distinct by canonical Debug rendering of the model value".into();
    run.assume("component-wise `same` (numbers numerically equal or both NaN) is the intended equality of the statement");
    run.assume("chrono/chrono-tz trusted for calendar arithmetic and zone offsets");
    run.assume("zone name of a timestamp = text after the first '/' of the IANA name (libhaystack's convention)");
    crate::engine::quiet_panics();
    {
        let pool: Vec<V> = probe_pool();
        if probe_first(&mut run, "zinc-codec", &pool, &zinc_observation, &|v: &V| to_json(v)) {
            return run.finish(&replay);
        }
    }
    crate::engine::quiet_panics();

    let scalars = u::scalars(tier);
    run.note("scalar_universe", json!(scalars.len()));
    let l = par_for(scalars.len(), |i, local| {
        check_value(&scalars[i], local, true, &zinc_roundtrip);
        // every scalar also as a list element, a dict value and a grid cell
        let v = &scalars[i];
        if i % tier.pick(7, 1) == 0 {
            check_value(&V::List(vec![v.clone()]), local, true, &zinc_roundtrip);
            check_value(&V::dict(&[("k", v.clone())]), local, true, &zinc_roundtrip);
            check_value(
                &V::Grid(Box::new(G {
                    ver: "3.0".into(),
                    meta: None,
                    cols: vec![Col { name: "a".into(), meta: None }, Col { name: "b".into(), meta: None }],
                    rows: vec![mk_tags(&[("a", v.clone()), ("b", v.clone())])],
                })),
                local,
                true,
                &zinc_roundtrip,
            );
        }
    });
    run.absorb(l);

    // size witnesses: strings, containers and nesting at and around 2^6 … 2^16
    let sw = u::size_witnesses(tier);
    run.note("size_witnesses", json!(sw.len()));
    let l = crate::engine::par_for_stack(sw.len(), 64 << 20, |i, local| {
        check_value(&sw[i], local, true, &zinc_roundtrip);
        local.count("size-witnesses");
    });
    run.absorb(l);

    // history independence: encode + decode of v after encode + decode of w, all ordered pairs of
    // the shape-class representatives (one value per kind and shape class + containers)
    let pool = history_pool();
    run.note("history_pool", json!(pool.len()));
    let l = super::common::history_pairs("zinc-codec", &pool, &zinc_observation, &|v: &V| to_json(v));
    run.absorb(l);
    // accumulation: 300 repetitions (incl. encodes into a failing writer and a decode that fails
    // part-way) on each container, then the pool and deep values
    {
        let before: Vec<V> = {
            let mut b = u::pool_containers1();
            b.extend(u::pool_containers2().into_iter().step_by(5));
            b.extend([u::small_grid(), u::meta_grid()]);
            b.truncate(32);
            b
        };
        let mut then: Vec<V> = pool.iter().step_by(9).cloned().collect();
        then.extend(u::size_witnesses_cached(Tier::Quick).iter().filter(|v| (100..=127).contains(&u::json_depth(v))).take(4).cloned());
        let l = super::common::history_after_repeats("zinc-codec", &before, &then, 300, &zinc_observation, &|v: &V| to_json(v));
        run.absorb(l);
    }

    // two values in one document: [w, v, {a:w b:v}] for all ordered pairs of the pool (state inside
    // one decode or encode call: a "last unit / last zone / last string" memo)
    {
        let pool = history_pool();
        let l = par_for(pool.len(), |i, local| {
            for v in pool.iter() {
                let doc = V::List(vec![pool[i].clone(), v.clone(), V::dict(&[("a", pool[i].clone()), ("b", v.clone())])]);
                local.eval();
                if let Err((stage, d)) = zinc_roundtrip(&doc) {
                    // minimise to the pair
                    let pair = V::List(vec![pool[i].clone(), v.clone()]);
                    let (stage, d, shown) = match zinc_roundtrip(&pair) {
                        Err((s2, d2)) => (s2, d2, pair),
                        Ok(()) => (stage, d, doc),
                    };
                    local.fail(&format!("{stage}:two-values-in-one-document:{}", crate::model::shrink::shape_sig(&shown)), json!({"value": to_json(&shown), "pair_document": true}), d);
                }
            }
            local.count("pair-documents");
        });
        run.absorb(l);
    }

    let shards = u::container_shards(tier);
    let mut ncont = 0u64;
    let l = par_for(shards.len(), |i, local| {
        shards[i](&mut |v| {
            check_value(&v, local, true, &zinc_roundtrip);
            local.count("containers");
        });
    });
    ncont += l.counters.get("containers").copied().unwrap_or(0);
    run.absorb(l);
    run.note("container_universe", json!(ncont));

    // databases named by the statement: every unit, every in-model zone
    let units = all_units();
    let l = par_for(units.len(), |i, local| {
        for x in [1.0, -2.5e-3, 1e21] {
            let v = V::numu(x, &units[i]);
            check_value(&v, local, true, &zinc_roundtrip);
            check_value(&V::List(vec![v.clone(), v]), local, true, &zinc_roundtrip);
        }
        local.count("units");
    });
    run.absorb(l);
    let zones = crate::model::time_ref::in_model_zones();
    let l = par_for(zones.len(), |i, local| {
        for t in [1_610_000_000i64, 1_625_097_600] {
            let v = V::dt(t, 0, &zones[i]);
            check_value(&v, local, true, &zinc_roundtrip);
            check_value(&V::dict(&[("t", v)]), local, true, &zinc_roundtrip);
        }
        local.count("zones");
    });
    run.absorb(l);

    if tier == Tier::Thorough {
        // all Unicode scalar values, one-character string in each string position
        let l = par_for(0x110000 / 256, |blk, local| {
            for cp in (blk * 256)..(blk * 256 + 256) {
                if let Some(c) = char::from_u32(cp as u32) {
                    for v in string_positions(&c.to_string()) {
                        check_value(&v, local, true, &zinc_roundtrip);
                    }
                    local.count("unicode_scalars");
                }
            }
        });
        run.absorb(l);
        // f64 lattices: m·10^e and 2^e·(1, 1±ulp)
        let l = par_for(61, |ei, local| {
            let e = ei as i32 - 30;
            for m in -999i32..=999 {
                let x: f64 = format!("{m}e{e}").parse().unwrap();
                check_value(&V::num(x), local, true, &zinc_roundtrip);
                if m % 37 == 0 {
                    check_value(&V::numu(x, "kW"), local, true, &zinc_roundtrip);
                }
            }
        });
        run.absorb(l);
        let l = par_for(2098, |i, local| {
            let e = i as i32 - 1074;
            let x = 2f64.powi(e);
            for y in [x, f64::from_bits(x.to_bits() + 1), f64::from_bits(x.to_bits().saturating_sub(1)), -x] {
                if y.is_finite() {
                    check_value(&V::num(y), local, true, &zinc_roundtrip);
                    check_value(&V::Coord(y.clamp(-90.0, 90.0), y.clamp(-180.0, 180.0)), local, true, &zinc_roundtrip);
                }
            }
        });
        run.absorb(l);
    }

    // vacuity guards
    run.require(run.stats.evals > 50_000, "fewer than 50 000 evaluations");
    run.require(run.counter("units") >= 400, "fewer than 400 database units swept");
    run.require(run.counter("zones") >= 300, "fewer than 300 in-model zones swept");
    let samples = [V::str("a\"\\$\n"), V::numu(-2.5e-3, "kWh/m²"), u::meta_grid()];
    for s in &samples {
        run.stats.samples.insert(0, to_json(s));
    }
    run.stats.samples.truncate(5);
    run.finish(&replay)
}

pub fn replay(case: &J) -> Verdict {
    if case["free_running"] == "zinc-codec" {
        let pool: Vec<V> = probe_pool();
        return replay_probe(&pool, &zinc_observation, &|v: &V| to_json(v));
    }
    if case["history_repeats"].is_string() {
        return super::common::replay_history_repeats(case, &|j| crate::model::v::from_json(j), &zinc_observation, "zinc-codec");
    }
    if case["pair_document"] == true {
        let v = crate::model::v::from_json(&case["value"]);
        return zinc_roundtrip(&v).map_err(|(stage, d)| (format!("{stage}:two-values-in-one-document:{}", crate::model::shrink::shape_sig(&v)), d));
    }
    if case["history_pair"].is_string() {
        return super::common::replay_history_pair(case, &|j| crate::model::v::from_json(j), &zinc_observation, "zinc-codec");
    }
    replay_value(case, &zinc_roundtrip)
}
