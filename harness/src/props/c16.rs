//! C16 — unit conversion and Number arithmetic are dimensionally sound. Exhaustive over all
//! ordered pairs of database units.

use super::common::Verdict;
use crate::engine::{guarded, par_for, Local, Run, Tier};
use crate::model::units_ref::{db, RefUnit};
use libhaystack::units::{get_unit, Unit};
use libhaystack::val::Number;
use serde_json::{json, Value as J};

const MAGS: &[f64] = &[0.0, 1.0, -1.0, 0.5, 100.0, -273.15, 1e-7, 123456789.125, 1e21, 3.141592653589793, 0.3333333333333333, 0.30000000000000004, -123456789.12345679, 2.718281828459045e-7, 1.2345678901234567e15, 1.2345678901234567e-200, 9.87654321098765e200];
const EPS: f64 = f64::EPSILON;

fn is_byte(r: &RefUnit) -> bool {
    r.quantity == "bytes" || ["byte", "kilobyte", "megabyte", "gigabyte", "terabyte", "petabyte"].contains(&r.name())
}

fn lib(r: &RefUnit) -> &'static Unit {
    get_unit(r.name()).unwrap_or_else(|| crate::engine::machinery(&format!("unit {} not in library (see C15)", r.name())))
}

fn add_dims(a: [i8; 7], b: [i8; 7], sign: i32) -> Option<[i8; 7]> {
    let mut o = [0i8; 7];
    for i in 0..7 {
        let v = a[i] as i32 + sign * b[i] as i32;
        if !(-128..=127).contains(&v) {
            return None;
        }
        o[i] = v as i8;
    }
    Some(o)
}

fn ref_of(u: &Unit) -> Option<&'static RefUnit> {
    let d = db();
    d.by_id.get(u.name()).map(|&i| &d.units[i])
}

fn check_pair(ia: usize, ib: usize) -> Verdict {
    let d = db();
    let (ra, rb) = (&d.units[ia], &d.units[ib]);
    let (a, b) = (lib(ra), lib(rb));
    let same_dim = ra.dims == rb.dims || (is_byte(ra) && is_byte(rb));
    for &x in MAGS {
        match a.convert_to(x, b) {
            Ok(y) => {
                if !same_dim {
                    return Err(("convert-ok-across-dimensions".into(), format!("{} -> {} accepted ({x} -> {y})", ra.name(), rb.name())));
                }
                // physical conversion with a forward error bound from the operation count
                let want = ((x * ra.scale + ra.offset) - rb.offset) / rb.scale;
                let bound = 8.0 * EPS * ((x * ra.scale).abs() + ra.offset.abs() + rb.offset.abs()) / rb.scale.abs() + f64::MIN_POSITIVE;
                if !((y - want).abs() <= bound) && !(y.is_infinite() && want.is_infinite()) {
                    return Err(("convert-value".into(), format!("{x} {} -> {} = {y}, physical conversion gives {want}", ra.name(), rb.name())));
                }
                // and back
                match b.convert_to(y, a) {
                    Ok(z) => {
                        if y.is_finite() {
                            let bound_back = 32.0 * EPS * ((x * ra.scale).abs() + 2.0 * ra.offset.abs() + 2.0 * rb.offset.abs()) / ra.scale.abs() + f64::MIN_POSITIVE;
                            if !((z - x).abs() <= bound_back) {
                                return Err(("convert-back".into(), format!("{x} {} -> {y} {} -> {z}", ra.name(), rb.name())));
                            }
                        }
                    }
                    Err(e) => return Err(("convert-back-refused".into(), format!("{} -> {} ok but back: {e}", ra.name(), rb.name()))),
                }
            }
            Err(e) => {
                if same_dim {
                    return Err(("convert-refused-same-dimension".into(), format!("{} -> {}: {e}", ra.name(), rb.name())));
                }
            }
        }
    }
    // unit product / quotient
    for (op, sign) in [("mul", 1), ("div", -1)] {
        let res = if sign == 1 { a * b } else { a / b };
        if let Ok(u) = res {
            let ru = match ref_of(u) {
                Some(r) if std::ptr::eq(lib(r), u) => r,
                _ => return Err((format!("unit-{op}-not-a-database-unit"), format!("{} {op} {} = {:?}", ra.name(), rb.name(), u.ids))),
            };
            let (da, dbb) = match (ra.dims, rb.dims) {
                (Some(x), Some(y)) => (x, y),
                _ => return Err((format!("unit-{op}-of-dimensionless"), format!("{} {op} {} = {}", ra.name(), rb.name(), ru.name()))),
            };
            let want = add_dims(da, dbb, sign);
            if ru.dims != want {
                return Err((format!("unit-{op}-dimension"), format!("{} {op} {} = {} with dims {:?}, expected {:?}", ra.name(), rb.name(), ru.name(), ru.dims, want)));
            }
            let ws = if sign == 1 { ra.scale * rb.scale } else { ra.scale / rb.scale };
            let tol = (ws.abs().min(ru.scale.abs())) / 1e3 * (1.0 + 1e-9);
            if !((ru.scale - ws).abs() <= tol) {
                return Err((format!("unit-{op}-scale"), format!("{} {op} {} = {} with scale {}, expected {ws}", ra.name(), rb.name(), ru.name(), ru.scale)));
            }
        }
    }
    // magnitudes at the ends of the double range (a result may overflow to ±INF or underflow to 0:
    // that is the IEEE answer of the formula, not a reason to refuse): same dimension <=> Ok; a finite
    // formula result is matched to 1e-9 relative
    for x in [f64::MAX, -f64::MAX, 1e303, -1e305, 1e300, 1e285, 5e-324, -5e-324, 1e-310, 2.2250738585072014e-308] {
        let got = a.convert_to(x, b);
        let same_dim = ra.dims == rb.dims;
        match got {
            Ok(y) => {
                let want = ((x * ra.scale + ra.offset) - rb.offset) / rb.scale;
                let close = if want.is_finite() && want != 0.0 { y.is_finite() && ((y - want) / want).abs() <= 1e-9 } else { true };
                if !same_dim || y.is_nan() || !close {
                    return Err(("convert-extreme-magnitude".into(), format!("{x:e} {} -> {} = {y:e}, the formula gives {want:e} (same dimension: {same_dim})", ra.name(), rb.name())));
                }
            }
            Err(e) => {
                if same_dim {
                    return Err(("convert-extreme-magnitude-refused".into(), format!("{x:e} {} -> {}: {e}", ra.name(), rb.name())));
                }
            }
        }
    }
    // non-finite quantities convert like any other: same dimension => Ok(the IEEE result of the formula)
    for x in [f64::INFINITY, f64::NEG_INFINITY, f64::NAN] {
        let got = a.convert_to(x, b);
        let same_dim = ra.dims == rb.dims;
        match got {
            Ok(y) => {
                let want = ((x * ra.scale + ra.offset) - rb.offset) / rb.scale;
                let same = (y.is_nan() && want.is_nan()) || y == want;
                if !same_dim || !same {
                    return Err(("convert-non-finite".into(), format!("{x} {} -> {} = {y}, the formula gives {want} (same dimension: {same_dim})", ra.name(), rb.name())));
                }
            }
            Err(e) => {
                if same_dim {
                    return Err(("convert-non-finite-refused".into(), format!("{x} {} -> {}: {e}", ra.name(), rb.name())));
                }
            }
        }
    }
    // Number arithmetic
    let feq = |p: f64, q: f64| p == q && p.is_sign_negative() == q.is_sign_negative() || (p.is_nan() && q.is_nan());
    for (x, y) in [(6.0, 4.0), (-1.5, 4.0), (0.0, 4.0), (1e21, 4.0), (f64::NAN, 4.0), (4.0, f64::NAN), (f64::NAN, f64::NAN), (f64::INFINITY, 4.0), (f64::INFINITY, f64::INFINITY), (f64::NEG_INFINITY, f64::INFINITY), (6.0, 0.0), (0.0, 0.0), (-0.0, 0.0), (5e-324, 4.0), (1e308, 1e308)] {
        let (na, nb) = (Number::make_with_unit(x, a), Number::make_with_unit(y, b));
        let same_unit = ia == ib;
        for (op, r, ieee) in [("add", na + nb, x + y), ("sub", na - nb, x - y)] {
            match r {
                Ok(n) => {
                    if !same_unit {
                        return Err((format!("number-{op}-different-units-accepted"), format!("{x}{} {op} {y}{} = {:?}", ra.symbol(), rb.symbol(), n)));
                    }
                    if !feq(n.value, ieee) || !n.unit.map_or(false, |u| std::ptr::eq(u, a)) {
                        return Err((format!("number-{op}-result"), format!("{x}{} {op} {y}{} = {:?}", ra.symbol(), rb.symbol(), n)));
                    }
                }
                Err(e) => {
                    if same_unit {
                        return Err((format!("number-{op}-same-unit-refused"), e));
                    }
                }
            }
        }
        for (op, r, ieee, ures) in [("mul", na * nb, x * y, a * b), ("div", na / nb, x / y, a / b)] {
            match (r, ures) {
                (Ok(n), Ok(u)) => {
                    let v_ok = feq(n.value, ieee);
                    if !v_ok || !n.unit.map_or(false, |w| std::ptr::eq(w, u)) {
                        return Err((format!("number-{op}-result"), format!("{x}{} {op} {y}{} = {:?}, unit result {:?}", ra.symbol(), rb.symbol(), n, u.ids)));
                    }
                }
                (Err(_), Err(_)) => {}
                (Ok(n), Err(e)) => return Err((format!("number-{op}-accepted-without-unit"), format!("{:?} although unit {op} fails: {e}", n))),
                (Err(e), Ok(u)) => return Err((format!("number-{op}-refused"), format!("{e} although unit {op} = {:?}", u.ids))),
            }
        }
    }
    // one operand without a unit: which unit the result carries is left open by the statement;
    // whatever it is, the magnitude is the IEEE result and no third unit appears
    if ia == ib {
        for &x in &[6.0, -1.5] {
            let y = 4.0;
            for left_has_unit in [true, false] {
                let mk = |v: f64, with: bool| if with { Number::make_with_unit(v, a) } else { Number::make(v) };
                let (na, nb) = (mk(x, left_has_unit), mk(y, !left_has_unit));
                for (op, r, ieee) in [("add", na + nb, x + y), ("sub", na - nb, x - y), ("mul", na * nb, x * y), ("div", na / nb, x / y)] {
                    if let Ok(n) = r {
                        if n.value != ieee || !n.unit.map_or(true, |u| std::ptr::eq(u, a)) {
                            return Err((format!("number-{op}-one-unitless-operand"), format!("{x} {op} {y} with {} on the {} = {:?}", ra.symbol(), if left_has_unit { "left" } else { "right" }, n)));
                        }
                    }
                }
            }
        }
    }
    Ok(())
}

fn unitless_arith() -> Verdict {
    let (a, b) = (Number::make(6.0), Number::make(4.0));
    for (op, r, want) in [("add", a + b, 10.0), ("sub", a - b, 2.0), ("mul", a * b, 24.0), ("div", a / b, 1.5)] {
        match r {
            Ok(n) if n.value == want && n.unit.is_none() => {}
            other => return Err((format!("number-{op}-unitless"), format!("6 {op} 4 = {other:?}"))),
        }
    }
    Ok(())
}

fn sig_for(stage: &str, ia: usize, ib: usize) -> String {
    let d = db();
    let class = |r: &RefUnit| {
        if r.offset != 0.0 {
            "offset-unit"
        } else if r.dims.is_none() {
            "dimensionless"
        } else {
            "plain"
        }
    };
    format!("{stage}:{}/{}{}", class(&d.units[ia]), class(&d.units[ib]), if ia == ib { ":same" } else { "" })
}

pub fn run(tier: Tier) -> i32 {
    let mut run = Run::new("C16", tier, "exploration");
    run.rule = "all ordered pairs of the units of units.txt x 17 magnitudes (round ones, full-mantissa ones such as pi, 1/3, 0.1+0.2, very small and very large normal doubles) for convert_to (+ back), ±INF and NaN and ten magnitudes at the ends of the double range (f64::MAX, 1e285 .. 1e305, subnormals: never refused for their size) through convert_to, unit * and /, Number + - * / over 15 operand pairs (incl. NaN, ±INF, ±0, subnormal, overflow on either side); reference = scale/offset/dimension table parsed by the harness; non-trivial = ordered pair of two different units".into();
    run.assume("forward error bounds 8ε/32ε·(|x·sa|+|oa|+|ob|)/|s| derived from the operation count of the conversion formula");
    run.assume("unit product/quotient scale compared with the library's own matching tolerance 10^-3");
    run.assume("+/- with exactly one unit-less operand is left unconstrained (the statement does not say)");
    crate::engine::quiet_panics();
    let n = db().units.len();
    let l = par_for(n, |ia, local| {
        for ib in 0..n {
            local.eval();
            if ia != ib {
                local.nontrivial(&format!("{ia}/{ib}"));
            }
            let case = json!({"a": db().units[ia].name(), "b": db().units[ib].name()});
            match guarded(|| check_pair(ia, ib)) {
                Ok(Ok(())) => local.outcome("ok"),
                Ok(Err((stage, d))) => {
                    local.outcome(&stage);
                    local.fail(&sig_for(&stage, ia, ib), case, d)
                }
                Err(p) => local.fail(&sig_for("panic", ia, ib), case, p),
            }
            if db().units[ia].dims == db().units[ib].dims {
                local.count("convertible-pairs");
            }
            let (ua, ub) = (lib(&db().units[ia]), lib(&db().units[ib]));
            if (ua * ub).is_ok() {
                local.count("unit-products-defined");
            }
            if (ua / ub).is_ok() {
                local.count("unit-quotients-defined");
            }
        }
    });
    run.absorb(l);
    // history independence: conversion / product / quotient of a unit pair after another pair
    // (all ordered pairs of 60 unit pairs: offset units, prefixes, dimensionless, incompatible ones)
    {
        let names = ["celsius", "fahrenheit", "kelvin", "kilowatt", "watt", "megawatt", "hour", "second", "meter", "foot", "kilowatt_hour", "joule", "percent", "pascal", "psi", "liter"];
        let mut pairs: Vec<(usize, usize)> = vec![];
        for a in names {
            for b in names {
                if let (Some(&ia), Some(&ib)) = (db().by_id.get(a), db().by_id.get(b)) {
                    if (ia + ib) % 4 == 0 || a == b {
                        pairs.push((ia, ib));
                    }
                }
            }
        }
        let op = |p: &(usize, usize)| -> String {
            let (a, b) = (lib(&db().units[p.0]), lib(&db().units[p.1]));
            let c: Vec<String> = [3.141592653589793, -40.0, 0.0].iter().map(|x| format!("{:?}", a.convert_to(*x, b))).collect();
            format!("{c:?}|{:?}|{:?}", (a * b).map(|u| u.ids[0].clone()), (a / b).map(|u| u.ids[0].clone()))
        };
        let l = super::common::history_pairs("unit-conversion", &pairs, &op, &|p: &(usize, usize)| json!({"a": db().units[p.0].name(), "b": db().units[p.1].name()}));
        run.absorb(l);
    }
    run.stats.evals += 1;
    if let Err((s, d)) = unitless_arith() {
        run.stats.fail(&s, json!({"unitless": true}), d);
    }
    run.require(run.counter("convertible-pairs") > 5000, "too few convertible pairs");
    run.require(n >= 400, "units");
    run.require(run.counter("unit-products-defined") > 10 && run.counter("unit-quotients-defined") > 10, "too few defined unit products/quotients");
    run.stats.samples = vec![json!({"a": "fahrenheit", "b": "celsius", "x": -273.15}), json!({"a": "kilowatt", "b": "hour", "op": "mul"})];
    run.finish(&replay)
}

pub fn replay(case: &J) -> Verdict {
    if case["history_pair"].is_string() {
        return Err(("history-changes-output:unit-conversion".into(), "re-run ./check C16 quick".into()));
    }
    if case["unitless"] == true {
        return unitless_arith();
    }
    let d = db();
    let ia = *d.by_id.get(case["a"].as_str().unwrap_or("")).expect("unit a");
    let ib = *d.by_id.get(case["b"].as_str().unwrap_or("")).expect("unit b");
    match guarded(|| check_pair(ia, ib)) {
        Ok(Ok(())) => Ok(()),
        Ok(Err((stage, det))) => Err((sig_for(&stage, ia, ib), det)),
        Err(p) => Err((sig_for("panic", ia, ib), p)),
    }
}
