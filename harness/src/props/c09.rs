//! C09 — the filter parser is total; evaluation of any parsed filter terminates (DESIGN §5 C09).
//! Fault enumeration in isolated child processes (watchdog + exit status), like C03.

use super::c03::Input;
use super::common::Verdict;
use crate::engine::isolate::{run_job, ChildCtx, Job};
use crate::engine::{guarded, Local, Run, Tier};
use crate::model::filter_ref::print_canonical;
use crate::model::v::{mk_tags, to_lib, V};
use libhaystack::defs::namespace::Namespace;
use libhaystack::filter::eval::EvalContext;
use libhaystack::filter::path::Path;
use libhaystack::filter::{Eval, Filter, PathResolver};
use libhaystack::val::{Dict, Grid, Ref, Value};
use serde_json::{json, Value as J};
use std::sync::OnceLock;

const TOKENS: &[&str] = &[
    "a", "b", "not", "and", "or", "true", "(", ")", "==", "!=", "<", "<=", ">", ">=", "*==", "->", "?", "5", "-1", "\"s\"", "@r", "^s", "`u`", "2021-01-01", "12:00:00", "-", "=", "-INF", "NaN", "5kW",
];

struct CycleResolver {
    refs: std::collections::BTreeMap<String, Dict>,
    /// what an id without a record resolves to: 0 nothing, 1 an empty record, 2 a record without
    /// any ref tag, 3 a record whose ref tags point back at the same id
    unknown: std::sync::atomic::AtomicUsize,
}
impl PathResolver for CycleResolver {
    fn resolve_for(&self, root: &Dict, path: &Path) -> Value {
        root.resolve_for(root, path)
    }
    fn resolve(&self, _p: &Path) -> Value {
        Value::Null
    }
    fn resolve_ref(&self, r: &Ref) -> Option<Dict> {
        if let Some(d) = self.refs.get(&r.value) {
            return Some(d.clone());
        }
        match self.unknown.load(std::sync::atomic::Ordering::Relaxed) {
            0 => None,
            1 => Some(Dict::new()),
            2 => Some(lib_dict(&[("dis", V::str("stub"))])),
            _ => Some(lib_dict(&[("id", V::Ref(r.value.clone(), None)), ("siteRef", V::Ref(r.value.clone(), None)), ("equipRef", V::Ref(r.value.clone(), None)), ("a", V::Ref(r.value.clone(), None))])),
        }
    }
}

fn lib_dict(t: &[(&str, V)]) -> Dict {
    match to_lib(&V::Dict(mk_tags(t))) {
        Value::Dict(d) => d,
        _ => unreachable!(),
    }
}

struct World {
    ns: &'static Namespace<'static>,
    resolver: CycleResolver,
    records: Vec<Dict>,
}

fn world() -> &'static World {
    static W: OnceLock<World> = OnceLock::new();
    W.get_or_init(|| {
        let text = std::fs::read_to_string(format!("{}/tests/defs/defs.zinc", crate::engine::repo_dir())).unwrap_or_else(|e| crate::engine::machinery(&format!("defs.zinc: {e}")));
        let grid: Grid = match libhaystack::encoding::zinc::decode::from_str(&text) {
            Ok(Value::Grid(g)) => g,
            other => crate::engine::machinery(&format!("defs.zinc does not decode to a grid: {:?}", other.map(|_| ()))),
        };
        let ns: &'static Namespace<'static> = Box::leak(Box::new(Namespace::make(grid)));
        let r = |id: &str| V::Ref(id.into(), None);
        // refs forming a 1-cycle, a 2-cycle and a chain; tags that carry relationships in the real defs
        let mut refs = std::collections::BTreeMap::new();
        refs.insert("r".to_string(), lib_dict(&[("id", r("r")), ("a", r("r")), ("siteRef", r("r")), ("equipRef", r("q")), ("equip", V::Marker)]));
        refs.insert("q".to_string(), lib_dict(&[("id", r("q")), ("a", r("p")), ("equipRef", r("p")), ("spaceRef", r("r")), ("equip", V::Marker)]));
        refs.insert("p".to_string(), lib_dict(&[("id", r("p")), ("a", r("q")), ("equipRef", r("q")), ("siteRef", r("s")), ("equip", V::Marker)]));
        refs.insert("s".to_string(), lib_dict(&[("id", r("s")), ("site", V::Marker)]));
        // a tail that runs into a cycle which does not contain its start (rho shape)
        refs.insert("t1".to_string(), lib_dict(&[("id", r("t1")), ("a", r("t2")), ("b", r("t2")), ("equipRef", r("t2"))]));
        refs.insert("t2".to_string(), lib_dict(&[("id", r("t2")), ("a", r("t3")), ("b", r("t2")), ("equipRef", r("t3"))]));
        refs.insert("t3".to_string(), lib_dict(&[("id", r("t3")), ("a", r("t2")), ("equipRef", r("t2"))]));
        // the same shapes with LISTS of refs in the ref tags (Haystack 4 allows `hotWaterRef: [@a, @b]`):
        // cycles that run through lists, a list naming its own record, unknown ids inside lists
        let rl = |ids: &[&str]| V::List(ids.iter().map(|i| r(i)).collect());
        refs.insert("l1".to_string(), lib_dict(&[("id", r("l1")), ("a", rl(&["l2", "l3"])), ("equipRef", rl(&["l2", "l3"])), ("chilledWaterRef", rl(&["l2"])), ("hotWaterRef", rl(&["l1"])), ("equip", V::Marker), ("chiller", V::Marker)]));
        refs.insert("l2".to_string(), lib_dict(&[("id", r("l2")), ("a", rl(&["l1"])), ("equipRef", rl(&["l1"])), ("chilledWaterRef", rl(&["nowhere", "l1"])), ("siteRef", rl(&["s", "l2"])), ("equip", V::Marker), ("pump", V::Marker)]));
        refs.insert("l3".to_string(), lib_dict(&[("id", r("l3")), ("a", rl(&["l3", "l1"])), ("equipRef", rl(&["l3", "l1"])), ("spaceRef", rl(&[])), ("airRef", rl(&["l3"])), ("equip", V::Marker)]));
        let records = vec![
            lib_dict(&[("id", r("lx")), ("a", rl(&["l1"])), ("equipRef", rl(&["l1", "l2"])), ("chilledWaterRef", rl(&["l1"])), ("hotWaterRef", rl(&["l1", "l3"])), ("siteRef", rl(&["l2"])), ("spaceRef", rl(&["l3"])), ("airRef", rl(&["l3"])), ("point", V::Marker)]),
            lib_dict(&[("id", r("l1")), ("a", rl(&["l2", "l3"])), ("equipRef", rl(&["l2", "l3"])), ("chilledWaterRef", rl(&["l2"])), ("hotWaterRef", rl(&["l1"])), ("equip", V::Marker), ("chiller", V::Marker)]),
            lib_dict(&[("id", r("ly")), ("a", V::List(vec![r("r"), V::List(vec![r("q")]), V::str("x")])), ("equipRef", V::List(vec![V::str("l1"), r("l1")])), ("siteRef", rl(&["nowhere"])), ("chilledWaterRef", r("l1")), ("point", V::Marker)]),
            lib_dict(&[]),
            lib_dict(&[("a", V::Marker)]),
            lib_dict(&[("a", V::num(5.0)), ("b", V::str("s"))]),
            lib_dict(&[("a", r("r")), ("b", r("q"))]),
            lib_dict(&[("a", r("q")), ("id", r("x")), ("equipRef", r("q")), ("point", V::Marker)]),
            lib_dict(&[("a", r("t1")), ("b", r("t1")), ("id", r("x2")), ("equipRef", r("t1")), ("point", V::Marker)]),
            lib_dict(&[("a", V::dict(&[("b", V::dict(&[("a", V::num(1.0))]))]))]),
            lib_dict(&[("a", V::List(vec![V::num(5.0), r("r"), V::str("s")]))]),
            lib_dict(&[("s", V::Marker), ("site", V::Marker), ("id", r("s"))]),
            lib_dict(&[("id", r("r")), ("siteRef", r("r")), ("equipRef", r("q")), ("equip", V::Marker), ("ahu", V::Marker)]),
            lib_dict(&[("a", V::Date(2021, 1, 1)), ("b", V::Time(12, 0, 0, 0))]),
            lib_dict(&[("a", V::Uri("u".into())), ("b", V::Bool(true))]),
            lib_dict(&[("a", V::num(-1.0)), ("b", V::Null)]),
            lib_dict(&[("equipRef", r("p")), ("spaceRef", r("r")), ("id", r("y")), ("point", V::Marker), ("air", V::Marker), ("temp", V::Marker), ("sensor", V::Marker)]),
            lib_dict(&[("inputs", V::Marker), ("a", V::Sym("s".into()))]),
            lib_dict(&[("a", r("nowhere")), ("siteRef", r("nowhere"))]),
            lib_dict(&[("a", V::str("s")), ("b", V::num(5.0)), ("true", V::Marker), ("not", V::Marker)]),
        ];
        World { ns, resolver: CycleResolver { refs, unknown: std::sync::atomic::AtomicUsize::new(0) }, records }
    })
}

fn panic_class(msg: &str) -> String {
    msg.chars().filter(|c| !c.is_ascii_digit()).take(60).collect::<String>().replace('\n', " ")
}

/// parse; if accepted evaluate on every record, print and re-parse. Err = (stage, message)
pub fn filter_entries(bytes: &[u8]) -> Result<bool, (String, String)> {
    let text = String::from_utf8_lossy(bytes).to_string();
    let parsed = guarded(|| Filter::try_from(text.as_str())).map_err(|p| ("parse".to_string(), p))?;
    let f = match parsed {
        Ok(f) => f,
        Err(_) => return Ok(false),
    };
    let w = world();
    guarded(|| {
        for rec in &w.records {
            for mode in 0..4usize {
                w.resolver.unknown.store(mode, std::sync::atomic::Ordering::Relaxed);
                let _ = f.eval(&EvalContext::make(rec, w.ns, &w.resolver));
            }
            w.resolver.unknown.store(0, std::sync::atomic::Ordering::Relaxed);
        }
    })
    .map_err(|p| ("eval".to_string(), p))?;
    guarded(|| {
        let t = f.to_string();
        let _ = Filter::try_from(t.as_str());
    })
    .map_err(|p| ("print".to_string(), p))?;
    Ok(true)
}

// ------------------------------------------------------------------------------ jobs

fn seqs(maxlen: usize) -> u64 {
    (0..=maxlen).map(|l| (TOKENS.len() as u64).pow(l as u32)).sum::<u64>() * 2
}

fn seq_at(ord: u64) -> Vec<u8> {
    let spaced = ord % 2 == 0;
    let mut o = ord / 2;
    let a = TOKENS.len() as u64;
    let mut len = 0u32;
    loop {
        let n = a.pow(len);
        if o < n {
            break;
        }
        o -= n;
        len += 1;
    }
    let mut parts = vec![];
    for _ in 0..len {
        parts.push(TOKENS[(o % a) as usize]);
        o /= a;
    }
    parts.join(if spaced { " " } else { "" }).into_bytes()
}

const ALL: [u8; 256] = {
    let mut a = [0u8; 256];
    let mut i = 0;
    while i < 256 {
        a[i] = i as u8;
        i += 1;
    }
    a
};

fn bytes_count(maxlen: usize) -> u64 {
    (0..=maxlen).map(|l| 256u64.pow(l as u32)).sum()
}
fn bytes_at(mut ord: u64) -> Vec<u8> {
    let mut len = 0u32;
    loop {
        let n = 256u64.pow(len);
        if ord < n {
            break;
        }
        ord -= n;
        len += 1;
    }
    let mut v = vec![];
    for _ in 0..len {
        v.push(ALL[(ord % 256) as usize]);
        ord /= 256;
    }
    v
}

const MUT_ALPHA: &[u8] = b"ab ()=!<>*-?5\"@^`:T.\n\\\xff";

struct Tables {
    docs: Vec<Vec<u8>>,
    prefix: Vec<u64>,
    /// short filters for the all-256-bytes substitution / insertion sweep
    sub_docs: Vec<Vec<u8>>,
    sub_prefix: Vec<u64>,
}

fn tables() -> &'static Tables {
    static T: OnceLock<Tables> = OnceLock::new();
    T.get_or_init(|| {
        // printed filters of the C08 leaf alphabet and a few compound ones
        let mut docs: Vec<Vec<u8>> = vec![];
        let leaves = super::c08_leaves();
        for l in &leaves {
            docs.push(print_canonical(l).into_bytes());
        }
        for i in (0..leaves.len()).step_by(7) {
            for j in (0..leaves.len()).step_by(11) {
                use crate::model::filter_ref::F;
                docs.push(print_canonical(&F::Or(vec![F::And(vec![leaves[i].clone(), leaves[j].clone()]), F::Parens(Box::new(leaves[j].clone()))])).into_bytes());
            }
        }
        docs.retain(|d| d.len() <= 120);
        docs.sort();
        docs.dedup();
        let mut prefix = vec![0u64];
        for d in &docs {
            let l = d.len() as u64;
            let a = MUT_ALPHA.len() as u64;
            prefix.push(prefix.last().unwrap() + (l + 1) + l * a + l + (l + 1) * a);
        }
        let sub_docs: Vec<Vec<u8>> = docs.iter().filter(|d| d.len() <= 22).cloned().collect();
        let mut sub_prefix = vec![0u64];
        for d in &sub_docs {
            sub_prefix.push(sub_prefix.last().unwrap() + (2 * d.len() as u64 + 1) * 256);
        }
        Tables { docs, prefix, sub_docs, sub_prefix }
    })
}

fn mutant(doc: &[u8], mut k: u64) -> Vec<u8> {
    let l = doc.len() as u64;
    let a = MUT_ALPHA.len() as u64;
    if k < l + 1 {
        return doc[..k as usize].to_vec();
    }
    k -= l + 1;
    if k < l * a {
        let mut d = doc.to_vec();
        d[(k / a) as usize] = MUT_ALPHA[(k % a) as usize];
        return d;
    }
    k -= l * a;
    if k < l {
        let mut d = doc.to_vec();
        d.remove(k as usize);
        return d;
    }
    k -= l;
    let mut d = doc.to_vec();
    d.insert((k / a) as usize, MUT_ALPHA[(k % a) as usize]);
    d
}

fn nest_depths() -> Vec<usize> {
    let mut d: Vec<usize> = (1..=256).collect();
    let mut k = 512;
    while k <= 131_072 {
        d.push(k);
        d.push(k + 1);
        k *= 2;
    }
    d.push(100_000);
    d
}
const NEST_PATTERNS: usize = 8;
fn nest_doc(p: usize, d: usize) -> Vec<u8> {
    match p {
        0 => "(".repeat(d) + "a" + &")".repeat(d),
        1 => "(".repeat(d),
        2 => "( ".repeat(d) + "a",
        3 => "not ".repeat(d) + "a",
        4 => "a and ".repeat(d) + "a",
        5 => "a or ".repeat(d) + "b",
        6 => "a->".repeat(d) + "b",
        _ => "(a and (b or ".repeat(d) + "c" + &"))".repeat(d),
    }
    .into_bytes()
}

fn jobs(tier: Tier) -> Vec<(&'static str, u64, u64)> {
    let nd = nest_depths().len() as u64;
    vec![
        ("seq", seqs(tier.pick(4, 5)), 1 << 19),
        ("bytes", bytes_count(tier.pick(2, 3)), 1 << 20),
        ("mut", *tables().prefix.last().unwrap(), 1 << 17),
        ("nest8", nd * NEST_PATTERNS as u64, 64),
        ("nest2", nd * NEST_PATTERNS as u64, 64),
        ("long", long_filters().len() as u64, 1 << 13),
        ("sub", *tables().sub_prefix.last().unwrap(), 1 << 18),
    ]
}

/// long tokens of the scalar grammar (shared with C03) as comparison literals, long identifiers,
/// long paths, long and/or chains
/// set from the tier at the start of run() / child()
static THOROUGH: std::sync::atomic::AtomicBool = std::sync::atomic::AtomicBool::new(false);

fn long_filters() -> &'static Vec<Vec<u8>> {
    static L: std::sync::OnceLock<Vec<Vec<u8>>> = std::sync::OnceLock::new();
    L.get_or_init(|| {
        let thorough = THOROUGH.load(std::sync::atomic::Ordering::Relaxed);
        let mut out: Vec<Vec<u8>> = vec![];
        for t in super::c03::long_tokens() {
            if t.len() > 1100 {
                continue;
            }
            let mut v = b"a == ".to_vec();
            v.extend_from_slice(&t);
            out.push(v.clone());
            v.extend_from_slice(b" and b");
            out.push(v);
            out.push(t);
        }
        for (text, city, _) in crate::model::time_ref::transition_texts() {
            out.push(format!("ts >= {text} {city}").into_bytes());
        }
        // flat filters of 20 000 / 100 000 terms
        for n in if thorough { vec![20_000usize, 100_000] } else { vec![20_000usize] } {
            out.push(format!("a{}", " and a".repeat(n)).into_bytes());
            out.push(format!("a{}", " or b".repeat(n)).into_bytes());
            out.push(format!("a{}", " or (b)".repeat(n / 2)).into_bytes());
            out.push(format!("a{} == 1", "->b".repeat(n)).into_bytes());
            out.push(format!("{}a", "not ".repeat(n)).into_bytes());
            out.push(format!("a == \"{}\"", "x\\n".repeat(n)).into_bytes());
            out.push(format!("a == {}", "9".repeat(n)).into_bytes());
        }
        for n in (1..=72usize).chain([127, 128, 129, 255, 256, 257, 1000]) {
            let name = "a".repeat(n);
            out.push(name.clone().into_bytes());
            out.push(format!("not {name} and {name}B == 1").into_bytes());
            out.push(format!("{}b", "a->".repeat(n)).into_bytes());
            out.push(format!("{}b == 5", "aB1_->".repeat(n)).into_bytes());
            out.push(format!("a{}", " and a".repeat(n)).into_bytes());
            out.push(format!("a{}", " or a and b".repeat(n)).into_bytes());
            out.push(format!("^{name}").into_bytes());
            out.push(format!("{name}? ^{name} @{name}").into_bytes());
            out.push(format!("a *== @{name}").into_bytes());
        }
        out
    })
}

fn job_input(job: &str, ord: u64) -> Vec<u8> {
    match job {
        "seq" => seq_at(ord),
        "bytes" => bytes_at(ord),
        "mut" => {
            let t = tables();
            let mut i = match t.prefix.binary_search(&ord) {
                Ok(i) => i,
                Err(i) => i - 1,
            };
            while t.prefix[i + 1] <= ord {
                i += 1;
            }
            mutant(&t.docs[i], ord - t.prefix[i])
        }
        "nest8" | "nest2" => {
            let depths = nest_depths();
            nest_doc((ord as usize) / depths.len(), depths[(ord as usize) % depths.len()])
        }
        "long" => long_filters()[ord as usize].clone(),
        "sub" => {
            let t = tables();
            let mut i = match t.sub_prefix.binary_search(&ord) {
                Ok(i) => i,
                Err(i) => i - 1,
            };
            while t.sub_prefix[i + 1] <= ord {
                i += 1;
            }
            let k = ord - t.sub_prefix[i];
            let mut d = t.sub_docs[i].clone();
            let (pos, byte) = ((k / 256) as usize, (k % 256) as u8);
            if pos < d.len() {
                d[pos] = byte;
            } else {
                d.insert(pos - t.sub_docs[i].len(), byte);
            }
            d
        }
        other => crate::engine::machinery(&format!("C09: unknown job {other}")),
    }
}

fn hex(b: &[u8]) -> String {
    b.iter().map(|x| format!("{x:02x}")).collect()
}
fn unhex(s: &str) -> Vec<u8> {
    (0..s.len() / 2).map(|i| u8::from_str_radix(&s[2 * i..2 * i + 2], 16).unwrap()).collect()
}

fn describe(job: &str, ord: u64, b: &[u8]) -> J {
    let stack = if job == "nest2" { "2MiB" } else { "8MiB" };
    if b.len() > 300 {
        let tier = if THOROUGH.load(std::sync::atomic::Ordering::Relaxed) { "thorough" } else { "quick" };
        json!({"job": job, "ordinal": ord, "tier": tier, "len": b.len(), "prefix": String::from_utf8_lossy(&b[..40]), "stack": stack, "generated": true})
    } else {
        json!({"hex": hex(b), "text": String::from_utf8_lossy(b), "stack": stack})
    }
}

fn run_input(job: &str, ord: u64, b: &[u8], local: &mut Local) {
    local.eval();
    match filter_entries(b) {
        Ok(true) => {
            local.count("accepted");
            local.outcome("accepted");
            local.nontrivial(&hex(&b[..b.len().min(64)]));
        }
        Ok(false) => {
            local.count("rejected");
            local.outcome("rejected");
            if b.len() > 1 {
                local.nontrivial(&hex(&b[..b.len().min(64)]));
            }
        }
        Err((stage, p)) => {
            local.outcome("panic");
            local.fail(&format!("panic:{stage}:{}", panic_class(&p)), describe(job, ord, b), p)
        }
    }
}

pub fn child(tier: Tier, job: String, start: u64, end: u64, ctx: &mut ChildCtx, local: &mut Local) {
    THOROUGH.store(tier == Tier::Thorough, std::sync::atomic::Ordering::Relaxed);
    let _ = world();
    if let Some(h) = job.strip_prefix("one:") {
        ctx.begin(0);
        run_input("one", 0, &unhex(h), local);
        return;
    }
    if let Some(rest) = job.strip_prefix("onegen:") {
        let (j, o) = rest.split_once(':').unwrap();
        ctx.begin(0);
        let o: u64 = o.parse().unwrap();
        run_input(j, o, &job_input(j, o), local);
        return;
    }
    for ord in start..end {
        ctx.begin(ord);
        run_input(&job, ord, &job_input(&job, ord), local);
    }
}

pub fn child_params(job: &str) -> (u64, u64, usize) {
    let stack = if job == "nest2" || job.contains(":nest2:") { 2 << 20 } else { 8 << 20 };
    (6, 6 << 30, stack)
}

pub fn run(tier: Tier) -> i32 {
    THOROUGH.store(tier == Tier::Thorough, std::sync::atomic::Ordering::Relaxed);
    let mut run = Run::new("C09", tier, "fault_enumeration");
    run.rule = "inputs: every sequence of <= 4/5 tokens over a 30-token alphabet (tags, keywords, every operator, literals of several kinds, stray '-' '=' '?') joined with and without spaces; every byte string <= 2/3 over all bytes; every prefix, substitution, deletion and insertion (23-byte alphabet) of ~280 printed filters; every one of the 256 byte values substituted at and inserted before every position of the printed filters of <= 22 bytes; long tokens (the 24 token kinds of C03 with bodies of every length 1..72, 100, 127..129, 255..257, 300, 1000 as comparison literals; identifiers, paths, and/or chains and symbols of those lengths; all sequences of <= 3 \\uXXXX escapes incl. every surrogate combination); 8 nesting patterns ('(' , 'not ', 'a and ', 'a->', mixed) at every depth 1..256, 2^k(+1) up to 131072 and 10^5 on 8 MiB and 2 MiB stacks. Every input is parsed; every accepted filter is evaluated on 20 records (three of them and three resolvable records carry LISTS of refs in their ref tags: cycles through lists, a list naming its own record, unknown ids and non-refs inside lists) with a resolver whose refs form 1- and 2-cycles and which answers unknown ids in four ways (nothing, an empty record, a record without ref tags, a record pointing back at the same id) over a namespace built from tests/defs/defs.zinc, printed and re-parsed. Oracle: returns — no panic, abort, stack overflow (exit status) or hang (6 s watchdog). non-trivial = distinct input of >= 2 bytes".into();
    run.assume("a case that does not finish within 6 s is a hang; crashes and hangs are confirmed in a fresh single-step child");
    crate::engine::quiet_panics();
    for (name, n, chunk) in jobs(tier) {
        let d = move |ord: u64| describe(name, ord, &job_input(name, ord));
        let job = Job { prop: "C09", tier: tier.name(), job: name, n, chunk, env: vec![], exe: None, describe: &d };
        let l = run_job(&job);
        run.note(&format!("job_{name}_cases"), json!(n));
        run.absorb(l);
    }
    run.require(run.counter("accepted") > 1000 && run.counter("rejected") > 1000, "inputs not both accepted and rejected");
    run.exhaustive = run.counter("chunks-skipped-after-crashes") == 0;
    run.stats.samples = vec![json!({"text": "a->b and"}), json!({"text": "( ( ( … x100000"}), json!({"text": "containedBy? ^site @r"})];
    run.finish(&replay)
}

pub fn replay(case: &J) -> Verdict {
    let jobname = if case.get("generated").is_some() {
        format!("onegen:{}:{}", case["job"].as_str().unwrap_or(""), case["ordinal"].as_u64().unwrap_or(0))
    } else {
        format!("one:{}", case["hex"].as_str().unwrap_or(""))
    };
    let c2 = case.clone();
    let d = move |_o: u64| c2.clone();
    // generated inputs are numbered per tier
    let tname = case["tier"].as_str().unwrap_or("thorough").to_string();
    let job = Job { prop: "C09", tier: &tname, job: &jobname, n: 1, chunk: 1, env: vec![], exe: None, describe: &d };
    let l = run_job(&job);
    match l.fails.values().next() {
        Some(f) => Err((f.sig.clone(), if f.sig.starts_with("crash") || f.sig == "hang" { f.sig.clone() } else { f.detail.clone() })),
        None => Ok(()),
    }
}

#[allow(dead_code)]
fn _input(_: Input) {}
