//! Helpers shared by the value-universe properties.

use crate::engine::Local;
use crate::model::shrink::{shape_sig, shrink};
use crate::model::v::{to_json, V};
use serde_json::{json, Value as J};

pub type Verdict = Result<(), (String, String)>;

/// "non-trivial" for the codec properties: the value contains a container, a unit, a zone, or a
/// character outside [A-Za-z0-9 ].
pub fn nontrivial_value(v: &V) -> bool {
    let mut nt = false;
    v.walk(&mut |x| {
        let plain = |s: &str| s.chars().all(|c| c.is_ascii_alphanumeric() || c == ' ');
        match x {
            V::List(_) | V::Dict(_) | V::Grid(_) | V::DateTime(_) | V::Num(_, Some(_)) => nt = true,
            V::Str(s) | V::Uri(s) | V::Sym(s) | V::XStr(_, s) => {
                if !plain(s) {
                    nt = true
                }
            }
            V::Ref(id, d) => {
                if !plain(id) || d.as_ref().map_or(false, |d| !plain(d)) {
                    nt = true
                }
            }
            _ => {}
        }
    });
    nt
}

/// Evaluate `f` on `v`; on failure minimise the value and record the failure under the
/// signature `<stage>:<shape of the minimal value>`.
pub fn check_value(v: &V, local: &mut Local, well_formed: bool, f: &dyn Fn(&V) -> Verdict) {
    local.eval();
    if nontrivial_value(v) {
        local.nontrivial(&v.key());
    }
    match f(v) {
        Ok(()) => {
            local.outcome("ok");
        }
        Err((stage0, detail0)) => {
            // a change that breaks (nearly) everything: after 300 minimised failures (process-wide) the rest
            // are recorded unshrunk under their own shape (minimising 10^5 failing values would take
            // hours and adds nothing to the verdict)
            static SHRUNK: std::sync::atomic::AtomicU64 = std::sync::atomic::AtomicU64::new(0);
            if SHRUNK.fetch_add(1, std::sync::atomic::Ordering::Relaxed) > 300 {
                local.outcome(&stage0);
                local.fail(&format!("{stage0}:{}", shape_sig(v)), json!({"value": to_json(v)}), detail0);
                return;
            }
            let min = shrink(v, well_formed, &|c| f(c).is_err());
            let (stage, detail) = f(&min).err().expect("minimal value must still fail");
            let sig = format!("{stage}:{}", shape_sig(&min));
            local.outcome(&stage);
            local.fail(&sig, json!({"value": to_json(&min)}), detail);
        }
    }
}

/// `check_value` for a second oracle of the same check: the case carries `{"oracle": tag}` so the
/// replay can pick the same oracle.
pub fn check_value_as(v: &V, local: &mut Local, well_formed: bool, tag: &str, f: &dyn Fn(&V) -> Verdict) {
    local.eval();
    match f(v) {
        Ok(()) => {
            local.outcome("ok");
        }
        Err(_) => {
            let min = shrink(v, well_formed, &|c| f(c).is_err());
            let (stage, detail) = f(&min).err().expect("minimal value must still fail");
            let sig = format!("{stage}:{}", shape_sig(&min));
            local.outcome(&stage);
            local.fail(&sig, json!({"value": to_json(&min), "oracle": tag}), detail);
        }
    }
}

/// Replay of a `{"value": …}` case.
pub fn replay_value(case: &J, f: &dyn Fn(&V) -> Verdict) -> Verdict {
    let v = crate::model::v::from_json(&case["value"]);
    match f(&v) {
        Ok(()) => Ok(()),
        Err((stage, detail)) => Err((format!("{stage}:{}", shape_sig(&v)), detail)),
    }
}

pub fn sample_values(local: &mut Local, vals: &[&V]) {
    for v in vals {
        local.samples.push(to_json(v));
    }
}

/// History independence of an operation that should be pure: `op(x)` — a rendering of everything
/// observable — must be the same whether it is the first call on this thread or follows `op` on
/// any other item of the pool (all ordered pairs; a scratch buffer, a "last value" memo, a lossy
/// cache or any other state surviving a call shows as a difference). Items are described by
/// `show` for the replay file.
pub fn history_pairs<T: Sync>(name: &str, pool: &[T], op: &(dyn Fn(&T) -> String + Sync), show: &(dyn Fn(&T) -> J + Sync)) -> Local {
    // baseline: each item on a thread of its own (fresh thread-local state)
    let baseline: Vec<String> = pool.iter().map(|x| std::thread::scope(|s| s.spawn(|| crate::engine::guarded(|| op(x)).unwrap_or_else(|p| format!("panic: {p}"))).join().unwrap())).collect();
    crate::engine::par_for(pool.len(), |w, local| {
        for (v, want) in baseline.iter().enumerate() {
            local.evals += 1;
            let _ = crate::engine::guarded(|| op(&pool[w]));
            let got = crate::engine::guarded(|| op(&pool[v])).unwrap_or_else(|p| format!("panic: {p}"));
            if got != *want && local.fails.contains_key(&format!("history-changes-output:{name}")) {
                // (already witnessed on this worker: count, do not search for another minimal history)
                local.fail_count += 1;
                continue;
            }
            if got != *want {
                // which history is needed? this worker has executed w, v0, w, v1, ..., w, v: find the
                // shortest suffix of that sequence that gives the same wrong result on a fresh thread
                let executed: Vec<usize> = (0..=v).flat_map(|k| [w, k]).collect();
                let on_fresh_thread = |seq: &[usize]| -> String {
                    std::thread::scope(|s| {
                        s.spawn(|| {
                            let mut last = String::new();
                            for &i in seq {
                                last = crate::engine::guarded(|| op(&pool[i])).unwrap_or_else(|p| format!("panic: {p}"));
                            }
                            last
                        })
                        .join()
                        .unwrap()
                    })
                };
                let mut seq: Vec<usize> = executed.clone();
                for len in 2..=executed.len().min(14) {
                    let cand = &executed[executed.len() - len..];
                    if on_fresh_thread(cand) != *want {
                        seq = cand.to_vec();
                        break;
                    }
                }
                let case = if seq.len() == 2 {
                    json!({"history_pair": name, "before": show(&pool[seq[0]]), "then": show(&pool[seq[1]])})
                } else {
                    json!({"history_pair": name, "sequence": seq.iter().map(|&i| show(&pool[i])).collect::<Vec<_>>()})
                };
                local.fail(
                    &format!("history-changes-output:{name}"),
                    case,
                    format!("{name}: after the same operation on {} the result for {} is {}, alone it is {}", seq[..seq.len() - 1].iter().map(|&i| show(&pool[i]).to_string()).collect::<Vec<_>>().join(", then "), show(&pool[v]), got.chars().take(300).collect::<String>(), want.chars().take(300).collect::<String>()),
                );
            }
        }
        local.count(&format!("history-pairs:{name}"));
    })
}


/// A writer that fails at its k-th call (for observations that include failing encodes).
pub struct FailAt {
    pub calls: usize,
    pub k: usize,
    pub out: Vec<u8>,
}
impl std::io::Write for FailAt {
    fn write(&mut self, buf: &[u8]) -> std::io::Result<usize> {
        self.calls += 1;
        if self.calls >= self.k {
            return Err(std::io::Error::new(std::io::ErrorKind::BrokenPipe, "peer hung up"));
        }
        self.out.extend_from_slice(buf);
        Ok(buf.len())
    }
    fn flush(&mut self) -> std::io::Result<()> {
        Ok(())
    }
}

/// History independence under accumulation: after `reps` repetitions of `op` on w (in particular
/// operations that FAIL part-way: a counter that is incremented on entry and not decremented on
/// the error path, a buffer that grows, a pool that drains) the result for v is the result for v
/// alone — every w of `before` x every v of `then`.
pub fn history_after_repeats<T: Sync>(name: &str, before: &[T], then: &[T], reps: usize, op: &(dyn Fn(&T) -> String + Sync), show: &(dyn Fn(&T) -> J + Sync)) -> Local {
    let baseline: Vec<String> = then.iter().map(|x| std::thread::scope(|s| s.spawn(|| crate::engine::guarded(|| op(x)).unwrap_or_else(|p| format!("panic: {p}"))).join().unwrap())).collect();
    crate::engine::par_for(before.len(), |w, local| {
        // a thread of its own: the accumulated state must not leak into the other checks
        let fails: Vec<(usize, String)> = std::thread::scope(|s| {
            s.spawn(|| {
                for _ in 0..reps {
                    let _ = crate::engine::guarded(|| op(&before[w]));
                }
                let mut out = vec![];
                for (v, want) in baseline.iter().enumerate() {
                    let got = crate::engine::guarded(|| op(&then[v])).unwrap_or_else(|p| format!("panic: {p}"));
                    if got != *want {
                        out.push((v, got));
                    }
                }
                out
            })
            .join()
            .unwrap()
        });
        local.evals += (reps + then.len()) as u64;
        local.count(&format!("history-repeats:{name}"));
        for (v, got) in fails {
            local.fail(
                &format!("history-changes-output:{name}:after-repeats"),
                json!({"history_repeats": name, "reps": reps, "before": show(&before[w]), "then": show(&then[v])}),
                format!("{name}: after {reps} repetitions of the same operation on {} the result for {} is {}, alone it is {}", show(&before[w]), show(&then[v]), got.chars().take(300).collect::<String>(), baseline[v].chars().take(300).collect::<String>()),
            );
        }
    })
}

/// replay of a `history_repeats` case
pub fn replay_history_repeats<T: Sync>(case: &J, parse: &dyn Fn(&J) -> T, op: &(dyn Fn(&T) -> String + Sync), name: &str) -> Verdict {
    let (w, v) = (parse(&case["before"]), parse(&case["then"]));
    let reps = case["reps"].as_u64().unwrap_or(300) as usize;
    let alone = std::thread::scope(|s| s.spawn(|| op(&v)).join().unwrap());
    let after = std::thread::scope(|s| {
        s.spawn(|| {
            for _ in 0..reps {
                let _ = crate::engine::guarded(|| op(&w));
            }
            op(&v)
        })
        .join()
        .unwrap()
    });
    if alone == after {
        Ok(())
    } else {
        Err((format!("history-changes-output:{name}:after-repeats"), format!("alone {}, after {}", alone.chars().take(200).collect::<String>(), after.chars().take(200).collect::<String>())))
    }
}


/// A writer that takes at most `limit` bytes per call and reports Interrupted on every
/// `interrupt_every`-th call (0 = never).
pub struct LimitedWriter {
    pub out: Vec<u8>,
    pub limit: usize,
    pub interrupt_every: usize,
    calls: usize,
    just_interrupted: bool,
}
impl LimitedWriter {
    pub fn new(limit: usize, interrupt_every: usize) -> Self {
        LimitedWriter { out: vec![], limit, interrupt_every, calls: 0, just_interrupted: false }
    }
}
impl std::io::Write for LimitedWriter {
    fn write(&mut self, buf: &[u8]) -> std::io::Result<usize> {
        self.calls += 1;
        if self.interrupt_every > 0 && self.calls % self.interrupt_every == 0 && !self.just_interrupted {
            self.just_interrupted = true;
            return Err(std::io::Error::new(std::io::ErrorKind::Interrupted, "EINTR"));
        }
        self.just_interrupted = false;
        let n = buf.len().min(self.limit);
        self.out.extend_from_slice(&buf[..n]);
        Ok(n)
    }
    fn flush(&mut self) -> std::io::Result<()> {
        Ok(())
    }
}

/// The Zinc text of a value, obtained through `to_zinc_string` AND through `ToZinc::to_zinc` into
/// writers that take 1 / 3 bytes per call or report Interrupted on every other call: the text a
/// caller's writer receives is the text. Err = (stage, detail).
pub fn zinc_text_all_writers(lv: &libhaystack::val::Value) -> Result<String, (String, String)> {
    use libhaystack::encoding::zinc::encode::{to_zinc_string, ToZinc};
    let text = match crate::engine::guarded(|| to_zinc_string(lv)) {
        Err(p) => return Err(("encode-panic".into(), p)),
        Ok(Err(e)) => return Err(("encode-error".into(), e.to_string())),
        Ok(Ok(t)) => t,
    };
    for (limit, every) in [(1usize, 0usize), (3, 0), (usize::MAX, 2)] {
        let mut w = LimitedWriter::new(limit, every);
        match crate::engine::guarded(|| lv.to_zinc(&mut w).map_err(|e| e.to_string())) {
            Err(p) => return Err(("encode-panic:writer".into(), p)),
            Ok(Err(e)) => return Err(("encode-error:writer".into(), format!("a writer taking {limit} bytes per call (Interrupted every {every}): {e}"))),
            Ok(Ok(())) => {
                if w.out != text.as_bytes() {
                    return Err(("encode-writer-receives-other-text".into(), format!("a writer taking {limit} bytes per call (Interrupted every {every}) received {:?}, to_zinc_string gives {text:?}", String::from_utf8_lossy(&w.out))));
                }
            }
        }
    }
    Ok(text)
}


/// replay of a `history_pair` case (a pair, or a longer `sequence`): the last item's result after
/// the others, on a fresh thread, against its result alone
pub fn replay_history_pair<T: Sync>(case: &J, parse: &dyn Fn(&J) -> T, op: &(dyn Fn(&T) -> String + Sync), name: &str) -> Verdict {
    let items: Vec<T> = match case["sequence"].as_array() {
        Some(a) => a.iter().map(parse).collect(),
        None => vec![parse(&case["before"]), parse(&case["then"])],
    };
    let last = items.last().expect("non-empty");
    let alone = std::thread::scope(|s| s.spawn(|| crate::engine::guarded(|| op(last)).unwrap_or_else(|p| format!("panic: {p}"))).join().unwrap());
    let after = std::thread::scope(|s| {
        s.spawn(|| {
            let mut r = String::new();
            for x in &items {
                r = crate::engine::guarded(|| op(x)).unwrap_or_else(|p| format!("panic: {p}"));
            }
            r
        })
        .join()
        .unwrap()
    });
    if alone == after {
        Ok(())
    } else {
        Err((format!("history-changes-output:{name}"), format!("alone {}, after {}", alone.chars().take(200).collect::<String>(), after.chars().take(200).collect::<String>())))
    }
}


/// Free-running probe (supplementary, NOT exhaustive): the enumerations of a check are spread over
/// 16 threads and assume that an operation's result does not depend on what other threads are doing.
/// This probe decides that assumption first: `threads` OS threads apply `op` to rotations of the pool
/// at once for `millis` ms; every result must equal the result obtained alone (on a fresh thread).
/// Returns (operations done, first difference).
pub fn free_running_probe<T: Sync>(pool: &[T], op: &(dyn Fn(&T) -> String + Sync), show: &(dyn Fn(&T) -> J + Sync), threads: usize, millis: u64) -> (u64, Option<String>) {
    let alone: Vec<String> = pool.iter().map(|x| std::thread::scope(|s| s.spawn(|| crate::engine::guarded(|| op(x)).unwrap_or_else(|p| format!("panic: {p}"))).join().unwrap())).collect();
    let total = std::sync::atomic::AtomicU64::new(0);
    let stop = std::sync::atomic::AtomicBool::new(false);
    let bad: std::sync::Mutex<Option<String>> = std::sync::Mutex::new(None);
    let barrier = std::sync::Barrier::new(threads + 1);
    std::thread::scope(|sc| {
        for t in 0..threads {
            let (alone, total, stop, bad, barrier) = (&alone, &total, &stop, &bad, &barrier);
            sc.spawn(move || {
                barrier.wait();
                let mut done = 0u64;
                let mut k = t * 3;
                'outer: while !stop.load(std::sync::atomic::Ordering::Relaxed) {
                    for _ in 0..16 {
                        let i = k % pool.len();
                        k += 1 + t;
                        let got = crate::engine::guarded(|| op(&pool[i])).unwrap_or_else(|p| format!("panic: {p}"));
                        done += 1;
                        if got != alone[i] {
                            let mut b = bad.lock().unwrap();
                            if b.is_none() {
                                *b = Some(format!("thread {t} of {threads}: the operation on {} gives {}, alone it gives {}", show(&pool[i]), got.chars().take(240).collect::<String>(), alone[i].chars().take(240).collect::<String>()));
                            }
                            stop.store(true, std::sync::atomic::Ordering::Relaxed);
                            break 'outer;
                        }
                    }
                }
                total.fetch_add(done, std::sync::atomic::Ordering::Relaxed);
            });
        }
        barrier.wait();
        std::thread::sleep(std::time::Duration::from_millis(millis));
        stop.store(true, std::sync::atomic::Ordering::Relaxed);
    });
    let b = bad.lock().unwrap().clone();
    (total.load(std::sync::atomic::Ordering::Relaxed), b)
}

pub const FREE_SIG: &str = "free-running:result-differs-from-the-result-alone";

/// run the probe at the start of a check; Some(exit code) = the check stops here
pub fn probe_first<T: Sync>(run: &mut crate::engine::Run, name: &str, pool: &[T], op: &(dyn Fn(&T) -> String + Sync), show: &(dyn Fn(&T) -> J + Sync)) -> bool {
    let (n, bad) = free_running_probe(pool, op, show, 8, 350);
    run.stats.evals += n;
    run.note("free_running_probe_operations", json!(n));
    run.assume("a supplementary free-running probe (8 threads, 0.35 s, NOT exhaustive) first checks that the operation's result does not depend on what other threads are doing — the enumeration itself is spread over 16 threads");
    if let Some(d) = bad {
        run.stats.fail(FREE_SIG, json!({"free_running": name}), d);
        return true;
    }
    false
}

/// replay of a probe witness: the probe repeated, longer
pub fn replay_probe<T: Sync>(pool: &[T], op: &(dyn Fn(&T) -> String + Sync), show: &(dyn Fn(&T) -> J + Sync)) -> Verdict {
    match free_running_probe(pool, op, show, 16, 2500).1 {
        Some(_) => Err((FREE_SIG.into(), "an operation's result differs from its result alone (on a fresh thread) while this and other threads run the same operation on other items: it depends on earlier operations of the thread or on other threads".into())),
        None => Ok(()),
    }
}
