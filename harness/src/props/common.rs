//! Helpers shared by the value-universe properties.

use crate::engine::Local;
use crate::model::shrink::{shape_sig, shrink};
use crate::model::v::{to_json, V};
use serde_json::{json, Value as J};

pub type Verdict = Result<(), (String, String)>;

/// "non-trivial" for the codec properties: the value contains a container, a unit, a zone, or a
/// character outside [A-Za-z0-9 ].
pub fn nontrivial_value(v: &V) -> bool {
    let mut nt = false;
    v.walk(&mut |x| {
        let plain = |s: &str| s.chars().all(|c| c.is_ascii_alphanumeric() || c == ' ');
        match x {
            V::List(_) | V::Dict(_) | V::Grid(_) | V::DateTime(_) | V::Num(_, Some(_)) => nt = true,
            V::Str(s) | V::Uri(s) | V::Sym(s) | V::XStr(_, s) => {
                if !plain(s) {
                    nt = true
                }
            }
            V::Ref(id, d) => {
                if !plain(id) || d.as_ref().map_or(false, |d| !plain(d)) {
                    nt = true
                }
            }
            _ => {}
        }
    });
    nt
}

/// Evaluate `f` on `v`; on failure minimise the value and record the failure under the
/// signature `<stage>:<shape of the minimal value>`.
pub fn check_value(v: &V, local: &mut Local, well_formed: bool, f: &dyn Fn(&V) -> Verdict) {
    local.eval();
    if nontrivial_value(v) {
        local.nontrivial(&v.key());
    }
    match f(v) {
        Ok(()) => {
            local.outcome("ok");
        }
        Err(_) => {
            let min = shrink(v, well_formed, &|c| f(c).is_err());
            let (stage, detail) = f(&min).err().expect("minimal value must still fail");
            let sig = format!("{stage}:{}", shape_sig(&min));
            local.outcome(&stage);
            local.fail(&sig, json!({"value": to_json(&min)}), detail);
        }
    }
}

/// Replay of a `{"value": …}` case.
pub fn replay_value(case: &J, f: &dyn Fn(&V) -> Verdict) -> Verdict {
    let v = crate::model::v::from_json(&case["value"]);
    match f(&v) {
        Ok(()) => Ok(()),
        Err((stage, detail)) => Err((format!("{stage}:{}", shape_sig(&v)), detail)),
    }
}

pub fn sample_values(local: &mut Local, vals: &[&V]) {
    for v in vals {
        local.samples.push(to_json(v));
    }
}
