//! C14 — namespace caches are invisible: answers ignore query history and thread schedule
//! (DESIGN §5 C14). C14-H: explicit-state search (E3) over cache states under sequential query
//! histories, on the genuine DashMap and on the Shim (binding the lock model to the real thing).
//! C14-S: every interleaving (E4+E2, preemption-bounded) of 2-3 threads running the real
//! namespace code over the Shim, for several shard partitions and warm-up states.

use super::c13::grid_of;
use super::common::Verdict;
use crate::engine::choice::{explore, Chooser};
use crate::engine::isolate::{run_job, ChildCtx, Job};
use crate::engine::sched::run_threads;
use crate::engine::{guarded, hash_str, par_for, Local, Run, Tier};
use crate::model::defs_ref::RefNs;
use crate::model::v::{mk_tags, to_lib, Tags, V};
use libhaystack::defs::namespace::{DefDict, Namespace};
use libhaystack::val::{Dict, Ref, Symbol, Value};
use libhaystack::verif_hooks as hooks;
use serde_json::{json, Value as J};
use std::cell::RefCell;
use std::collections::{BTreeMap, BTreeSet};
use std::sync::Arc;

// ------------------------------------------------------------------------------ scenario

fn sym_list(v: &[&str]) -> V {
    V::List(v.iter().map(|s| V::Sym(s.to_string())).collect())
}

pub fn scenario_rows() -> Vec<Tags> {
    let def = |name: &str, is_: &[&str], extra: Vec<(&str, V)>| {
        let mut t = vec![("def", V::Sym(name.into())), ("is", sym_list(is_))];
        t.extend(extra);
        mk_tags(&t)
    };
    vec![
        def("a", &[], vec![]),
        def("b", &["a"], vec![]),
        def("c", &["a"], vec![]),
        def("d", &["b", "c"], vec![]),
        def("entity", &[], vec![]),
        // prototypes given as text, the way the Project Haystack defs give them
        def("e2", &["entity"], vec![("children", V::str("pt point\n// a comment\n\n  eq equip b:\"x\"\nnot a tag line {\n"))]),
        def("b-c", &["e2"], vec![]),
        def("relationship", &[], vec![]),
        def("rel", &["relationship"], vec![("transitive", V::Marker)]),
        def("xRef", &[], vec![("rel", V::Sym("a".into()))]),
        def("association", &[], vec![]),
        def("tagOn", &["association"], vec![]),
        def("tags", &["association"], vec![("computedFromReciprocal", V::Marker), ("reciprocalOf", V::Sym("tagOn".into()))]),
        def("t1", &[], vec![("tagOn", sym_list(&["a"]))]),
        def("mand", &[], vec![("mandatory", V::Marker)]),
        def("m2", &["mand", "d"], vec![]),
        def("is", &["association"], vec![]),
        def("quantityOf", &["association"], vec![]),
        def("quantities", &["association"], vec![("computedFromReciprocal", V::Marker), ("reciprocalOf", V::Sym("quantityOf".into()))]),
        def("q1", &[], vec![("quantityOf", sym_list(&["a", "entity"]))]),
        def("t2", &[], vec![("tagOn", sym_list(&["entity"]))]),
        def(
            "plant",
            &["entity"],
            vec![("children", V::List(vec![V::dict(&[("pt", V::Marker)]), V::dict(&[("eq", V::Marker), ("b", V::Marker)])])), ("childrenFlatten", sym_list(&["a", "zz"]))],
        ),
    ]
}

#[derive(Clone, Debug)]
pub enum Q {
    Supertypes(&'static str),
    AllSupertypes(&'static str),
    Inheritance(&'static str),
    Fits(&'static str, &'static str),
    Reflect(&'static [&'static str]),
    ReflectFits(&'static [&'static str], &'static str),
    DefOfDict(&'static [&'static str]),
    Tags(&'static str),
    Implementation(&'static str),
    /// has_relationship(subject {xRef:@<first>}, rel, term, target) with refs chained r1->r2->r1
    HasRel(Option<&'static str>, Option<&'static str>),
    Protos(&'static [&'static str]),
    Is(&'static str),
    TagOn(&'static str),
    AllSubtypes(&'static str),
    FitsWrappers(&'static str),
    Assoc(&'static str, &'static str),
    /// n look-ups of n distinct symbols that no def names (a deployment with many custom tags):
    /// fills both caches with n entries; the answer is a digest
    Volume(usize),
}

/// the 10-query core (first) followed by the rest of the alphabet
pub fn queries() -> Vec<Q> {
    vec![
        Q::Supertypes("d"),
        Q::Supertypes("b"),
        Q::Inheritance("d"),
        Q::Inheritance("b"),
        Q::Fits("d", "a"),
        Q::Reflect(&["b", "c"]),
        Q::AllSupertypes("d"),
        Q::HasRel(Some("a"), Some("r2")),
        Q::Tags("d"),
        Q::Fits("b-c", "entity"),
        // ---- rest
        Q::Supertypes("zz"),
        Q::Supertypes("a"),
        Q::AllSupertypes("e2"),
        Q::AllSupertypes("m2"),
        Q::Inheritance("b-c"),
        Q::Inheritance("zz"),
        Q::Inheritance("rel"),
        Q::Fits("d", "e2"),
        Q::Fits("a", "d"),
        Q::Fits("zz", "a"),
        Q::Reflect(&["d", "e2"]),
        Q::Reflect(&[]),
        Q::ReflectFits(&["b", "c"], "entity"),
        Q::ReflectFits(&["m2"], "a"),
        Q::DefOfDict(&["b", "c"]),
        Q::DefOfDict(&["e2", "b", "c"]),
        Q::Tags("a"),
        Q::Implementation("m2"),
        Q::HasRel(None, None),
        Q::HasRel(Some("d"), None),
        Q::Protos(&["plant", "d", "e2"]),
        Q::Protos(&["m2"]),
        Q::Is("d"),
        Q::TagOn("t1"),
        Q::AllSubtypes("a"),
        Q::FitsWrappers("b-c"),
        Q::Assoc("d", "quantities"),
        Q::Assoc("d", "tags"),
        Q::Assoc("b-c", "quantities"),
        Q::Assoc("q1", "quantityOf"),
        // ---- not part of the history search (each call adds a thousand cache entries)
        Q::Inheritance(""),
        Q::Supertypes(""),
        Q::Fits("", "a"),
        Q::Volume(1100),
    ]
}
pub const CORE: usize = 10;
/// the last EXTRA queries are used by the volume histories only
pub const EXTRA: usize = 4;

fn marker_dict(tags: &[&str]) -> Dict {
    let t: Vec<(&str, V)> = tags.iter().map(|k| (*k, V::Marker)).collect();
    match to_lib(&V::Dict(mk_tags(&t))) {
        Value::Dict(d) => d,
        _ => unreachable!(),
    }
}

fn names(defs: &[&Dict]) -> String {
    let mut v: Vec<String> = defs.iter().map(|d| d.def_name().clone()).collect();
    v.sort();
    v.join(",")
}

/// execute one query on the real namespace; the answer in canonical text form
pub fn run_query(ns: &'static Namespace<'static>, q: &Q) -> String {
    match q {
        Q::Supertypes(s) => names(&ns.supertypes_of(&Symbol::from(*s))),
        Q::AllSupertypes(s) => names(&ns.all_supertypes_of(&Symbol::from(*s))),
        Q::Inheritance(s) => names(&ns.inheritance(&Symbol::from(*s))),
        Q::Fits(a, b) => ns.fits(&Symbol::from(*a), &Symbol::from(*b)).to_string(),
        Q::Reflect(tags) => {
            let d = marker_dict(tags);
            let r = ns.reflect(&d);
            format!("{} / entity={}", names(&r.defs), r.entity_type.def_name())
        }
        Q::ReflectFits(tags, s) => {
            let d = marker_dict(tags);
            ns.reflect(&d).fits(&Symbol::from(*s)).to_string()
        }
        Q::DefOfDict(tags) => {
            let d = marker_dict(tags);
            // def_of_dict(subject) = reflect(subject).entity_type (the former wants a 'static subject)
            ns.reflect(&d).entity_type.def_name().clone()
        }
        Q::Tags(s) => names(&ns.tags(&Symbol::from(*s))),
        Q::Implementation(s) => names(&ns.implementation(&Symbol::from(*s))),
        Q::Protos(tags) => {
            let d = marker_dict(tags);
            let mut p: Vec<String> = ns.protos(&d).iter().map(|x| format!("{:?}", crate::model::v::from_lib(&Value::Dict(x.clone())))).collect();
            p.sort();
            p.join(";")
        }
        Q::Is(s) => names(&ns.is(&Symbol::from(*s))),
        Q::TagOn(s) => names(&ns.tag_on(&Symbol::from(*s))),
        Q::AllSubtypes(s) => format!("{} / direct={} / has={}", names(&ns.all_subtypes_of(&Symbol::from(*s))), ns.subtypes_of(&Symbol::from(*s)).len(), ns.has_subtype(&Symbol::from(*s))),
        Q::FitsWrappers(s) => {
            let y = Symbol::from(*s);
            format!("{}{}{}{}", ns.fits_marker(&y), ns.fits_val(&y), ns.fits_choice(&y), ns.fits_entity(&y))
        }
        Q::Assoc(parent, assoc) => names(&ns.associations(&Symbol::from(*parent), &Symbol::from(*assoc))),
        Q::Volume(n) => {
            let (mut fit, mut len) = (0usize, 0usize);
            for i in 0..*n {
                let y = Symbol::from(format!("vol{i}").as_str());
                if ns.fits(&y, &Symbol::from("a")) {
                    fit += 1;
                }
                len += ns.inheritance(&y).len() + ns.supertypes_of(&y).len();
            }
            format!("fits={fit} entries={len}")
        }
        Q::HasRel(term, target) => {
            let r = |id: &str| V::Ref(id.into(), None);
            let mk = |t: &[(&str, V)]| match to_lib(&V::Dict(mk_tags(t))) {
                Value::Dict(d) => d,
                _ => unreachable!(),
            };
            let subject = mk(&[("id", r("me")), ("xRef", r("r1"))]);
            let r1 = mk(&[("id", r("r1")), ("xRef", r("r2"))]);
            let r2 = mk(&[("id", r("r2")), ("xRef", r("r1"))]);
            let resolve = move |x: &Ref| match x.value.as_str() {
                "r1" => Some(r1.clone()),
                "r2" => Some(r2.clone()),
                _ => None,
            };
            ns.has_relationship(&subject, &Symbol::from("rel"), &term.map(Symbol::from), &target.map(|t| Ref::from(t)), &resolve).to_string()
        }
    }
}

/// the graph's answer where the statement defines one
fn ref_answer(r: &RefNs, q: &Q) -> Option<String> {
    let j = |n: crate::model::defs_ref::Names| n.into_iter().collect::<Vec<_>>().join(",");
    match q {
        Q::Supertypes(s) => Some(j(r.supertypes(s))),
        Q::AllSupertypes(s) => Some(j(r.all_supertypes(s))),
        Q::Inheritance(s) => Some(j(r.inheritance(s))),
        Q::Fits(a, b) => Some(r.fits(a, b).to_string()),
        Q::ReflectFits(tags, s) => {
            let t: Vec<(&str, V)> = tags.iter().map(|k| (*k, V::Marker)).collect();
            Some(r.reflection_fits(&mk_tags(&t), s).to_string())
        }
        _ => None,
    }
}

// ------------------------------------------------------------------------------ namespaces

thread_local! {
    /// shard of (map ordinal, key hash) for the Shim maps used by this thread
    static PARTITION: RefCell<Arc<BTreeMap<(usize, u64), usize>>> = RefCell::new(Arc::new(BTreeMap::new()));
}

fn shard_of(map: usize, key_hash: u64) -> usize {
    PARTITION.with(|p| p.borrow().get(&(map, key_hash)).copied().unwrap_or(0))
}

const SHARDS: usize = 16;

pub struct NsBox {
    ptr: *mut Namespace<'static>,
}
unsafe impl Send for NsBox {}
impl NsBox {
    pub fn new(mode: hooks::Mode) -> NsBox {
        hooks::set_mode(mode);
        hooks::set_shim_config(hooks::ShimConfig { shards: SHARDS, shard_of, lock_base: 0 });
        thread_local! {
            static GRID: libhaystack::val::Grid = grid_of(&scenario_rows());
        }
        let ns = Namespace::make(GRID.with(|g| g.clone()));
        hooks::set_mode(hooks::Mode::Real);
        NsBox { ptr: Box::into_raw(Box::new(ns)) }
    }
    pub fn get(&self) -> &'static Namespace<'static> {
        unsafe { &*self.ptr }
    }
    /// a namespace over other rows (C14-T)
    pub fn from_rows(mode: hooks::Mode, rows: &[Tags]) -> NsBox {
        hooks::set_mode(mode);
        hooks::set_shim_config(hooks::ShimConfig { shards: SHARDS, shard_of, lock_base: 0 });
        let ns = Namespace::make(grid_of(rows));
        hooks::set_mode(hooks::Mode::Real);
        NsBox { ptr: Box::into_raw(Box::new(ns)) }
    }
}

/// the scenario with a different taxonomy under the same names: d is only a b, b is a root,
/// the relationship is not transitive, the associations point elsewhere, other prototypes
pub fn scenario_rows_variant() -> Vec<Tags> {
    let mut rows = scenario_rows();
    let set = |rows: &mut Vec<Tags>, name: &str, key: &str, val: Option<V>| {
        for r in rows.iter_mut() {
            if r.iter().any(|(k, v)| k == "def" && matches!(v, V::Sym(n) if n == name)) {
                r.retain(|(k, _)| k != key);
                if let Some(v) = &val {
                    r.push((key.to_string(), v.clone()));
                }
                r.sort_by(|a, b| a.0.cmp(&b.0));
            }
        }
    };
    set(&mut rows, "d", "is", Some(sym_list(&["b"])));
    set(&mut rows, "b", "is", Some(sym_list(&[])));
    set(&mut rows, "rel", "transitive", None);
    set(&mut rows, "t1", "tagOn", Some(sym_list(&["entity"])));
    set(&mut rows, "t2", "tagOn", Some(sym_list(&["a", "d"])));
    set(&mut rows, "q1", "quantityOf", Some(sym_list(&["d"])));
    set(&mut rows, "m2", "is", Some(sym_list(&["c"])));
    set(&mut rows, "plant", "children", Some(V::List(vec![V::dict(&[("eq", V::Marker)])])));
    set(&mut rows, "plant", "childrenFlatten", Some(sym_list(&["entity"])));
    set(&mut rows, "b-c", "is", Some(sym_list(&["a"])));
    set(&mut rows, "e2", "children", Some(V::str("fan equip\ndamper equip d")));
    rows
}

/// C14-T: two namespaces with the same def names and different taxonomies, alive together and
/// queried alternately (one scheduled thread over the Shim): q_i on the first, q_j on the second,
/// q_i on the second, q_j on the first. Returns the four answers.
fn two_namespace_history(i: usize, j: usize, part: &Arc<Partition>) -> Result<Vec<String>, String> {
    let (b1, b2) = (NsBox::new(hooks::Mode::Shim), NsBox::from_rows(hooks::Mode::Shim, &scenario_rows_variant()));
    let (n1, n2) = (b1.get(), b2.get());
    let p2 = part.clone();
    let body: Box<dyn FnOnce() -> Vec<String> + Send> = Box::new(move || {
        let qs = queries();
        vec![run_query(n1, &qs[i]), run_query(n2, &qs[j]), run_query(n2, &qs[i]), run_query(n1, &qs[j])]
    });
    let setup: Arc<dyn Fn() + Send + Sync> = Arc::new(move || PARTITION.with(|x| *x.borrow_mut() = p2.clone()));
    let (ex, _ch) = run_threads(Chooser::replaying(vec![]), vec![body], setup);
    if let Some(d) = ex.deadlock {
        return Err(d);
    }
    ex.results.into_iter().next().unwrap()
}

fn cold_answers_variant(part: &Arc<Partition>) -> Result<Vec<String>, String> {
    let n = queries().len() - EXTRA;
    (0..n)
        .map(|i| {
            let b = NsBox::from_rows(hooks::Mode::Shim, &scenario_rows_variant());
            let ns = b.get();
            let p2 = part.clone();
            let body: Box<dyn FnOnce() -> String + Send> = Box::new(move || run_query(ns, &queries()[i]));
            let setup: Arc<dyn Fn() + Send + Sync> = Arc::new(move || PARTITION.with(|x| *x.borrow_mut() = p2.clone()));
            let (ex, _ch) = run_threads(Chooser::replaying(vec![]), vec![body], setup);
            if let Some(d) = ex.deadlock {
                return Err(d);
            }
            ex.results.into_iter().next().unwrap()
        })
        .collect()
}

/// the variant's cold answers, computed in a fresh child process (state that is global to the
/// process — a static memo keyed by def name — would otherwise already be in the baseline)
fn cold_variant_from_child() -> Result<Vec<String>, String> {
    let describe = |_o: u64| json!({"two_namespaces": [0, 0]});
    let job = Job { prop: "C14", tier: "quick", job: "cold-variant", n: 1, chunk: 1, env: vec![], exe: None, describe: &describe };
    let l = run_job(&job);
    if let Some(f) = l.fails.values().next() {
        return Err(format!("{}: {}", f.sig, f.detail));
    }
    l.samples
        .iter()
        .find_map(|s| s["cold_variant"].as_array().map(|a| a.iter().map(|x| x.as_str().unwrap_or("").to_string()).collect()))
        .ok_or_else(|| "the child did not return the variant's cold answers".to_string())
}

fn two_namespace_case(i: usize, j: usize, cold: &[String], cold2: &[String], part: &Arc<Partition>) -> Verdict {
    let a = with_partition(part, || two_namespace_history(i, j, part)).map_err(|e| ("history-panic:two-namespaces".to_string(), e))?;
    let want = [&cold[i], &cold2[j], &cold2[i], &cold[j]];
    for (k, (got, w)) in a.iter().zip(want.iter()).enumerate() {
        if got != *w {
            let qs = queries();
            return Err(("other-namespace-changes-answer".into(), format!("two namespaces alive (same names, different taxonomies), queries {:?} and {:?} alternately: answer #{k} is {got:?}, that namespace alone answers {w:?}", qs[i], qs[j])));
        }
    }
    Ok(())
}
impl Drop for NsBox {
    fn drop(&mut self) {
        unsafe { drop(Box::from_raw(self.ptr)) }
    }
}

type Snapshot = Vec<(&'static str, String, Vec<String>)>;

fn snap_key(s: &Snapshot) -> String {
    format!("{s:?}")
}

/// partition spec: for each map (0 = supertypes, 1 = inheritance) a list of key groups
pub type Partition = BTreeMap<(usize, u64), usize>;

fn key_names() -> Vec<&'static str> {
    vec!["a", "b", "c", "d", "entity", "e2", "b-c", "relationship", "rel", "xRef", "association", "tagOn", "tags", "t1", "mand", "m2", "zz", "is", "plant", "marker", "val", "choice", "pt", "eq", "quantityOf", "quantities", "q1", "t2"]
}

/// all keys of both maps in one shard each (`one`), or every key in its own shard
fn partition_extreme(one: bool) -> Partition {
    let mut p = Partition::new();
    for map in 0..2 {
        for (i, k) in key_names().iter().enumerate() {
            p.insert((map, hooks::key_hash(&Symbol::from(*k))), if one { 0 } else { i % SHARDS });
        }
    }
    p
}

/// partitions of a set of n items (restricted growth strings)
fn set_partitions(n: usize) -> Vec<Vec<usize>> {
    fn rec(i: usize, n: usize, cur: &mut Vec<usize>, max: usize, out: &mut Vec<Vec<usize>>) {
        if i == n {
            out.push(cur.clone());
            return;
        }
        for b in 0..=max {
            cur.push(b);
            rec(i + 1, n, cur, max.max(b + 1), out);
            cur.pop();
        }
    }
    let mut out = vec![];
    rec(0, n, &mut vec![], 0, &mut out);
    out
}

fn with_partition<T>(p: &Arc<Partition>, f: impl FnOnce() -> T) -> T {
    PARTITION.with(|x| *x.borrow_mut() = p.clone());
    f()
}

// ------------------------------------------------------------------------------ cold answers

/// the answer of each query on a cold namespace, alone. Computed over the Shim as a single
/// scheduled thread (all keys in one shard) so that a self-deadlock is reported instead of
/// blocking this process inside the genuine DashMap.
pub fn cold_answers() -> Result<Vec<String>, (String, String)> {
    let part = Arc::new(partition_extreme(true));
    let mut out = vec![];
    for (i, q) in queries().iter().enumerate() {
        match with_partition(&part, || run_history(hooks::Mode::Shim, &[i], &part)) {
            Ok((a, _)) => out.push(a[0].clone()),
            Err(e) => {
                let stage = if e.starts_with("deadlock") { "cold-query-deadlock" } else { "cold-query-panic" };
                return Err((stage.to_string(), format!("query {q:?} on a cold namespace: {e}")));
            }
        }
    }
    Ok(out)
}

// ------------------------------------------------------------------------------ C14-H histories

#[derive(Default)]
pub struct HistResult {
    pub states: BTreeMap<String, Vec<usize>>, // snapshot key -> shortest history
    pub transitions: BTreeMap<(String, usize), String>,
    pub failure: Option<(String, Vec<usize>, String)>,
}

/// one sequential history on a fresh namespace; returns per-step answers and the final snapshot.
/// With the Shim back end the history runs as a single scheduled thread so that a self-deadlock
/// (read guard held across an insert into the same shard) is detected.
fn run_history(mode: hooks::Mode, hist: &[usize], part: &Arc<Partition>) -> Result<(Vec<String>, Snapshot), String> {
    let qs = queries();
    let nsb = NsBox::new(mode);
    let ns = nsb.get();
    match mode {
        hooks::Mode::Real => {
            let mut answers = vec![];
            for &i in hist {
                answers.push(guarded(|| run_query(ns, &qs[i])).map_err(|p| format!("panic: {p}"))?);
            }
            Ok((answers, ns.verif_cache_snapshot()))
        }
        hooks::Mode::Shim => {
            let h: Vec<usize> = hist.to_vec();
            let p2 = part.clone();
            let body: Box<dyn FnOnce() -> Vec<String> + Send> = Box::new(move || {
                let qs = queries();
                h.iter().map(|&i| run_query(ns, &qs[i])).collect()
            });
            let setup: Arc<dyn Fn() + Send + Sync> = Arc::new(move || PARTITION.with(|x| *x.borrow_mut() = p2.clone()));
            let (ex, _ch) = run_threads(Chooser::replaying(vec![]), vec![body], setup);
            if let Some(d) = ex.deadlock {
                return Err(d);
            }
            match ex.results.into_iter().next().unwrap() {
                Ok(a) => Ok((a, ns.verif_cache_snapshot())),
                Err(m) => Err(m),
            }
        }
    }
}

pub fn explore_histories(mode: hooks::Mode, cold: &[String], r: &RefNs, max_states: usize) -> HistResult {
    let qs = queries();
    let part = Arc::new(partition_extreme(true));
    let mut res = HistResult::default();
    let empty: Snapshot = vec![];
    res.states.insert(snap_key(&empty), vec![]);
    let mut frontier: std::collections::VecDeque<(String, Vec<usize>)> = std::collections::VecDeque::new();
    frontier.push_back((snap_key(&empty), vec![]));
    while let Some((skey, hist)) = frontier.pop_front() {
        for qi in 0..qs.len() - EXTRA {
            let mut h = hist.clone();
            h.push(qi);
            match with_partition(&part, || run_history(mode, &h, &part)) {
                Err(e) => {
                    let stage = if e.starts_with("deadlock") { "history-deadlock" } else { "history-panic" };
                    res.failure = Some((stage.into(), h, e));
                    return res;
                }
                Ok((answers, snap)) => {
                    let a = answers.last().unwrap();
                    if *a != cold[qi] {
                        res.failure = Some(("history-changes-answer".into(), h.clone(), format!("query {:?} after history {:?} answers {a:?}, cold answer {:?}", qs[qi], hist, cold[qi])));
                        return res;
                    }
                    if let Some(want) = ref_answer(r, &qs[qi]) {
                        if *a != want {
                            res.failure = Some(("answer-differs-from-graph".into(), h.clone(), format!("query {:?} answers {a:?}, graph says {want:?}", qs[qi])));
                            return res;
                        }
                    }
                    let nk = snap_key(&snap);
                    res.transitions.insert((skey.clone(), qi), nk.clone());
                    if !res.states.contains_key(&nk) {
                        if res.states.len() >= max_states {
                            continue;
                        }
                        res.states.insert(nk.clone(), h.clone());
                        frontier.push_back((nk, h));
                    }
                }
            }
        }
    }
    res
}

fn hist_digest(h: &HistResult) -> String {
    format!("{:016x}", hash_str(&format!("{:?}", h.transitions)))
}

// ------------------------------------------------------------------------------ C14-S schedules

#[derive(Clone, Debug)]
pub struct Scenario {
    /// queries run sequentially before the threads start (warm-up state)
    pub warm: Vec<usize>,
    /// per thread: the queries it issues
    pub threads: Vec<Vec<usize>>,
}

#[derive(Clone, Debug)]
pub struct SchedFail {
    pub sig: String,
    pub choices: Vec<u32>,
    pub detail: String,
}

#[derive(Default, Clone, Debug)]
pub struct SchedStats {
    pub executions: u64,
    pub max_points: usize,
    pub blocked_execs: u64,
    pub double_miss_execs: u64,
    pub final_states: BTreeSet<String>,
    pub interleavings: BTreeSet<u64>,
    pub capped: bool,
}

/// one execution of a scenario under the choices of `ch`
fn execute(sc: &Scenario, part: &Arc<Partition>, ch: Chooser, cold: &[String], known_entries: Option<&BTreeSet<String>>) -> (Result<(), (String, String)>, Chooser, u64, bool, bool, String) {
    let nsb = NsBox::new(hooks::Mode::Shim);
    let ns = nsb.get();
    let qs = queries();
    // warm-up, sequentially in this thread (no scheduler: uncontended)
    with_partition(part, || {
        for &w in &sc.warm {
            let _ = run_query(ns, &qs[w]);
        }
    });
    let bodies: Vec<Box<dyn FnOnce() -> Vec<String> + Send>> = sc
        .threads
        .iter()
        .map(|list| {
            let list = list.clone();
            let b: Box<dyn FnOnce() -> Vec<String> + Send> = Box::new(move || {
                let qs = queries();
                list.iter().map(|&i| run_query(ns, &qs[i])).collect()
            });
            b
        })
        .collect();
    let p2 = part.clone();
    let setup: Arc<dyn Fn() + Send + Sync> = Arc::new(move || PARTITION.with(|x| *x.borrow_mut() = p2.clone()));
    let (ex, ch) = run_threads(ch, bodies, setup);
    let inter = hash_str(&format!("{:?}", ex.events.iter().map(|e| (e.tid, e.lock, e.exclusive)).collect::<Vec<_>>()));
    // two different threads inserted into the same shard: both missed (or at least both computed)
    let mut writers: BTreeMap<usize, BTreeSet<usize>> = BTreeMap::new();
    for e in &ex.events {
        if e.exclusive {
            writers.entry(e.lock).or_default().insert(e.tid);
        }
    }
    let double_miss = writers.values().any(|s| s.len() > 1);
    let snap = ns.verif_cache_snapshot();
    let verdict = (|| {
        if let Some(d) = &ex.deadlock {
            return Err(("deadlock".to_string(), d.clone()));
        }
        for (t, r) in ex.results.iter().enumerate() {
            match r {
                Err(m) => return Err(("thread-panic".to_string(), format!("thread {t}: {m}"))),
                Ok(answers) => {
                    for (k, a) in answers.iter().enumerate() {
                        let qi = sc.threads[t][k];
                        if *a != cold[qi] {
                            return Err(("schedule-changes-answer".to_string(), format!("thread {t} query {:?} answered {a:?}, alone it answers {:?}", qs[qi], cold[qi])));
                        }
                    }
                }
            }
        }
        if let Some(known) = known_entries {
            for e in &snap {
                let k = format!("{e:?}");
                if !known.contains(&k) {
                    return Err(("cache-entry-unknown-to-sequential-runs".to_string(), format!("final cache holds {k}, which no sequential history produces")));
                }
            }
        }
        Ok(())
    })();
    (verdict, ch, inter, ex.blocked > 0, double_miss, snap_key(&snap))
}

pub fn explore_scenario(sc: &Scenario, part: &Arc<Partition>, bound: Option<usize>, cap: u64, cold: &[String], known: Option<&BTreeSet<String>>) -> (Option<SchedFail>, SchedStats) {
    let mut stats = SchedStats::default();
    let mut fail: Option<SchedFail> = None;
    let st = explore(bound, cap, |ch| {
        // the chooser travels into the scheduler and back
        let c = std::mem::replace(ch, Chooser::replaying(vec![]));
        let (verdict, back, inter, blocked, dm, fin) = execute(sc, part, c, cold, known);
        *ch = back;
        stats.interleavings.insert(inter);
        if blocked {
            stats.blocked_execs += 1;
        }
        if dm {
            stats.double_miss_execs += 1;
        }
        stats.final_states.insert(fin);
        match verdict {
            Ok(()) => true,
            Err((sig, detail)) => {
                fail = Some(SchedFail { sig, choices: ch.choices(), detail });
                false
            }
        }
    });
    stats.executions = st.executions;
    stats.max_points = st.max_points;
    stats.capped = st.capped;
    (fail, stats)
}

fn scenario_json(sc: &Scenario, part_name: &str, choices: &[u32]) -> J {
    let qs = queries();
    json!({
        "warm": sc.warm, "threads": sc.threads, "partition": part_name, "choices": choices,
        "queries": sc.threads.iter().map(|t| t.iter().map(|&i| format!("{:?}", qs[i])).collect::<Vec<_>>()).collect::<Vec<_>>(),
    })
}

fn named_partitions(tier: Tier, sc: &Scenario) -> Vec<(String, Arc<Partition>)> {
    let mut out = vec![("all-keys-one-shard".to_string(), Arc::new(partition_extreme(true))), ("each-key-own-shard".to_string(), Arc::new(partition_extreme(false)))];
    if tier == Tier::Thorough {
        // every partition of the supertypes-cache keys the scenario touches (<= 5 keys), crossed
        // with the two extremes for the inheritance cache
        let touched: Vec<String> = {
            // Shim without a scheduler: lock operations are no-ops, nothing can block this process
            let nsb = NsBox::new(hooks::Mode::Shim);
            let qs = queries();
            for &w in sc.warm.iter().chain(sc.threads.iter().flatten()) {
                let _ = run_query(nsb.get(), &qs[w]);
            }
            nsb.get().verif_cache_snapshot().iter().filter(|e| e.0 == "supertypes").map(|e| e.1.clone()).collect()
        };
        if touched.len() >= 2 && touched.len() <= 5 {
            for (pi, p) in set_partitions(touched.len()).into_iter().enumerate() {
                for inh_one in [true, false] {
                    let mut part = partition_extreme(inh_one);
                    for (k, shard) in touched.iter().zip(p.iter()) {
                        part.insert((0, hooks::key_hash(&Symbol::from(k.as_str()))), *shard);
                    }
                    out.push((format!("supertypes-partition-{pi}-of-{:?}/inheritance-{}", touched, if inh_one { "one" } else { "own" }), Arc::new(part)));
                }
            }
        }
    }
    out
}

pub fn scenarios(tier: Tier) -> Vec<Scenario> {
    let mut out = vec![];
    let warms: Vec<Vec<usize>> = {
        let mut w = vec![vec![]];
        for i in [0usize, 2, 5] {
            w.push(vec![i]);
        }
        if tier == Tier::Thorough {
            for i in [1usize, 3, 4, 6, 7, 8, 9] {
                w.push(vec![i]);
            }
        }
        w
    };
    // (a) two threads, one query each: all unordered pairs (incl. the same query twice)
    for i in 0..CORE {
        for j in i..CORE {
            for w in &warms {
                out.push(Scenario { warm: w.clone(), threads: vec![vec![i], vec![j]] });
            }
        }
    }
    // (b) two threads, two queries each: the second query of one reads what the first of the other fills
    let seqs: Vec<(usize, usize)> = vec![(0, 2), (2, 0), (1, 3), (3, 4), (4, 5), (5, 2), (6, 3), (2, 8), (8, 7), (9, 5)];
    for (k, a) in seqs.iter().enumerate() {
        for b in seqs.iter().skip(k).step_by(tier.pick(3, 1)) {
            out.push(Scenario { warm: vec![], threads: vec![vec![a.0, a.1], vec![b.0, b.1]] });
        }
    }
    // (a') two threads, one query each, after the volume warm-up (the caches hold 1100 entries)
    let vol = queries().len() - 1;
    for i in 0..CORE {
        for j in i..CORE {
            if tier == Tier::Thorough || j == i || j == i + 1 {
                out.push(Scenario { warm: vec![vol], threads: vec![vec![i], vec![j]] });
            }
        }
    }
    // (c) three threads, one query each: all multisets of the core
    for i in 0..CORE {
        for j in i..CORE {
            for k in j..CORE {
                out.push(Scenario { warm: vec![], threads: vec![vec![i], vec![j], vec![k]] });
            }
        }
    }
    out
}

fn known_entries(h: &HistResult, mode_states: &BTreeMap<String, Vec<usize>>) -> BTreeSet<String> {
    // every cache entry that occurs in some state of the sequential closure
    let _ = h;
    let mut out = BTreeSet::new();
    let part = Arc::new(partition_extreme(true));
    // ... and after the volume warm-up
    let vol = vec![queries().len() - 1];
    for hist in mode_states.values().chain(std::iter::once(&vol)) {
        if let Ok((_, snap)) = with_partition(&part, || run_history(hooks::Mode::Shim, hist, &part)) {
            for e in snap {
                out.insert(format!("{e:?}"));
            }
        }
    }
    out
}

// ------------------------------------------------------------------------------ run

pub fn child(_tier: Tier, job: String, _start: u64, _end: u64, ctx: &mut ChildCtx, local: &mut Local) {
    // the Real-DashMap history search runs isolated: a guard held across an insert into the same
    // shard self-deadlocks inside the genuine DashMap and is seen by the parent as a hang
    ctx.begin(0);
    if job == "cold-variant" {
        // the variant namespace's answers from a process that has never seen the other namespace
        let part = Arc::new(partition_extreme(true));
        match with_partition(&part, || cold_answers_variant(&part)) {
            Ok(a) => local.samples.push(json!({"cold_variant": a})),
            Err(e) => local.fail("history-panic:two-namespaces", json!({"two_namespaces": [0, 0]}), e),
        }
        return;
    }
    if job.starts_with("free:") {
        let (threads, millis) = free_running_params(&job);
        let (done, bad) = free_running(threads, millis);
        local.evals += done;
        local.count_n("free-running-queries", done);
        if let Some((_k, d)) = bad {
            local.fail("free-running:schedule-changes-answer", json!({"free_running": job}), d);
        }
        return;
    }
    if job == "hist-real" {
        let cold: Vec<String> = queries()
            .iter()
            .map(|q| {
                let b = NsBox::new(hooks::Mode::Real);
                run_query(b.get(), q)
            })
            .collect();
        let r = RefNs::make(&scenario_rows());
        let h = explore_histories(hooks::Mode::Real, &cold, &r, 100_000);
        local.evals += h.transitions.len() as u64;
        local.count_n("real-states", h.states.len() as u64);
        local.count_n("real-transitions", h.transitions.len() as u64);
        local.count(&format!("real-digest-{}", hist_digest(&h)));
        if let Some((sig, hist, d)) = h.failure {
            local.fail(&format!("{sig}:real-dashmap"), json!({"history": hist, "backend": "real"}), d);
        }
    }
}

/// C14-F, the free-running pass (NOT exhaustive; supplementary to C14-S): the same query bodies on
/// real OS threads over one shared namespace with the genuine DashMap, for a fixed time. The
/// cooperative scheduler of C14-S can only switch threads at shard-lock operations; shared state
/// that is reached without a lock (a memo in atomics, a plain cell) is invisible to it, and is
/// what this pass is for. Returns (queries answered, first wrong answer).
fn free_running(threads: usize, millis: u64) -> (u64, Option<(usize, String)>) {
    let qs = queries();
    let n = qs.len() - EXTRA;
    let cold: Vec<String> = qs[..n]
        .iter()
        .map(|q| {
            let b = NsBox::new(hooks::Mode::Real);
            run_query(b.get(), q)
        })
        .collect();
    // many short rounds, each on a FRESH namespace (races at the first fill of a cache entry have
    // one window per namespace), all threads released together by a barrier
    let total = std::sync::atomic::AtomicU64::new(0);
    let bad: std::sync::Mutex<Option<(usize, String)>> = std::sync::Mutex::new(None);
    let t0 = std::time::Instant::now();
    let mut round = 0usize;
    while t0.elapsed().as_millis() < millis as u128 && bad.lock().unwrap().is_none() {
        round += 1;
        let nsb = NsBox::new(hooks::Mode::Real);
        let ns = nsb.get();
        let barrier = std::sync::Barrier::new(threads);
        std::thread::scope(|sc| {
            for t in 0..threads {
                let (qs, cold, total, bad, barrier) = (&qs, &cold, &total, &bad, &barrier);
                sc.spawn(move || {
                    barrier.wait();
                    let mut done = 0u64;
                    // thread t walks the queries with its own stride and phase; every third round
                    // all threads start on the same query, and a long round (every 8th) keeps
                    // hammering pairs of neighbouring queries on the warm namespace
                    let stride = 1 + (t + round) % (n - 1);
                    let mut i = if round % 3 == 0 { round % n } else { (t * 7 + round) % n };
                    let laps = if round % 8 == 0 { 6 } else { 1 };
                    'outer: for _ in 0..laps * n {
                        for k in [i, (i + 1 + t) % n, i] {
                            let a = run_query(ns, &qs[k]);
                            done += 1;
                            if a != cold[k] {
                                let mut b = bad.lock().unwrap();
                                if b.is_none() {
                                    *b = Some((k, format!("thread {t} of {threads} (round {round}): query {:?} answered {a:?}, alone it answers {:?}", qs[k], cold[k])));
                                }
                                break 'outer;
                            }
                        }
                        i = (i + stride) % n;
                    }
                    total.fetch_add(done, std::sync::atomic::Ordering::Relaxed);
                });
            }
        });
    }
    let b = bad.lock().unwrap().clone();
    (total.load(std::sync::atomic::Ordering::Relaxed), b)
}

fn free_running_params(job: &str) -> (usize, u64) {
    // "free:<threads>:<millis>"
    let mut it = job.split(':').skip(1);
    (it.next().and_then(|x| x.parse().ok()).unwrap_or(4), it.next().and_then(|x| x.parse().ok()).unwrap_or(1500))
}

pub fn run(tier: Tier) -> i32 {
    let mut run = Run::new("C14", tier, "model_checking");
    run.rule = "subject: the real Namespace code over the hook shim. C14-H (E3): breadth-first search from the cold namespace; transition = one of 40 concrete queries (supertypes_of, all_supertypes_of, inheritance, fits and its four wrappers, reflect, Reflection::fits, def_of_dict, tags, is, tag_on, implementation, protos with flattened children, all_subtypes_of, has_relationship with cyclic refs) on a 22-def scenario namespace (two computed associations) (diamond, conjunct, entity, transitive relationship, reciprocal association, children prototypes) rebuilt by replaying the history; state = cache snapshot; to closure; every answer = cold answer = graph answer; run on the genuine DashMap (isolated child, watchdog) and on the Shim (single scheduled thread, all keys in one shard, so a self-deadlock is seen): both transition graphs must be identical. C14-P: every ordered pair of queries (thorough: every triple) and every query after 12 repetitions of every other one, from the cold namespace, independent of cache snapshots (hidden memos). C14-T: two namespaces with the same def names and different taxonomies alive together, every ordered pair of queries alternately on the one and the other (state keyed by name outside the namespace object). C14-V: every query after 1100 / 2200 look-ups of symbols no def names (volume: more entries than any fixed cache bound) still gives its cold answer. C14-S (E4+E2): scenarios (a) 2 threads x 1 query, all 55 unordered pairs of a 10-query core, from the cold state, from warm states and after the volume warm-up; (b) 2 threads x 2 queries; (c) 3 threads x 1 query, all 220 multisets; for the two extreme shard partitions (thorough: every partition of the touched supertypes keys); every schedule with <= b preemptions (scheduling points: every shard-lock acquisition, thread start/exit). Oracle per execution: no deadlock, no panic, every answer equals the answer given alone, every final cache entry occurs in the sequential closure. C14-F (supplementary, NOT exhaustive — a free-running pass for shared state reached without a shard lock, which the cooperative scheduler cannot preempt): 2 / 8 (thorough 2 / 4 / 16) OS threads answer all queries over one shared namespace with the genuine DashMap for 1.2-1.5 s (thorough 6-15 s), every answer compared with the answer given alone. states = cache states of C14-H + scenario configurations, transitions = history steps + schedules executed".into();
    run.assume("DashMap's own lock is trusted; the Shim models it as a reader-preferring RW lock per shard (shared granted unless a writer holds; exclusive needs the shard free) — read from dashmap-6.1.0/src/lock.rs — and is bound to the genuine DashMap by the identical C14-H transition graphs");
    run.assume("scheduling points at lock acquisitions suffice: all shared data is reached only under those locks");
    run.assume("2 and 3 threads explored exhaustively within the preemption bound; 4-16 threads are out of reach of exhaustive exploration");
    crate::engine::quiet_panics();
    let r = RefNs::make(&scenario_rows());
    let cold = match cold_answers() {
        Ok(c) => c,
        Err((sig, d)) => {
            run.stats.evals += 1;
            run.stats.states += 1;
            run.stats.transitions += 1;
            run.stats.fail(&format!("{sig}:shim"), json!({"history": "single query on a cold namespace", "backend": "cold"}), d);
            return run.finish(&replay);
        }
    };

    // vacuity: the prototype query really flattens tags of the parent into the children
    let qi = queries().iter().position(|q| matches!(q, Q::Protos(t) if t.len() == 3)).unwrap();
    run.note("cold_answer_protos", json!(cold[qi]));
    run.require(cold[qi].contains("\"pt\"") && cold[qi].contains("\"d\""), "protos query does not produce flattened prototypes");
    // ---- C14-H on the Shim (in process), and on the genuine DashMap (isolated child)
    let hs = explore_histories(hooks::Mode::Shim, &cold, &r, 100_000);
    run.stats.states += hs.states.len() as u64;
    run.stats.transitions += hs.transitions.len() as u64;
    run.stats.traces += hs.transitions.len() as u64;
    run.stats.evals += hs.transitions.len() as u64;
    for k in hs.states.keys() {
        run.stats.nontrivial(k);
    }
    run.note("history_states_shim", json!(hs.states.len()));
    run.note("history_transitions_shim", json!(hs.transitions.len()));
    run.note("history_max_depth", json!(hs.states.values().map(|h| h.len()).max().unwrap_or(0)));
    if let Some((sig, hist, d)) = &hs.failure {
        run.stats.fail(&format!("{sig}:shim"), json!({"history": hist, "backend": "shim"}), d.clone());
    }
    let describe = |_o: u64| json!({"history": "search on the genuine DashMap", "backend": "real", "isolated": true});
    let job = Job { prop: "C14", tier: tier.name(), job: "hist-real", n: 1, chunk: 1, env: vec![], exe: None, describe: &describe };
    let lr = run_job(&job);
    let real_digest = lr.counters.keys().find(|k| k.starts_with("real-digest-")).cloned();
    let real_failed = !lr.fails.is_empty();
    run.absorb(lr);
    if hs.failure.is_none() && !real_failed {
        let want = format!("real-digest-{}", hist_digest(&hs));
        if real_digest.as_deref() != Some(want.as_str()) {
            run.stats.fail(
                "shim-and-real-dashmap-disagree",
                json!({"history": "whole search", "backend": "both"}),
                format!("the history search over the Shim ({} states, {} transitions, {want}) and over the genuine DashMap ({} states, {:?}) differ: the lock/shard model is not bound to the real thing", hs.states.len(), hs.transitions.len(), run.counter("real-states"), real_digest),
            );
        }
    }

    // ---- C14-P: every ordered pair (thorough: triple) of queries from the cold namespace,
    // whatever the cache snapshots say (state the snapshot cannot see — a memo outside the two
    // maps — still has to leave every answer unchanged), and every query after 12 repetitions of
    // every other one (hit counters, promotions)
    if hs.failure.is_none() {
        let n = queries().len() - EXTRA;
        let part = Arc::new(partition_extreme(true));
        let l = par_for(n * n, |k, local| {
            let (i, j) = (k / n, k % n);
            let mut hists: Vec<Vec<usize>> = vec![vec![i, j], std::iter::repeat(i).take(12).chain(std::iter::once(j)).collect()];
            if tier == Tier::Thorough {
                for m in 0..n {
                    hists.push(vec![i, m, j]);
                }
            }
            for hist in hists {
                local.eval();
                local.transitions += hist.len() as u64;
                local.count("pair-histories");
                match with_partition(&part, || run_history(hooks::Mode::Shim, &hist, &part)) {
                    Err(e) => local.fail("history-panic:pairs", json!({"history": hist, "backend": "shim", "family": "pairs"}), e),
                    Ok((answers, _)) => {
                        let a = answers.last().unwrap();
                        if *a != cold[j] {
                            local.fail("history-changes-answer:pairs", json!({"history": hist, "backend": "shim", "family": "pairs"}), format!("query {:?} after {:?} answers {a:?}, cold answer {:?}", queries()[j], hist[..hist.len() - 1].iter().map(|q| format!("{:?}", queries()[*q])).collect::<Vec<_>>(), cold[j]));
                        }
                    }
                }
            }
        });
        run.absorb(l);
    }

    // ---- C14-T: two namespaces with the same names and different taxonomies alive together
    if hs.failure.is_none() {
        let n = queries().len() - EXTRA;
        let part = Arc::new(partition_extreme(true));
        match cold_variant_from_child() {
            Err(e) => run.stats.fail("history-panic:two-namespaces", json!({"two_namespaces": [0, 0]}), e),
            Ok(cold2) => {
                let differing = (0..n).filter(|&i| cold[i] != cold2[i]).count();
                run.note("two_namespace_queries_with_different_answers", json!(differing));
                run.require(differing >= 10, "the variant taxonomy answers too few queries differently");
                // quick: the second query ranges over the 10-query core
                let nj = tier.pick(10usize, n);
                let l = par_for(n * nj, |k, local| {
                    let (i, j) = (k / nj, k % nj);
                    local.eval();
                    local.transitions += 4;
                    local.count("two-namespace-histories");
                    if let Err((sig, d)) = two_namespace_case(i, j, &cold, &cold2, &part) {
                        local.fail(&sig, json!({"two_namespaces": [i, j]}), d);
                    }
                });
                run.absorb(l);
            }
        }
    }

    // ---- C14-V: volume. After more look-ups than any fixed cache bound one would pick (1100
    // distinct symbols) every query still gives its cold answer, sequentially ...
    if hs.failure.is_none() {
        let nq = queries().len();
        let vol = nq - 1;
        let part = Arc::new(partition_extreme(false));
        let l = par_for(nq - 1, |qi, local| {
            for hist in [vec![vol, qi], vec![qi, vol, qi], vec![vol, vol, qi]] {
                local.eval();
                local.transitions += hist.len() as u64;
                local.count("volume-histories");
                match with_partition(&part, || run_history(hooks::Mode::Shim, &hist, &part)) {
                    Err(e) => local.fail("history-panic:volume", json!({"history": hist, "backend": "shim", "volume": true}), e),
                    Ok((answers, _)) => {
                        let a = answers.last().unwrap();
                        if *a != cold[qi] {
                            local.fail("history-changes-answer:volume", json!({"history": hist, "backend": "shim", "volume": true}), format!("query {:?} after {} look-ups of other symbols answers {a:?}, cold answer {:?}", queries()[qi], 1100 * (hist.len() - 1), cold[qi]));
                        }
                    }
                }
            }
        });
        run.absorb(l);
    }

    // ---- C14-S
    if hs.failure.is_none() {
        let known = known_entries(&hs, &hs.states);
        let scs = scenarios(tier);
        run.note("scenarios", json!(scs.len()));
        let bounds: Vec<usize> = tier.pick(vec![0, 1, 2], vec![0, 1, 2, 3]);
        let maxb = *bounds.last().unwrap();
        let l = par_for(scs.len(), |i, local| {
            let sc = &scs[i];
            for (pname, part) in named_partitions(tier, sc) {
                // iterate the bound: the first counterexample has the fewest preemptions
                let three = sc.threads.len() >= 3;
                let b = if three { maxb.min(2) } else { maxb };
                let (fail, st) = explore_scenario(sc, &part, Some(b), 3_000_000, &cold, Some(&known));
                local.states += 1;
                local.transitions += st.executions;
                local.traces += st.executions;
                local.evals += st.executions;
                local.count_n("schedules", st.executions);
                local.count_n("blocked-executions", st.blocked_execs);
                local.count_n("double-miss-executions", st.double_miss_execs);
                local.count_n("distinct-interleavings", st.interleavings.len() as u64);
                if st.capped {
                    local.count("capped-scenarios");
                }
                for f in &st.final_states {
                    local.outcome(&format!("{:016x}", hash_str(f)));
                }
                local.nontrivial(&format!("{sc:?}{pname}"));
                if let Some(f) = fail {
                    // re-explore with smaller bounds to report the simplest schedule
                    let mut best = f;
                    for smaller in 0..b {
                        if let (Some(g), _) = explore_scenario(sc, &part, Some(smaller), 3_000_000, &cold, Some(&known)) {
                            best = g;
                            break;
                        }
                    }
                    local.fail(&format!("{}:{}threads", best.sig, sc.threads.len()), scenario_json(sc, &pname, &best.choices), best.detail);
                }
            }
        });
        run.absorb(l);
        // the two shortest scenarios without any bound
        for (a, b) in [(0usize, 0usize), (0, 1)] {
            let sc = Scenario { warm: vec![], threads: vec![vec![a], vec![b]] };
            let part = Arc::new(partition_extreme(true));
            let (fail, st) = explore_scenario(&sc, &part, None, 5_000_000, &cold, Some(&known));
            run.stats.transitions += st.executions;
            run.stats.traces += st.executions;
            run.stats.evals += st.executions;
            run.stats.count_n("unbounded-schedules", st.executions);
            if st.capped {
                run.stats.count("capped-scenarios");
            }
            if let Some(f) = fail {
                run.stats.fail(&format!("{}:2threads", f.sig), scenario_json(&sc, "all-keys-one-shard", &f.choices), f.detail);
            }
        }
        run.note("preemption_bound_completed", json!({"2 threads": maxb, "3 threads": maxb.min(2), "supertypes_of x supertypes_of": "unbounded"}));
    }
    // ---- C14-F: free-running pass on real threads (supplementary, not exhaustive)
    // (run last, and only when the exhaustive parts found nothing: their counterexamples are schedules)
    if run.stats.fails.is_empty() {
        for (threads, millis) in tier.pick(vec![(2usize, 1200u64), (8, 1500)], vec![(2, 6000), (4, 6000), (16, 15000)]) {
            let name = format!("free:{threads}:{millis}");
            let n2 = name.clone();
            let describe = move |_o: u64| json!({"free_running": n2});
            let job = Job { prop: "C14", tier: tier.name(), job: &name, n: 1, chunk: 1, env: vec![], exe: None, describe: &describe };
            let l = run_job(&job);
            run.absorb(l);
        }
        run.note("free_running_queries_answered", json!(run.counter("free-running-queries")));
    }
    run.exhaustive = run.counter("capped-scenarios") == 0;
    if run.stats.fails.is_empty() {
        run.require(run.counter("free-running-queries") > 10_000, "free-running pass answered too few queries");
        run.require(hs.states.len() > 20, "history search found too few cache states");
        run.require(run.counter("schedules") > 10_000, "too few schedules");
        run.require(run.counter("double-miss-executions") > 0, "no execution in which two threads both filled the same shard");
        run.require(run.stats.outcomes.len() > 1, "only one distinct final cache state");
    }
    run.stats.samples = vec![
        json!({"history": ["Inheritance(d)", "Reflect([b,c])", "Tags(d)"]}),
        json!({"threads": [["Inheritance(d)"], ["Supertypes(b)"]], "partition": "all-keys-one-shard", "schedule": [0, 0, 1, 0, 0, 1]}),
    ];
    run.finish(&replay)
}

pub fn replay(case: &J) -> Verdict {
    let cold = match cold_answers() {
        Ok(c) => c,
        Err((sig, d)) => return Err((format!("{sig}:shim"), d)),
    };
    if let Some(name) = case["free_running"].as_str() {
        // not a deterministic schedule: the pass is repeated (three times as long) until it fails again
        let (threads, millis) = free_running_params(name);
        let name = format!("free:{threads}:{}", millis * 3);
        let n2 = name.clone();
        let describe = move |_o: u64| json!({"free_running": n2});
        let job = Job { prop: "C14", tier: "quick", job: &name, n: 1, chunk: 1, env: vec![], exe: None, describe: &describe };
        let l = run_job(&job);
        return match l.fails.values().next() {
            Some(f) => Err((f.sig.clone(), "an answer given under real concurrency differs from the answer given alone".into())),
            None => Ok(()),
        };
    }
    if let Some(p) = case["two_namespaces"].as_array() {
        let (i, j) = (p[0].as_u64().unwrap_or(0) as usize, p[1].as_u64().unwrap_or(0) as usize);
        let part = Arc::new(partition_extreme(true));
        let cold2 = cold_variant_from_child().map_err(|e| ("history-panic:two-namespaces".to_string(), e))?;
        return two_namespace_case(i, j, &cold, &cold2, &part);
    }
    let r = RefNs::make(&scenario_rows());
    if let Some(h) = case["history"].as_array().filter(|_| case["family"] == "pairs" || case["volume"] == true) {
        // one concrete history (pair / repetition / volume families)
        let hist: Vec<usize> = h.iter().map(|x| x.as_u64().unwrap_or(0) as usize).collect();
        let part = Arc::new(if case["volume"] == true { partition_extreme(false) } else { partition_extreme(true) });
        // the family names the search that found the history: pairs / volume, or the history search
        // itself on the Shim or on the genuine DashMap (the concrete history is replayed on the Shim)
        let fam = if case["volume"] == true {
            "volume"
        } else if case["family"] == "pairs" {
            "pairs"
        } else if case["backend"] == "real" {
            "real-dashmap"
        } else {
            "shim"
        };
        return match with_partition(&part, || run_history(hooks::Mode::Shim, &hist, &part)) {
            Err(e) => Err((format!("history-panic:{fam}"), e)),
            Ok((answers, _)) => {
                let j = *hist.last().unwrap();
                if answers.last().unwrap() != &cold[j] {
                    Err((format!("history-changes-answer:{fam}"), format!("query {:?} answers {:?}, cold {:?}", queries()[j], answers.last().unwrap(), cold[j])))
                } else {
                    Ok(())
                }
            }
        };
    }
    if case.get("history").is_some() {
        let backend = case["backend"].as_str().unwrap_or("shim");
        if backend == "real" {
            let describe = |_o: u64| json!({"history": "search on the genuine DashMap", "backend": "real", "isolated": true});
            let job = Job { prop: "C14", tier: "quick", job: "hist-real", n: 1, chunk: 1, env: vec![], exe: None, describe: &describe };
            let l = run_job(&job);
            return match l.fails.values().next() {
                Some(f) => Err((f.sig.clone(), if f.sig.starts_with("crash") || f.sig == "hang" { f.sig.clone() } else { f.detail.clone() })),
                None => Ok(()),
            };
        }
        let h = explore_histories(hooks::Mode::Shim, &cold, &r, 100_000);
        return match h.failure {
            Some((sig, _, d)) => Err((format!("{sig}:shim"), d)),
            None => {
                if backend == "both" {
                    // recompute the comparison
                    let describe = |_o: u64| json!({});
                    let job = Job { prop: "C14", tier: "quick", job: "hist-real", n: 1, chunk: 1, env: vec![], exe: None, describe: &describe };
                    let l = run_job(&job);
                    let want = format!("real-digest-{}", hist_digest(&h));
                    if !l.counters.contains_key(&want) {
                        return Err(("shim-and-real-dashmap-disagree".into(), "transition graphs differ".into()));
                    }
                }
                Ok(())
            }
        };
    }
    let sc = Scenario {
        warm: case["warm"].as_array().map(|a| a.iter().map(|x| x.as_u64().unwrap() as usize).collect()).unwrap_or_default(),
        threads: case["threads"].as_array().unwrap().iter().map(|t| t.as_array().unwrap().iter().map(|x| x.as_u64().unwrap() as usize).collect()).collect(),
    };
    let pname = case["partition"].as_str().unwrap_or("all-keys-one-shard");
    let part = named_partitions(Tier::Thorough, &sc).into_iter().find(|(n, _)| n == pname).map(|(_, p)| p).unwrap_or_else(|| Arc::new(partition_extreme(true)));
    let choices: Vec<u32> = case["choices"].as_array().map(|a| a.iter().map(|x| x.as_u64().unwrap() as u32).collect()).unwrap_or_default();
    let hs = explore_histories(hooks::Mode::Shim, &cold, &r, 100_000);
    let known = known_entries(&hs, &hs.states);
    let (verdict, _ch, _i, _b, _d, _f) = execute(&sc, &part, Chooser::replaying(choices), &cold, Some(&known));
    verdict.map_err(|(sig, d)| (format!("{sig}:{}threads", sc.threads.len()), d))
}

/// timing probe (not a check): `hsmc __c14probe`
pub fn probe() {
    crate::engine::quiet_panics();
    {
        let t = std::time::Instant::now();
        for _ in 0..10000 {
            let b = NsBox::new(hooks::Mode::Shim);
            std::hint::black_box(b.get());
        }
        println!("NsBox::new: {:.1} us", t.elapsed().as_secs_f64() * 1e6 / 10000.0);
        let t = std::time::Instant::now();
        for _ in 0..10000 {
            let hs: Vec<_> = (0..2).map(|_| std::thread::spawn(|| 1)).collect();
            for h in hs {
                h.join().unwrap();
            }
        }
        println!("spawn+join 2 threads: {:.1} us", t.elapsed().as_secs_f64() * 1e6 / 10000.0);
        let setup: Arc<dyn Fn() + Send + Sync> = Arc::new(|| {});
        let t = std::time::Instant::now();
        for _ in 0..10000 {
            let bodies: Vec<Box<dyn FnOnce() -> i32 + Send>> = vec![Box::new(|| 1), Box::new(|| 2)];
            let _ = run_threads(Chooser::replaying(vec![]), bodies, setup.clone());
        }
        println!("run_threads 2 noop: {:.1} us", t.elapsed().as_secs_f64() * 1e6 / 10000.0);
        let t = std::time::Instant::now();
        let b = NsBox::new(hooks::Mode::Real);
        let qs = queries();
        for _ in 0..10000 {
            std::hint::black_box(run_query(b.get(), &qs[5]));
        }
        println!("reflect query warm: {:.1} us", t.elapsed().as_secs_f64() * 1e6 / 10000.0);
    }
    let cold = cold_answers().expect("cold answers");
    let r = RefNs::make(&scenario_rows());
    let t = std::time::Instant::now();
    let hs = explore_histories(hooks::Mode::Shim, &cold, &r, 100_000);
    println!("history search (shim): {} states {} transitions failure={:?} in {:.2}s", hs.states.len(), hs.transitions.len(), hs.failure.as_ref().map(|f| &f.0), t.elapsed().as_secs_f64());
    for (threads, b) in [(vec![vec![0usize], vec![2usize]], 2usize), (vec![vec![2], vec![5]], 2), (vec![vec![5], vec![5]], 2), (vec![vec![0], vec![2], vec![5]], 2), (vec![vec![0, 2], vec![2, 0]], 2)] {
        let sc = Scenario { warm: vec![], threads };
        let part = Arc::new(partition_extreme(true));
        let t = std::time::Instant::now();
        let (fail, st) = explore_scenario(&sc, &part, Some(b), 50_000_000, &cold, None);
        println!("{:?} bound {b}: executions={} points={} blocked={} double-miss={} finals={} interleavings={} fail={:?} in {:.2}s ({:.1} us/exec)", sc.threads, st.executions, st.max_points, st.blocked_execs, st.double_miss_execs, st.final_states.len(), st.interleavings.len(), fail.map(|f| f.sig), t.elapsed().as_secs_f64(), t.elapsed().as_secs_f64() * 1e6 / st.executions as f64);
    }
}
