//! C07 — filter evaluation follows the Haystack filter semantics (DESIGN §5 C07).
//! Filters are built directly from libhaystack's public node structs (no parser involved) and
//! evaluated by the real evaluator on every record of a small universe; the oracle is the
//! reference evaluator of model/filter_ref.rs.

use super::common::Verdict;
use crate::engine::{guarded, par_for, Local, Run, Tier};
use crate::model::filter_ref::{eval, print_canonical, to_lib_filter, Op, RefMap, F, OPS};
use crate::model::v::{from_json, mk_tags, to_json, to_lib, Col, Tags, G, V};
use libhaystack::defs::namespace::DEFAULT_NS;
use libhaystack::filter::eval::EvalContext;
use libhaystack::filter::path::Path;
use libhaystack::filter::{Eval, Filter, Filtered, ListFiltered, PathResolver};
use libhaystack::val::{Dict, Grid, Ref, Value};
use serde_json::{json, Value as J};

fn p(s: &str) -> Vec<String> {
    s.split("->").map(|x| x.to_string()).collect()
}

fn literals() -> Vec<V> {
    vec![
        V::num(5.0),
        V::numu(5.0, "kW"),
        V::num(7.0),
        V::str("s"),
        V::str("t"),
        V::Bool(true),
        V::Ref("r".into(), None),
        V::Date(2021, 1, 1),
        V::Time(12, 0, 0, 0),
        V::Uri("u".into()),
        V::Sym("s".into()),
        V::dt(1_625_097_600, 0, "UTC"),
        V::num(-1.0),
        // same second / same minute as a record value, differing in the fraction only
        V::dt(1_625_097_600, 100_000_000, "UTC"),
        V::dt(1_625_097_600, 900_000_000, "Asia/Kolkata"),
        V::Time(12, 0, 0, 100_000_000),
        V::num(0.0),
        V::num(5.000000000000001),
    ]
}

fn tag_values() -> Vec<Option<V>> {
    vec![
        None,
        Some(V::Null),
        Some(V::Marker),
        Some(V::num(5.0)),
        Some(V::numu(5.0, "kW")),
        Some(V::numu(5.0, "°F")),
        Some(V::num(7.0)),
        Some(V::str("s")),
        Some(V::Bool(true)),
        Some(V::Ref("r".into(), Some("dis".into()))),
        Some(V::List(vec![V::num(1.0), V::num(5.0), V::str("s")])),
        Some(V::List(vec![])),
        Some(V::dict(&[("b", V::num(5.0))])),
        Some(V::dict(&[("b", V::dict(&[("c", V::str("s")), ("d", V::Null)]))])),
        Some(V::Date(2021, 1, 1)),
        Some(V::Date(2020, 12, 31)),
        Some(V::Time(12, 0, 0, 0)),
        Some(V::dt(1_625_097_600, 0, "America/New_York")),
        Some(V::Uri("u".into())),
        Some(V::Sym("s".into())),
        Some(V::str("")),
        Some(V::Bool(false)),
        Some(V::List(vec![V::numu(5.0, "kW"), V::Ref("r".into(), None)])),
        Some(V::Na),
        Some(V::dt(1_625_097_600, 500_000_000, "UTC")),
        Some(V::dt(1_625_097_601, 0, "Australia/Sydney")),
        Some(V::dt(1_625_097_600, 100_000_001, "UTC")),
        Some(V::Time(12, 0, 0, 500_000_000)),
        Some(V::Time(11, 59, 59, 999_999_999)),
        Some(V::num(-0.0)),
        Some(V::num(4.999999999999999)),
        Some(V::str("t")),
        Some(V::Uri("v".into())),
        Some(V::Sym("t".into())),
        Some(V::Remove),
        Some(V::XStr("Bin".into(), "s".into())),
        Some(V::Coord(5.0, 5.0)),
        Some(V::List(vec![V::List(vec![V::num(5.0)]), V::dict(&[("b", V::num(5.0))]), V::num(9.0), V::num(8.0), V::num(5.0)])),
        Some(V::List(vec![V::Date(2021, 1, 1), V::Time(12, 0, 0, 0), V::dt(1_625_097_600, 0, "UTC"), V::str("s")])),
    ]
}

pub fn records_full() -> Vec<Tags> {
    let tv = tag_values();
    let bv = [None, Some(V::num(5.0)), Some(V::str("s"))];
    let nv = [None, Some(V::num(7.0))];
    let mut out = vec![];
    for a in &tv {
        for b in &bv {
            for n in &nv {
                let mut t: Vec<(&str, V)> = vec![];
                if let Some(a) = a {
                    t.push(("a", a.clone()));
                }
                if let Some(b) = b {
                    t.push(("b", b.clone()));
                }
                if let Some(n) = n {
                    t.push(("n", n.clone()));
                }
                out.push(mk_tags(&t));
            }
        }
    }
    out
}

fn leaves_all() -> Vec<F> {
    let mut out = vec![];
    for path in ["a", "b", "n", "a->b", "a->b->c", "a->b->c->d", "a->z", "z->a"] {
        out.push(F::Has(p(path)));
        out.push(F::Missing(p(path)));
    }
    for path in ["a", "n", "a->b", "a->b->c"] {
        for op in OPS {
            for lit in literals() {
                out.push(F::Cmp(p(path), op, lit));
            }
        }
    }
    out
}

/// kind-distinct representatives for the multi-leaf shapes
fn leaves_core(tier: Tier) -> Vec<F> {
    let mut out = vec![F::Has(p("a")), F::Missing(p("a")), F::Has(p("a->b")), F::Missing(p("b")), F::Has(p("n"))];
    let lits: Vec<V> = match tier {
        Tier::Quick => vec![V::num(5.0), V::str("s")],
        Tier::Thorough => vec![V::num(5.0), V::numu(5.0, "kW"), V::str("s"), V::Bool(true), V::Ref("r".into(), None), V::Date(2021, 1, 1)],
    };
    for op in OPS {
        for l in &lits {
            out.push(F::Cmp(p("a"), op, l.clone()));
        }
    }
    out.push(F::Cmp(p("a->b"), Op::Eq, V::num(5.0)));
    out.push(F::Cmp(p("n"), Op::Gt, V::num(5.0)));
    out.push(F::Cmp(p("a->b->c"), Op::Ne, V::str("t")));
    out
}

fn lib_dict(t: &Tags) -> Dict {
    match to_lib(&V::Dict(t.clone())) {
        Value::Dict(d) => d,
        _ => unreachable!(),
    }
}

fn filter_class(f: &F) -> String {
    match f {
        F::Or(v) => format!("or({})", v.iter().map(filter_class).collect::<Vec<_>>().join(",")),
        F::And(v) => format!("and({})", v.iter().map(filter_class).collect::<Vec<_>>().join(",")),
        F::Parens(x) => format!("parens({})", filter_class(x)),
        F::Has(_) => "has".into(),
        F::Missing(_) => "missing".into(),
        F::Cmp(_, op, _) => format!(
            "cmp-{}",
            match op {
                Op::Eq => "eq",
                Op::Ne => "ne",
                _ => "ordering",
            }
        ),
        F::Wild(..) => "wildcard".into(),
        F::IsA(_) => "isa".into(),
        F::Rel(..) => "rel".into(),
    }
}

/// how the value the (first) leaf's path resolves to relates to the leaf's literal
fn resolved_class(f: &F, rec: &Tags) -> String {
    fn first_leaf(f: &F) -> Option<&F> {
        match f {
            F::Or(v) | F::And(v) => v.iter().find_map(first_leaf),
            F::Parens(x) => first_leaf(x),
            other => Some(other),
        }
    }
    let leaf = match first_leaf(f) {
        Some(l) => l,
        None => return "none".into(),
    };
    let (path, lit) = match leaf {
        F::Has(p) | F::Missing(p) => (p, None),
        F::Cmp(p, _, l) => (p, Some(l)),
        F::Wild(p, _, _) => (p, None),
        _ => return "n/a".into(),
    };
    match crate::model::filter_ref::resolve(rec, path) {
        None => "absent".into(),
        Some(V::List(_)) => "list".into(),
        Some(v) => match lit {
            Some(l) if std::mem::discriminant(l) == std::mem::discriminant(v) => "same-kind".into(),
            Some(_) => "other-kind".into(),
            None => "value".into(),
        },
    }
}

fn f_json(f: &F) -> J {
    match f {
        F::Or(v) => json!({"or": v.iter().map(f_json).collect::<Vec<_>>()}),
        F::And(v) => json!({"and": v.iter().map(f_json).collect::<Vec<_>>()}),
        F::Parens(x) => json!({"parens": f_json(x)}),
        F::Has(p) => json!({"has": p}),
        F::Missing(p) => json!({"missing": p}),
        F::Cmp(p, op, v) => json!({"cmp": p, "op": op.text(), "lit": to_json(v)}),
        F::IsA(s) => json!({"isa": s}),
        F::Wild(p, r, d) => json!({"wild": p, "ref": r, "dis": d}),
        F::Rel(r, t, x) => json!({"rel": r, "term": t, "ref": x.as_ref().map(|(a, b)| json!([a, b]))}),
    }
}

pub fn f_unjson(j: &J) -> F {
    let strs = |x: &J| -> Vec<String> { x.as_array().unwrap().iter().map(|s| s.as_str().unwrap().to_string()).collect() };
    if let Some(v) = j.get("or") {
        return F::Or(v.as_array().unwrap().iter().map(f_unjson).collect());
    }
    if let Some(v) = j.get("and") {
        return F::And(v.as_array().unwrap().iter().map(f_unjson).collect());
    }
    if let Some(v) = j.get("parens") {
        return F::Parens(Box::new(f_unjson(v)));
    }
    if let Some(v) = j.get("has") {
        return F::Has(strs(v));
    }
    if let Some(v) = j.get("missing") {
        return F::Missing(strs(v));
    }
    if let Some(v) = j.get("cmp") {
        let op = OPS.iter().copied().find(|o| o.text() == j["op"].as_str().unwrap()).unwrap();
        return F::Cmp(strs(v), op, from_json(&j["lit"]));
    }
    if let Some(v) = j.get("isa") {
        return F::IsA(v.as_str().unwrap().into());
    }
    if let Some(v) = j.get("wild") {
        return F::Wild(strs(v), j["ref"].as_str().unwrap().into(), j["dis"].as_str().map(|s| s.to_string()));
    }
    F::Rel(
        j["rel"].as_str().unwrap().into(),
        j["term"].as_str().map(|s| s.to_string()),
        j["ref"].as_array().map(|a| (a[0].as_str().unwrap().to_string(), a[1].as_str().map(|s| s.to_string()))),
    )
}

fn check_one(f: &F, lf: &Filter, rec: &Tags, d: &Dict) -> Verdict {
    let want = match eval(f, rec, &RefMap::new()) {
        Some(w) => w,
        None => return Ok(()), // left open by the statement
    };
    let got = guarded(|| d.filter(lf)).map_err(|p| ("eval-panic".to_string(), p))?;
    if got != want {
        return Err((
            format!("eval:{}:{}", filter_class(f), resolved_class(f, rec)),
            format!("filter `{}` on record {:?}: library {got}, semantics {want}", print_canonical(f), rec),
        ));
    }
    Ok(())
}

fn leaves_of(f: &F) -> Vec<F> {
    match f {
        F::Or(v) | F::And(v) => v.iter().flat_map(leaves_of).collect(),
        F::Parens(x) => leaves_of(x),
        other => vec![other.clone()],
    }
}

fn run_filter(f: &F, recs: &[Tags], dicts: &[Dict], local: &mut Local) {
    let lf = to_lib_filter(f);
    local.states += 1;
    let mut t = false;
    let mut fa = false;
    for (rec, d) in recs.iter().zip(dicts.iter()) {
        local.eval();
        local.transitions += 1;
        match eval(f, rec, &RefMap::new()) {
            Some(true) => t = true,
            Some(false) => fa = true,
            None => local.count("unconstrained"),
        }
        if let Err((sig, detail)) = check_one(f, &lf, rec, d) {
            // minimise: if a leaf of the filter fails on this record on its own, report the leaf
            let mut reported = false;
            for leaf in leaves_of(f) {
                if let Err((s2, d2)) = check_one(&leaf, &to_lib_filter(&leaf), rec, d) {
                    local.fail(&s2, json!({"filter": f_json(&leaf), "record": to_json(&V::Dict(rec.clone()))}), d2);
                    reported = true;
                    break;
                }
            }
            if !reported {
                local.fail(&sig, json!({"filter": f_json(f), "record": to_json(&V::Dict(rec.clone()))}), detail);
            }
        }
    }
    if t && fa {
        local.nontrivial(&format!("{f:?}"));
    }
    local.outcome(match (t, fa) {
        (true, true) => "both",
        (true, false) => "always-true",
        (false, true) => "always-false",
        _ => "open",
    });
}

// ---- wildcard equality with a caller-supplied resolver

struct MapResolver {
    refs: std::collections::BTreeMap<String, Dict>,
}
impl PathResolver for MapResolver {
    fn resolve_for(&self, root: &Dict, path: &Path) -> Value {
        root.resolve_for(root, path)
    }
    fn resolve(&self, _path: &Path) -> Value {
        Value::Null
    }
    fn resolve_ref(&self, reference: &Ref) -> Option<Dict> {
        self.refs.get(&reference.value).cloned()
    }
}

fn wildcard_worlds() -> Vec<(RefMap, Tags)> {
    // refs form chains of length 0-3, 1- and 2-cycles; the subject points into them
    let rec = |next: Option<&str>| -> Tags {
        match next {
            Some(n) => mk_tags(&[("a", V::Ref(n.into(), None)), ("x", V::Marker)]),
            None => mk_tags(&[("x", V::Marker)]),
        }
    };
    let mut worlds = vec![];
    let chains: Vec<Vec<(&str, Option<&str>)>> = vec![
        vec![],
        vec![("r1", None)],
        vec![("r1", Some("r2")), ("r2", None)],
        vec![("r1", Some("r2")), ("r2", Some("r3")), ("r3", None)],
        vec![("r1", Some("r1"))],
        vec![("r1", Some("r2")), ("r2", Some("r1"))],
        vec![("r1", Some("r2")), ("r2", Some("r3")), ("r3", Some("r2"))],
        vec![("r1", Some("zz"))],
    ];
    for c in chains {
        let mut m = RefMap::new();
        for (id, next) in &c {
            m.insert(id.to_string(), rec(*next));
        }
        for start in [Some("r1"), Some("r2"), Some("r3"), Some("zz"), None] {
            worlds.push((m.clone(), rec(start)));
        }
        // subject whose tag is not a Ref
        worlds.push((m.clone(), mk_tags(&[("a", V::str("r1"))])));
        // the same world with a resolver that answers dangling ids with an EMPTY record, and one
        // that answers them with a record lacking the tag
        for filler in [vec![], mk_tags(&[("x", V::Marker)])] {
            let mut m2 = m.clone();
            for id in ["r1", "r2", "r3", "zz", "nope"] {
                m2.entry(id.to_string()).or_insert_with(|| filler.clone());
            }
            for start in [Some("r1"), Some("zz")] {
                worlds.push((m2.clone(), rec(start)));
            }
        }
    }
    worlds
}

/// the evaluator must terminate on every ref world: run it on its own thread and give up after
/// 10 s (the stuck thread is abandoned; the process exits normally at the end of the check)
fn check_wildcard(world: usize, target: &str) -> Verdict {
    let (tx, rx) = std::sync::mpsc::channel();
    let t = target.to_string();
    std::thread::spawn(move || {
        let _ = tx.send(check_wildcard_inner(world, &t));
    });
    match rx.recv_timeout(std::time::Duration::from_secs(10)) {
        Ok(v) => v,
        Err(_) => Err(("wildcard-does-not-terminate".into(), format!("a *== @{target} in ref world {world} did not return within 10 s"))),
    }
}

fn check_wildcard_inner(world: usize, target: &str) -> Verdict {
    let (refs, subject) = &wildcard_worlds()[world];
    check_world(refs, subject, target, &format!("world {world}"))
}

/// `*==` combined with other terms on the same path, evaluated where hops really happen: the
/// compound filter `<wild> and|or <term>` (both orders) over a ref world; <term> ranges over
/// == / != against the target and the first hop, has / missing of the path and of a sub-path.
fn compound_terms(target: &str) -> Vec<F> {
    let a = || vec!["a".to_string()];
    vec![
        F::Cmp(a(), Op::Eq, V::Ref(target.into(), None)),
        F::Cmp(a(), Op::Ne, V::Ref(target.into(), None)),
        F::Cmp(a(), Op::Eq, V::Ref("r1".into(), None)),
        F::Cmp(a(), Op::Ne, V::Ref("r2".into(), None)),
        F::Cmp(a(), Op::Eq, V::str("r1")),
        F::Has(a()),
        F::Missing(a()),
        F::Has(vec!["a".into(), "x".into()]),
        F::Has(vec!["a".into(), "a".into()]),
        F::Missing(vec!["a".into(), "a".into(), "x".into()]),
        F::Has(vec!["x".into()]),
        F::Wild(a(), "r2".into(), None),
    ]
}

fn check_compound(world: usize, target: &str, shape: usize, term: usize) -> Verdict {
    let (refs, subject) = &wildcard_worlds()[world];
    let w = F::Wild(vec!["a".into()], target.into(), None);
    let t = compound_terms(target)[term].clone();
    let f = match shape {
        0 => F::And(vec![w, t]),
        1 => F::And(vec![t, w]),
        2 => F::Or(vec![w, t]),
        3 => F::Or(vec![t, w]),
        4 => F::And(vec![w.clone(), t, w]),
        _ => F::Or(vec![F::And(vec![w.clone(), t.clone()]), t]),
    };
    let want = eval(&f, subject, refs).unwrap();
    let resolver = MapResolver { refs: refs.iter().map(|(k, v)| (k.clone(), lib_dict(v))).collect() };
    let d = lib_dict(subject);
    let lf = to_lib_filter(&f);
    let got = guarded(|| lf.eval(&EvalContext::make(&d, &DEFAULT_NS, &resolver))).map_err(|p| ("wildcard-compound-panic".to_string(), p))?;
    if got != want {
        return Err(("wildcard-compound".into(), format!("{} in world {world} ({refs:?}, subject {subject:?}): library {got}, reference {want}", crate::model::filter_ref::print_canonical(&f))));
    }
    // one context reused for two evaluations gives the same answers
    let ctx = EvalContext::make(&d, &DEFAULT_NS, &resolver);
    let (g1, g2) = (lf.eval(&ctx), lf.eval(&ctx));
    if g1 != want || g2 != want {
        return Err(("wildcard-compound:context-reused".into(), format!("{} in world {world}: a reused context answers {g1} then {g2}, reference {want}", crate::model::filter_ref::print_canonical(&f))));
    }
    Ok(())
}

/// a chain c0 -> c1 -> ... -> c(len-1) whose last record points nowhere or back to c(back)
/// (a rho shape); the subject points to c0
fn long_world(len: usize, back: Option<usize>) -> (RefMap, Tags) {
    let mut m = RefMap::new();
    for i in 0..len {
        let next = if i + 1 < len { Some(format!("c{}", i + 1)) } else { back.map(|b| format!("c{b}")) };
        let mut t = vec![("x", V::Marker), ("n", V::num(i as f64))];
        if let Some(n) = next {
            t.push(("a", V::Ref(n, None)));
        }
        m.insert(format!("c{i}"), mk_tags(&t));
    }
    (m, mk_tags(&[("a", V::Ref("c0".into(), None)), ("x", V::Marker)]))
}

fn check_long(len: usize, back: Option<usize>, target: &str) -> Verdict {
    let (tx, rx) = std::sync::mpsc::channel();
    let t = target.to_string();
    std::thread::spawn(move || {
        let (refs, subject) = long_world(len, back);
        let _ = tx.send(check_world(&refs, &subject, &t, &format!("chain of {len} back {back:?}")));
    });
    match rx.recv_timeout(std::time::Duration::from_secs(20)) {
        Ok(v) => v.map_err(|(s, d)| (format!("{s}:long-chain"), d)),
        Err(_) => Err(("wildcard-does-not-terminate:long-chain".into(), format!("a *== @{target} on a chain of {len} (back {back:?}) did not return within 20 s"))),
    }
}

fn check_world(refs: &RefMap, subject: &Tags, target: &str, what: &str) -> Verdict {
    let f = F::Wild(vec!["a".into()], target.into(), None);
    let want = eval(&f, subject, refs).unwrap();
    let resolver = MapResolver { refs: refs.iter().map(|(k, v)| (k.clone(), lib_dict(v))).collect() };
    let d = lib_dict(subject);
    let lf = to_lib_filter(&f);
    let got = guarded(|| lf.eval(&EvalContext::make(&d, &DEFAULT_NS, &resolver))).map_err(|p| ("wildcard-panic".to_string(), p))?;
    if got != want {
        let shown = if refs.len() <= 6 { format!("{refs:?}") } else { format!("{} records", refs.len()) };
        return Err(("wildcard".into(), format!("a *== @{target} in {what} ({shown}, subject {subject:?}): library {got}, reachability {want}")));
    }
    Ok(())
}

// ---- grids

fn check_grid(rows: &[Tags], f: &F) -> Verdict {
    let g = V::Grid(Box::new(G { ver: "3.0".into(), meta: None, cols: vec![Col { name: "a".into(), meta: None }, Col { name: "b".into(), meta: None }, Col { name: "n".into(), meta: None }], rows: rows.to_vec() }));
    let lg: Grid = match to_lib(&g) {
        Value::Grid(g) => g,
        _ => unreachable!(),
    };
    let lf = to_lib_filter(f);
    let want: Vec<usize> = rows.iter().enumerate().filter(|(_, r)| eval(f, r, &RefMap::new()) == Some(true)).map(|(i, _)| i).collect();
    if rows.iter().any(|r| eval(f, r, &RefMap::new()).is_none()) {
        return Ok(());
    }
    let (all, first) = guarded(|| {
        let all: Vec<usize> = lg.filter_all(&lf).iter().map(|d| lg.rows.iter().position(|r| std::ptr::eq(r, *d)).unwrap_or(usize::MAX)).collect();
        let first = lg.filter(&lf).map(|d| lg.rows.iter().position(|r| std::ptr::eq(r, d)).unwrap_or(usize::MAX));
        (all, first)
    })
    .map_err(|p| ("grid-filter-panic".to_string(), p))?;
    if all != want {
        return Err(("grid-filter-all".into(), format!("filter_all `{}` over {rows:?}: rows {all:?}, expected {want:?}", print_canonical(f))));
    }
    if first != want.first().copied() {
        return Err(("grid-filter-first".into(), format!("filter `{}` over {rows:?}: row {first:?}, expected {:?}", print_canonical(f), want.first())));
    }
    Ok(())
}

pub fn run(tier: Tier) -> i32 {
    let mut run = Run::new("C07", tier, "model_checking");
    run.rule = "programs = filter trees built from the public node structs: every single leaf (has/missing over 8 paths of 1-4 segments; 6 operators x 18 literals of every literal kind x 4 paths) on 240 records (tag a over 40 values of every kind incl. Null, lists, nested dicts; b, n present/absent); every and/or/parens shape with <= 3 leaves over a kind-distinct leaf core and 7 shapes with 4 leaves (and-of-ors, or-of-ands, mixed precedence, nested groups) over a 7/20-leaf core; == / != of nine unit-carrying literals against the same magnitude under every database unit (bare and in a list); `*==` against a caller-supplied resolver over 80 ref worlds (chains 0-3, 1- and 2-cycles, dangling ids answered with nothing / an empty record / a record without the tag) and over ref chains of every length 1-40 and around 64, 100, 256, 1000 ending nowhere / at the first / middle / last record, with every record as the target; `*==` combined (and / or, both orders, three-term shapes) with 12 other terms on the same path — == / != against the target and the first hop, has / missing of the path and its sub-paths, a second `*==` — in every ref world, also with one EvalContext reused for two evaluations; Grid::filter / filter_all on every grid of <= 3 rows over 8 records. Oracle: reference evaluator written from the statement (unit-mismatched ordering = unconstrained, skipped). states = filters, transitions = (filter, record) evaluations = traces validated; non-trivial = filter that is true on some record and false on another".into();
    run.assume("value equality of the filter language: same kind and value, Ref by id, DateTime by instant");
    run.assume("`^symbol` is covered by C13; relationship terms are only exercised for termination (C09)");
    crate::engine::quiet_panics();
    let recs = records_full();
    let dicts: Vec<Dict> = recs.iter().map(lib_dict).collect();
    let leaves = leaves_all();
    let l = par_for(leaves.len(), |i, local| run_filter(&leaves[i], &recs, &dicts, local));
    run.absorb(l);

    // shapes with 2 and 3 leaves
    let core = leaves_core(tier);
    let n = core.len();
    let shapes2: Vec<fn(F, F) -> F> = vec![
        |a, b| F::And(vec![a, b]),
        |a, b| F::Or(vec![a, b]),
        |a, b| F::And(vec![F::Parens(Box::new(a)), b]),
        |a, b| F::Parens(Box::new(F::Or(vec![a, b]))),
    ];
    let shapes3: Vec<fn(F, F, F) -> F> = vec![
        |a, b, c| F::And(vec![a, b, c]),
        |a, b, c| F::Or(vec![a, b, c]),
        |a, b, c| F::Or(vec![F::And(vec![a, b]), c]),
        |a, b, c| F::Or(vec![a, F::And(vec![b, c])]),
        |a, b, c| F::And(vec![F::Parens(Box::new(F::Or(vec![a, b]))), c]),
        |a, b, c| F::And(vec![a, F::Parens(Box::new(F::Or(vec![b, c])))]),
        |a, b, c| F::Or(vec![F::Parens(Box::new(F::And(vec![a, b]))), c]),
        |a, b, c| F::Parens(Box::new(F::Parens(Box::new(F::Or(vec![F::And(vec![a, b]), c]))))),
    ];
    let recs_small: Vec<Tags> = recs.iter().step_by(tier.pick(3, 1)).cloned().collect();
    let dicts_small: Vec<Dict> = recs_small.iter().map(lib_dict).collect();
    let l = par_for(n * n, |k, local| {
        let (i, j) = (k / n, k % n);
        for s in &shapes2 {
            run_filter(&s(core[i].clone(), core[j].clone()), &recs_small, &dicts_small, local);
        }
        for m in 0..n {
            for s in &shapes3 {
                run_filter(&s(core[i].clone(), core[j].clone(), core[m].clone()), &recs_small, &dicts_small, local);
            }
        }
    });
    run.absorb(l);

    // shapes with 4 leaves: over the quick core in the thorough tier, over 7 leaves in the quick tier
    let core4: Vec<F> = match tier {
        Tier::Thorough => leaves_core(Tier::Quick),
        Tier::Quick => vec![
            F::Has(p("a")),
            F::Missing(p("b")),
            F::Cmp(p("a"), Op::Eq, V::num(5.0)),
            F::Cmp(p("a"), Op::Lt, V::num(5.0)),
            F::Cmp(p("a"), Op::Ne, V::str("s")),
            F::Cmp(p("n"), Op::Gt, V::num(5.0)),
            F::Has(p("a->b")),
        ],
    };
    let shapes4: Vec<fn(F, F, F, F) -> F> = vec![
        |a, b, c, d| F::Or(vec![F::And(vec![a, b]), F::And(vec![c, d])]),
        |a, b, c, d| F::And(vec![F::Parens(Box::new(F::Or(vec![a, b]))), F::Parens(Box::new(F::Or(vec![c, d])))]),
        |a, b, c, d| F::Or(vec![a, F::And(vec![b, c]), d]),
        |a, b, c, d| F::And(vec![a, F::Parens(Box::new(F::Or(vec![b, F::And(vec![c, d])])))]),
        |a, b, c, d| F::And(vec![a, b, c, d]),
        |a, b, c, d| F::Or(vec![a, b, c, d]),
        |a, b, c, d| F::Or(vec![F::And(vec![a, b, c]), d]),
    ];
    let n4 = core4.len();
    let l = par_for(n4 * n4, |k, local| {
        let (i, j) = (k / n4, k % n4);
        for m in 0..n4 {
            for q in 0..n4 {
                for s in &shapes4 {
                    run_filter(&s(core4[i].clone(), core4[j].clone(), core4[m].clone(), core4[q].clone()), &recs_small, &dicts_small, local);
                    local.count("four-leaf-filters");
                }
            }
        }
    });
    run.absorb(l);

    // unit sweep: `a == 5u` / `a != 5u` hold exactly for the same unit (under any of its names), with
    // the record value 5 under EVERY unit of the database (ordering across units is left open)
    {
        let db = crate::model::units_ref::db();
        let lits = ["kW", "$", "%RH", "Hz", "J", "K", "kWh", "m", "VA"];
        let l = par_for(db.units.len(), |ui, local| {
            let u = db.units[ui].symbol();
            let rec = mk_tags(&[("a", V::numu(5.0, u)), ("l", V::List(vec![V::numu(4.0, u), V::numu(5.0, u)]))]);
            let d = lib_dict(&rec);
            for lu in lits {
                for (path, op) in [("a", Op::Eq), ("a", Op::Ne), ("l", Op::Eq), ("l", Op::Ne)] {
                    let f = F::Cmp(p(path), op, V::numu(5.0, lu));
                    local.count("unit-sweep");
                    run_filter(&f, std::slice::from_ref(&rec), std::slice::from_ref(&d), local);
                }
            }
        });
        run.absorb(l);
        run.require(run.counter("unit-sweep") > 10_000, "unit sweep missing");
    }

    // wildcard equality
    let nw = wildcard_worlds().len();
    let l = par_for(nw, |w, local| {
        for target in ["r1", "r2", "r3", "zz", "nope"] {
            local.eval();
            local.transitions += 1;
            local.count("wildcard-cases");
            if let Err((sig, d)) = check_wildcard(w, target) {
                local.fail(&sig, json!({"wildcard_world": w, "target": target}), d);
            }
        }
    });
    run.absorb(l);

    // `*==` combined with other terms on the same path, in every ref world
    {
        let nt = compound_terms("r1").len();
        let l = par_for(nw, |w, local| {
            for target in ["r1", "r2", "r3", "zz", "nope"] {
                for shape in 0..6usize {
                    for term in 0..nt {
                        local.eval();
                        local.transitions += 1;
                        local.count("wildcard-compound-cases");
                        if let Err((sig, d)) = check_compound(w, target, shape, term) {
                            local.fail(&sig, json!({"wildcard_world": w, "target": target, "compound": [shape, term]}), d);
                        }
                    }
                }
            }
        });
        run.absorb(l);
    }
    // long ref chains and rho shapes: every length 1..=40 and around 64 / 100 / 256 / 1000, the
    // last record pointing nowhere, to the first, the middle or itself; every record of the chain
    // (and an unknown id) as the target
    {
        let mut lens: Vec<usize> = (1..=40).collect();
        lens.extend([63, 64, 65, 100, 255, 256, 257, 1000]);
        let mut jobs: Vec<(usize, Option<usize>)> = vec![];
        for &n in &lens {
            for back in [None, Some(0), Some(n / 2), Some(n - 1)] {
                jobs.push((n, back));
            }
        }
        jobs.dedup();
        let l = par_for(jobs.len(), |j, local| {
            let (n, back) = jobs[j];
            let mut targets: Vec<String> = if n <= 70 { (0..n).map(|k| format!("c{k}")).collect() } else { [0, 1, 15, 16, 17, 31, 32, 33, 63, 64, 65, n / 2, n - 2, n - 1].iter().filter(|&&k| k < n).map(|k| format!("c{k}")).collect() };
            targets.push("nope".into());
            for t in targets {
                local.eval();
                local.transitions += 1;
                local.count("wildcard-long-chain-cases");
                if let Err((sig, d)) = check_long(n, back, &t) {
                    local.fail(&sig, json!({"long_chain": n, "back": back, "target": t}), d);
                }
            }
        });
        run.absorb(l);
    }

    // grids: every grid of <= 3 rows over 8 records x a leaf core
    let grecs: Vec<Tags> = vec![
        vec![],
        mk_tags(&[("a", V::num(5.0))]),
        mk_tags(&[("a", V::num(7.0)), ("b", V::num(5.0))]),
        mk_tags(&[("a", V::str("s"))]),
        mk_tags(&[("b", V::str("s")), ("n", V::num(7.0))]),
        mk_tags(&[("a", V::Marker), ("n", V::num(7.0))]),
        mk_tags(&[("a", V::List(vec![V::num(5.0)]))]),
        mk_tags(&[("a", V::Null), ("b", V::num(5.0))]),
    ];
    let gfilters = vec![F::Has(p("a")), F::Missing(p("a")), F::Cmp(p("a"), Op::Eq, V::num(5.0)), F::Cmp(p("a"), Op::Gt, V::num(5.0)), F::And(vec![F::Has(p("b")), F::Cmp(p("a"), Op::Ne, V::num(5.0))]), F::Or(vec![F::Has(p("n")), F::Cmp(p("a"), Op::Le, V::num(5.0))])];
    let mut grids: Vec<Vec<usize>> = vec![vec![]];
    let mut frontier: Vec<Vec<usize>> = vec![vec![]];
    for _ in 0..3 {
        let mut next = vec![];
        for f in &frontier {
            for i in 0..grecs.len() {
                let mut g = f.clone();
                g.push(i);
                next.push(g);
            }
        }
        grids.extend(next.clone());
        frontier = next;
    }
    let l = par_for(grids.len(), |gi, local| {
        let rows: Vec<Tags> = grids[gi].iter().map(|&k| grecs[k].clone()).collect();
        for f in &gfilters {
            local.eval();
            local.transitions += 1;
            local.count("grid-cases");
            if let Err((sig, d)) = check_grid(&rows, f) {
                local.fail(&sig, json!({"grid_rows": rows.iter().map(|r| to_json(&V::Dict(r.clone()))).collect::<Vec<_>>(), "filter": f_json(f)}), d);
            }
        }
    });
    run.absorb(l);
    run.stats.traces = run.stats.transitions;
    run.require(run.stats.outcomes.contains("both"), "no filter with both outcomes");
    run.require(run.counter("wildcard-cases") > 100 && run.counter("grid-cases") > 1000, "wildcard/grid cases");
    run.stats.samples = vec![
        json!({"filter": "a < 5", "record": "{}", "expected": false}),
        json!({"filter": "( a == 5 or n > 5 ) and not b", "records": 144}),
        json!({"filter": "a *== @r3", "refs": "r1->r2->r3->r2"}),
    ];
    run.finish(&replay)
}

pub fn replay(case: &J) -> Verdict {
    if let Some(n) = case.get("long_chain").and_then(|x| x.as_u64()) {
        return check_long(n as usize, case["back"].as_u64().map(|b| b as usize), case["target"].as_str().unwrap_or(""));
    }
    if let Some(c) = case.get("compound").and_then(|c| c.as_array()) {
        let w = case["wildcard_world"].as_u64().unwrap_or(0) as usize;
        return check_compound(w, case["target"].as_str().unwrap_or(""), c[0].as_u64().unwrap_or(0) as usize, c[1].as_u64().unwrap_or(0) as usize);
    }
    if let Some(w) = case.get("wildcard_world") {
        return check_wildcard(w.as_u64().unwrap() as usize, case["target"].as_str().unwrap());
    }
    let f = f_unjson(&case["filter"]);
    if let Some(rows) = case.get("grid_rows") {
        let rows: Vec<Tags> = rows
            .as_array()
            .unwrap()
            .iter()
            .map(|j| match from_json(j) {
                V::Dict(t) => t,
                _ => vec![],
            })
            .collect();
        return check_grid(&rows, &f);
    }
    let rec = match from_json(&case["record"]) {
        V::Dict(t) => t,
        _ => vec![],
    };
    check_one(&f, &to_lib_filter(&f), &rec, &lib_dict(&rec))
}
