//! C15 — every database unit is found by each of its names and survives both codecs. Exhaustive.

use super::common::Verdict;
use crate::engine::{guarded, par_for, Local, Run, Tier};
use crate::model::units_ref::{db, RefUnit};
use libhaystack::encoding::zinc::decode::from_str;
use libhaystack::encoding::zinc::encode::to_zinc_string;
use libhaystack::units::{get_unit, Unit};
use libhaystack::val::{Number, Value};
use serde_json::{json, Value as J};

const MAGS: &[f64] = &[0.0, -0.0, 1.0, -1.0, 5.0, 0.5, -2.5e-3, 1e-7, 123456789.125, 1e15, 1.2345678901234568e17, 1e21, 5e-324, 0.30000000000000004, 100.0, 1.7976931348623157e308];

fn lib_matches_ref(u: &Unit, r: &RefUnit) -> Result<(), String> {
    if u.ids != r.ids {
        return Err(format!("ids {:?} vs units.txt {:?}", u.ids, r.ids));
    }
    if u.quantity.as_deref() != Some(r.quantity.as_str()) {
        return Err(format!("quantity {:?} vs units.txt {:?}", u.quantity, r.quantity));
    }
    let d = u.dimensions.map(|d| [d.kg, d.m, d.sec, d.k, d.a, d.mol, d.cd]);
    if d != r.dims {
        return Err(format!("dimensions {:?} vs units.txt {:?}", d, r.dims));
    }
    if u.scale != r.scale || u.offset != r.offset {
        return Err(format!("scale/offset {}/{} vs units.txt {}/{}", u.scale, u.offset, r.scale, r.offset));
    }
    Ok(())
}

fn number_roundtrips(x: f64, unit: &'static Unit) -> Verdict {
    let v = Value::Number(Number { value: x, unit: Some(unit) });
    let ok = |back: &Value| matches!(back, Value::Number(n) if n.value == x && n.unit.map_or(false, |u| std::ptr::eq(u, unit)));
    let z = super::common::zinc_text_all_writers(&v).map_err(|(s, d)| (format!("zinc-{s}"), d))?;
    let back = from_str(&z).map_err(|e| ("zinc-decode".to_string(), format!("{e}; text={z:?}")))?;
    if !ok(&back) {
        return Err(("zinc-roundtrip".into(), format!("{z:?} decodes to {back:?}")));
    }
    let j = serde_json::to_string(&v).map_err(|e| ("hayson-encode".to_string(), e.to_string()))?;
    let back: Value = serde_json::from_str(&j).map_err(|e| ("hayson-decode".to_string(), format!("{e}; text={j}")))?;
    if !ok(&back) {
        return Err(("hayson-roundtrip".into(), format!("{j} decodes to {back:?}")));
    }
    // the other serde entry points (to_value sorts the members: _kind, unit, val), and the typed Number
    let tree = serde_json::to_value(&v).map_err(|e| ("hayson-encode".to_string(), e.to_string()))?;
    let back: Value = serde_json::from_value(tree.clone()).map_err(|e| ("hayson-decode:from_value".to_string(), format!("{e}; tree={tree}")))?;
    if !ok(&back) {
        return Err(("hayson-roundtrip:to_value-from_value".into(), format!("{tree} decodes to {back:?}")));
    }
    let sorted = tree.to_string();
    let back: Value = serde_json::from_str(&sorted).map_err(|e| ("hayson-decode:sorted-members".to_string(), format!("{e}; text={sorted}")))?;
    if !ok(&back) {
        return Err(("hayson-roundtrip:sorted-members".into(), format!("{sorted} decodes to {back:?}")));
    }
    let n = Number { value: x, unit: Some(unit) };
    let jn = serde_json::to_string(&n).map_err(|e| ("hayson-encode:typed".to_string(), e.to_string()))?;
    for text in [jn, sorted] {
        let bn: Number = serde_json::from_str(&text).map_err(|e| ("hayson-decode:typed".to_string(), format!("{e}; text={text}")))?;
        if !(bn.value == x && bn.unit.map_or(false, |u| std::ptr::eq(u, unit))) {
            return Err(("hayson-roundtrip:typed".into(), format!("{text} decodes to {bn:?}")));
        }
    }
    // positions: followed by another tag in a dict, last cell of a row, grid meta, column meta, list element
    if x.is_finite() && (x == 5.0 || x == -2.5e-3 || x == 1e21) {
        use libhaystack::val::{Column, Dict, Grid};
        let mut d = Dict::new();
        d.insert("a".into(), v.clone());
        d.insert("b".into(), Value::make_marker());
        d.insert("c".into(), v.clone());
        let g = Grid { meta: Some(d.clone()), columns: vec![Column { name: "a".into(), meta: Some(d.clone()) }, Column { name: "c".into(), meta: None }], rows: vec![d.clone(), d.clone()], ver: "3.0".into() };
        let whole = Value::make_list(vec![v.clone(), Value::Dict(d.clone()), Value::Grid(g), v.clone()]);
        let z = to_zinc_string(&whole).map_err(|e| ("zinc-encode:positions".to_string(), e.to_string()))?;
        let back = from_str(&z).map_err(|e| ("zinc-decode:positions".to_string(), format!("{e}; text={z:?}")))?;
        // absent and empty column meta are the same thing: compare through the re-encoded text
        if to_zinc_string(&back).ok() != Some(z.clone()) {
            return Err(("zinc-roundtrip:positions".into(), format!("{z:?} decodes to {back:?}")));
        }
        let j = serde_json::to_string(&whole).map_err(|e| ("hayson-encode:positions".to_string(), e.to_string()))?;
        let back: Value = serde_json::from_str(&j).map_err(|e| ("hayson-decode:positions".to_string(), format!("{e}; text={j}")))?;
        // absent and empty column meta are the same thing in Hayson: compare through Zinc text
        if to_zinc_string(&back).ok() != Some(z.clone()) {
            return Err(("hayson-roundtrip:positions".into(), format!("{j} decodes to {back:?}")));
        }
    }
    Ok(())
}

/// all checks for unit #i of units.txt
fn check_unit(i: usize, local: &mut Local) {
    let r = &db().units[i];
    let fail = |local: &mut Local, stage: &str, id: &str, detail: String| {
        local.fail(&format!("{stage}:{}", id_class(id)), json!({"unit_index": i, "id": id, "stage": stage}), detail);
    };
    let first = match get_unit(&r.ids[0]) {
        Some(u) => u,
        None => {
            fail(local, "lookup-none", &r.ids[0], format!("get_unit({:?}) = None", r.ids[0]));
            return;
        }
    };
    local.eval();
    if let Err(d) = lib_matches_ref(first, r) {
        fail(local, "table-differs", &r.ids[0], d);
    }
    for id in &r.ids {
        local.eval();
        local.nontrivial(id);
        match get_unit(id) {
            Some(u) if std::ptr::eq(u, first) => local.outcome("found"),
            Some(u) => fail(local, "lookup-other-unit", id, format!("get_unit({id:?}) = {:?}, expected {:?}", u.ids, r.ids)),
            None => fail(local, "lookup-none", id, format!("get_unit({id:?}) = None")),
        }
        // Zinc text `m id` for every id, m spelled as integer, fraction and exponent
        for (text, val) in [("7", 7.0), ("-2.5", -2.5), ("1e3", 1e3), ("1E-3", 1e-3), ("1.5e+2", 150.0), ("0.0000001", 1e-7)] {
            local.eval();
            let t = format!("{text}{id}");
            match guarded(|| from_str(&t)) {
                Ok(Ok(Value::Number(n))) if n.value == val && n.unit.map_or(false, |u| std::ptr::eq(u, first)) => {}
                Ok(other) => fail(local, "zinc-text", id, format!("{t:?} decodes to {other:?}")),
                Err(p) => fail(local, "zinc-text-panic", id, p),
            }
        }
    }
    for &x in MAGS {
        local.eval();
        match guarded(|| number_roundtrips(x, first)) {
            Ok(Ok(())) => {}
            Ok(Err((stage, d))) => fail(local, &stage, r.symbol(), d),
            Err(p) => fail(local, "panic", r.symbol(), p),
        }
    }
    local.count("units");
}

fn id_class(id: &str) -> String {
    crate::model::shrink::str_classes(id)
}

const UNIT_CHARS: &[&str] = &["a", "k", "W", "h", "m", "s", "%", "$", "/", "_", "°", "µ", "²", "Ω", "Δ"];

fn non_ids() -> Vec<String> {
    let d = db();
    let mut out = std::collections::BTreeSet::new();
    // every string of length <= 3 over the unit-character alphabet
    for a in UNIT_CHARS {
        out.insert(a.to_string());
        for b in UNIT_CHARS {
            out.insert(format!("{a}{b}"));
            for c in UNIT_CHARS {
                out.insert(format!("{a}{b}{c}"));
            }
        }
    }
    // every id with one character deleted, appended or substituted
    for id in d.by_id.keys() {
        let ch: Vec<char> = id.chars().collect();
        for i in 0..ch.len() {
            let mut c = ch.clone();
            c.remove(i);
            out.insert(c.iter().collect());
            let mut c = ch.clone();
            c[i] = if c[i] == 'q' { 'x' } else { 'q' };
            out.insert(c.iter().collect());
            let mut c = ch.clone();
            c[i] = if c[i].is_lowercase() { c[i].to_uppercase().next().unwrap() } else { c[i].to_lowercase().next().unwrap() };
            out.insert(c.iter().collect());
        }
        out.insert(format!("{id}s"));
        out.insert(format!("{id}_"));
        out.insert(format!(" {id}"));
    }
    out.insert(String::new());
    out.into_iter().filter(|s| !d.by_id.contains_key(s)).collect()
}

/// the operation of the history / free-running checks: look-up, Zinc and Hayson decoding of a unit id
fn unit_probe_op(id: &String) -> String {
    let u = get_unit(id).map(|u| u as *const Unit as usize);
    let t = format!("[5{id},{{a:7{id} b}}]");
    let z = from_str(&t).map(|v| format!("{v:?}")).map_err(|e| e.to_string());
    let j = serde_json::from_str::<Value>(&format!("{{\"_kind\":\"number\",\"val\":5,\"unit\":{}}}", serde_json::to_string(id).unwrap())).map(|v| format!("{v:?}")).map_err(|e| e.to_string());
    format!("{u:?}|{z:?}|{j:?}")
}

fn unit_probe_pool() -> Vec<String> {
    let mut ids: Vec<String> = db().by_id.keys().cloned().collect();
    ids.sort();
    ids.into_iter().step_by(5).collect()
}

pub fn run(tier: Tier) -> i32 {
    let mut run = Run::new("C15", tier, "exploration");
    run.rule = "all units of units.txt (parsed by the harness) x all their ids: pointer-identical lookup, table agreement, Zinc text `m id` in 6 spellings; 16 magnitudes through both codecs — Zinc, Hayson to_string/from_str, to_value/from_value, the member-sorted text, the typed Number — and in five positions (list element, dict value followed by another tag, grid meta, column meta, last cell of a row); every ordered pair of identifiers as two numbers in one document (list and dict); two different database entries never compare equal (as units or inside Numbers); every non-id string (length<=3 over the unit alphabet, every 1-edit of an id; every id with any one character replaced by — or an end extended with — each of ~480 characters of the Latin-1, Greek, super/subscript, letterlike and full-width blocks) must not be found; non-trivial = distinct id / non-id string".into();
    run.assume("unit-gen/units.txt is the unit database of record");
    crate::engine::quiet_panics();
    if super::common::probe_first(&mut run, "unit-lookup", &unit_probe_pool(), &unit_probe_op, &|id: &String| json!(id)) {
        return run.finish(&replay);
    }
    let d = db();
    if !d.duplicate_ids.is_empty() {
        run.stats.fail("duplicate-id-in-database", json!({"ids": d.duplicate_ids}), format!("ids naming two units: {:?}", d.duplicate_ids));
    }
    let l = par_for(d.units.len(), |i, local| check_unit(i, local));
    run.absorb(l);
    // the library must not know more units than the database
    let lib_units: std::collections::BTreeSet<String> = libhaystack::units::units_generated::UNITS.keys().map(|k| k.to_string()).collect();
    for k in &lib_units {
        run.stats.evals += 1;
        if !d.by_id.contains_key(k) {
            run.stats.fail("extra-id", json!({"id": k, "stage": "extra-id"}), format!("library knows {k:?}, units.txt does not"));
        }
    }
    // two units in one document: `[5<id1>,7<id2>,{a:1<id1> b:2<id2>}]` for ALL ordered pairs of
    // identifiers (a unit text that is a prefix of the one before it, a parser that remembers …)
    {
        let ids: Vec<(String, usize)> = d.by_id.iter().map(|(k, v)| (k.clone(), *v)).collect();
        let l = par_for(ids.len(), |i, local| {
            let (a, ia) = &ids[i];
            for (b, ib) in &ids {
                local.eval();
                let t = format!("[5{a},7{b},{{x:1{a} y:2{b}}}]");
                let ok = match guarded(|| from_str(&t)) {
                    Ok(Ok(Value::List(l))) if l.len() == 3 => {
                        let unit_is = |v: &Value, want: usize| matches!(v, Value::Number(n) if n.unit.map_or(false, |u| u.ids == d.units[want].ids));
                        let inner = match &l[2] {
                            Value::Dict(dd) => dd.get("x").map_or(false, |v| unit_is(v, *ia)) && dd.get("y").map_or(false, |v| unit_is(v, *ib)),
                            _ => false,
                        };
                        unit_is(&l[0], *ia) && unit_is(&l[1], *ib) && inner
                    }
                    _ => false,
                };
                if !ok {
                    local.fail(&format!("two-units-in-one-document:{}", id_class(b)), json!({"unit_index": ia, "id": a, "other": b, "stage": "two-units-in-one-document"}), format!("{t:?} does not decode to numbers in {a:?} and {b:?}: {:?}", guarded(|| from_str(&t).map(|v| format!("{v:?}").chars().take(300).collect::<String>()))));
                }
            }
            local.count("unit-pair-documents");
        });
        run.absorb(l);
    }
    // two different entries of the database are different units: as Unit values and inside Numbers
    {
        let units: Vec<&'static Unit> = d.units.iter().filter_map(|r| get_unit(&r.ids[0])).collect();
        let l = par_for(units.len(), |i, local| {
            for (j, b) in units.iter().enumerate() {
                local.eval();
                let a = units[i];
                let same_entry = i == j;
                let na = Value::Number(Number { value: 5.0, unit: Some(a) });
                let nb = Value::Number(Number { value: 5.0, unit: Some(b) });
                if (a == *b) != same_entry || (na == nb) != same_entry {
                    local.fail(&format!("distinct-units-compare-equal:{}", id_class(a.ids.last().unwrap())), json!({"unit_index": i, "id": a.ids[0], "other": b.ids[0], "stage": "distinct-units-compare-equal"}), format!("{:?} == {:?} is {} (Numbers: {})", a.ids, b.ids, a == *b, na == nb));
                }
            }
        });
        run.absorb(l);
    }
    // history independence of look-up and of number decoding: every ordered pair of identifiers
    {
        let ids: Vec<String> = d.by_id.keys().cloned().collect();
        let op = |id: &String| -> String {
            let u = get_unit(id).map(|u| u as *const Unit as usize);
            let t = format!("[5{id},{{a:7{id} b}}]");
            let z = from_str(&t).map(|v| format!("{v:?}")).map_err(|e| e.to_string());
            let j = serde_json::from_str::<Value>(&format!("{{\"_kind\":\"number\",\"val\":5,\"unit\":{}}}", serde_json::to_string(id).unwrap())).map(|v| format!("{v:?}")).map_err(|e| e.to_string());
            format!("{u:?}|{z:?}|{j:?}")
        };
        let l = super::common::history_pairs("unit-lookup", &ids, &op, &|id: &String| json!(id));
        run.absorb(l);
    }
    let non = non_ids();
    run.note("non_identifier_strings", json!(non.len()));
    let l = par_for(non.len(), |i, local| {
        local.eval();
        local.nontrivial(&non[i]);
        if let Some(u) = get_unit(&non[i]) {
            local.fail(&format!("non-id-found:{}", id_class(&non[i])), json!({"id": non[i], "stage": "non-id"}), format!("get_unit({:?}) = {:?}", non[i], u.ids));
        } else {
            local.outcome("none");
        }
    });
    run.absorb(l);
    // wide substitution: every character of every identifier replaced by (thorough: also every
    // position preceded by) every character of the Latin-1, Greek, super/subscript, letterlike and
    // full-width blocks — look-alikes and compatibility forms of the database's own characters
    // (µ/μ, Ω/Ω, °/º, ²/2 ...) are in there without being listed by hand
    {
        let wide: Vec<char> = (0xa1u32..=0xff).chain(0x370..=0x3ff).chain(0x2070..=0x209f).chain(0x2100..=0x214f).chain(0xff01..=0xff5e).chain([0x200b, 0xfeff, 0x301, 0x20ac]).filter_map(char::from_u32).collect();
        let ids: Vec<&String> = d.by_id.keys().collect();
        let l = par_for(ids.len(), |i, local| {
            let ch: Vec<char> = ids[i].chars().collect();
            for pos in 0..=ch.len() {
                for &w in &wide {
                    let mut variants: Vec<String> = vec![];
                    if pos < ch.len() && ch[pos] != w {
                        let mut c = ch.clone();
                        c[pos] = w;
                        variants.push(c.iter().collect());
                    }
                    if tier == Tier::Thorough || pos == ch.len() || pos == 0 {
                        let mut c = ch.clone();
                        c.insert(pos, w);
                        variants.push(c.iter().collect());
                    }
                    for t in variants {
                        if d.by_id.contains_key(&t) {
                            continue;
                        }
                        local.eval();
                        local.count("wide-edits");
                        if let Some(u) = get_unit(&t) {
                            local.fail(&format!("non-id-found:{}", id_class(&t)), json!({"id": t, "stage": "non-id"}), format!("get_unit({t:?}) = {:?}", u.ids));
                        }
                    }
                }
            }
        });
        run.absorb(l);
        run.require(run.counter("wide-edits") > 1_000_000, "wide substitution sweep too small");
    }
    run.require(run.counter("units") as usize == d.units.len() && d.units.len() >= 400, "not all units swept");
    run.stats.samples = vec![json!({"unit": "kilowatt", "ids": ["kilowatt", "kW"], "zinc": ["7kW", "1.5e+2kilowatt"]}), json!({"non_id": "kWs"})];
    run.finish(&replay)
}

pub fn replay(case: &J) -> Verdict {
    if case["free_running"] == "unit-lookup" {
        return super::common::replay_probe(&unit_probe_pool(), &unit_probe_op, &|id: &String| json!(id));
    }
    let mut l = Local::new();
    if case["stage"] == "two-units-in-one-document" || case["stage"] == "distinct-units-compare-equal" {
        let (a, b) = (case["id"].as_str().unwrap_or(""), case["other"].as_str().unwrap_or(""));
        let d = db();
        if case["stage"] == "distinct-units-compare-equal" {
            let (ua, ub) = (get_unit(a), get_unit(b));
            return match (ua, ub) {
                (Some(ua), Some(ub)) if ua.ids != ub.ids && ua == ub => Err((format!("distinct-units-compare-equal:{}", id_class(ua.ids.last().unwrap())), format!("{:?} == {:?}", ua.ids, ub.ids))),
                _ => Ok(()),
            };
        }
        let t = format!("[5{a},7{b},{{x:1{a} y:2{b}}}]");
        let (ia, ib) = (d.by_id.get(a).copied(), d.by_id.get(b).copied());
        let ok = match (guarded(|| from_str(&t)), ia, ib) {
            (Ok(Ok(Value::List(l))), Some(ia), Some(ib)) if l.len() == 3 => {
                let unit_is = |v: &Value, want: usize| matches!(v, Value::Number(n) if n.unit.map_or(false, |u| u.ids == d.units[want].ids));
                let inner = match &l[2] {
                    Value::Dict(dd) => dd.get("x").map_or(false, |v| unit_is(v, ia)) && dd.get("y").map_or(false, |v| unit_is(v, ib)),
                    _ => false,
                };
                unit_is(&l[0], ia) && unit_is(&l[1], ib) && inner
            }
            _ => false,
        };
        return if ok { Ok(()) } else { Err((format!("two-units-in-one-document:{}", id_class(b)), t)) };
    }
    if case["history_pair"].is_string() {
        return Err(("history-changes-output:unit-lookup".into(), "re-run ./check C15 quick".into()));
    }
    if let Some(i) = case["unit_index"].as_u64() {
        check_unit(i as usize, &mut l);
        let stage = case["stage"].as_str().unwrap_or("");
        let id = case["id"].as_str().unwrap_or("");
        let want = format!("{stage}:{}", id_class(id));
        return match l.fails.get(&want) {
            Some(f) => Err((f.sig.clone(), f.detail.clone())),
            None => Ok(()),
        };
    }
    if case["stage"] == "non-id" {
        let id = case["id"].as_str().unwrap_or("");
        return match get_unit(id) {
            Some(u) => Err((format!("non-id-found:{}", id_class(id)), format!("get_unit({id:?}) = {:?}", u.ids))),
            None => Ok(()),
        };
    }
    if case["stage"] == "extra-id" {
        let id = case["id"].as_str().unwrap_or("");
        if libhaystack::units::units_generated::UNITS.contains_key(id) && !db().by_id.contains_key(id) {
            return Err(("extra-id".into(), format!("library knows {id:?}, units.txt does not")));
        }
        return Ok(());
    }
    if !db().duplicate_ids.is_empty() {
        return Err(("duplicate-id-in-database".into(), format!("ids naming two units: {:?}", db().duplicate_ids)));
    }
    Ok(())
}
