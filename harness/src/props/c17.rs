//! C17 — the C API behaves exactly like the Rust API on the same values (DESIGN §5 C17).
//! Explicit-state search (E3): BFS over canonical pool states; every transition executes the real
//! `extern "C"` function on a pool rebuilt by replaying the shortest history of the state, in
//! lock-step with the pure-Rust model (model/capi.rs).

use super::common::Verdict;
use crate::engine::{guarded, par_for, Local, Run, Tier};
use crate::model::capi::*;
use serde_json::{json, Value as J};
use std::collections::{BTreeMap, VecDeque};

/// replay a history on a fresh real pool and a fresh model, checking every step; after the last
/// step compare the pools deeply and inspect every live handle. The real pool is always cleaned
/// up under the protocol (each live handle destroyed exactly once).
pub fn run_history(ops: &[Op], inspect_all: bool) -> Result<Model, (usize, String)> {
    let mut model = Model::new();
    let mut real = Real::new();
    let mut failure: Option<(usize, String)> = None;
    unsafe {
        for (i, op) in ops.iter().enumerate() {
            let want = model_step(&mut model, op);
            if let Err(e) = real.step(op, &want) {
                failure = Some((i, e));
                break;
            }
            // a failed operation leaves all handles unchanged; a successful one changes exactly
            // what the Rust operation changes: compare the whole pool after every step
            if let Err(e) = real.compare(&model) {
                failure = Some((i, format!("after {op:?}: {e}")));
                break;
            }
            if inspect_all || i + 1 == ops.len() {
                for s in 0..SLOTS {
                    if let Some(v) = &model.slots[s] {
                        if let Err(e) = real.inspect(s, v) {
                            failure = Some((i, format!("after {op:?}, handle {s}: {e}")));
                            break;
                        }
                    }
                }
                if failure.is_some() {
                    break;
                }
            }
        }
        real.cleanup();
    }
    match failure {
        Some(f) => Err(f),
        None => Ok(model),
    }
}

pub fn op_class(op: &Op) -> String {
    match op {
        Op::Make(_, c) => {
            let s = format!("{c:?}");
            format!("make:{}", s.split(|ch: char| ch == '(' || ch == ' ').next().unwrap_or(""))
        }
        other => {
            let s = format!("{other:?}");
            s.split('(').next().unwrap_or("").to_string()
        }
    }
}

fn ops_json(ops: &[Op]) -> J {
    J::Array(ops.iter().map(|o| json!(format!("{o:?}"))).collect())
}

/// ops are replayed from their index paths (deterministic `enabled` order), which keeps replay
/// files independent of the Debug format
pub fn path_to_ops(path: &[usize]) -> Option<Vec<Op>> {
    let mut m = Model::new();
    let mut ops = vec![];
    for &i in path {
        let en = enabled(&m);
        let op = en.get(i)?.clone();
        model_step(&mut m, &op);
        ops.push(op);
    }
    Some(ops)
}

pub struct Search {
    pub states: BTreeMap<String, Vec<usize>>,
    pub transitions: u64,
    pub by_depth: Vec<usize>,
    pub capped: bool,
}

/// BFS to `depth`; `visit(path, ops)` is called for every transition (path = index path)
pub fn bfs(depth: usize, max_states: usize, visit: &(dyn Fn(&[usize], &[Op], &mut Local) + Sync)) -> (Search, Local) {
    let mut states: BTreeMap<String, Vec<usize>> = BTreeMap::new();
    states.insert(Model::new().key(), vec![]);
    let mut frontier: VecDeque<Vec<usize>> = VecDeque::new();
    frontier.push_back(vec![]);
    let mut total = Local::new();
    let mut transitions = 0u64;
    let mut by_depth = vec![1usize];
    let mut capped = false;
    for d in 0..depth {
        let level: Vec<Vec<usize>> = frontier.drain(..).collect();
        if level.is_empty() {
            break;
        }
        // all transitions of this level, in parallel; results merged in deterministic order
        let results: std::sync::Mutex<Vec<(Vec<usize>, String)>> = std::sync::Mutex::new(vec![]);
        let l = par_for(level.len(), |li, local| {
            let path = &level[li];
            let ops = path_to_ops(path).expect("path");
            let mut m = Model::new();
            for op in &ops {
                model_step(&mut m, op);
            }
            let en = enabled(&m);
            let mut out = vec![];
            for (k, op) in en.iter().enumerate() {
                let mut p2 = path.clone();
                p2.push(k);
                let mut ops2 = ops.clone();
                ops2.push(op.clone());
                visit(&p2, &ops2, local);
                let mut m2 = m.clone();
                model_step(&mut m2, op);
                out.push((p2, m2.key()));
            }
            results.lock().unwrap().extend(out);
        });
        total.merge(l);
        let mut res = results.into_inner().unwrap();
        res.sort();
        transitions += res.len() as u64;
        let mut new_states = 0;
        for (p, key) in res {
            if !states.contains_key(&key) {
                if states.len() >= max_states {
                    capped = true;
                    continue;
                }
                states.insert(key, p.clone());
                if d + 1 < depth {
                    frontier.push_back(p);
                }
                new_states += 1;
            }
        }
        by_depth.push(new_states);
    }
    (Search { states, transitions, by_depth, capped }, total)
}

fn visit(path: &[usize], ops: &[Op], local: &mut Local) {
    local.eval();
    local.transitions += 1;
    local.traces += 1;
    let last = ops.last().unwrap();
    local.count(&format!("op:{}", op_class(last)));
    let res = guarded(|| run_history(ops, false));
    match res {
        Ok(Ok(m)) => {
            // success / failure accounting per function (vacuity guard)
            let mut m0 = Model::new();
            let mut ret = Ret::Ok;
            for op in ops {
                ret = model_step(&mut m0, op).ret;
            }
            local.count(&format!("{}:{}", if ret == Ret::Fail { "failed" } else { "succeeded" }, op_class(last)));
            local.outcome(&format!("{ret:?}"));
            let _ = m;
        }
        Ok(Err((i, e))) => {
            local.fail(&format!("capi:{}", op_class(&ops[i])), json!({"path": path, "ops": ops_json(ops)}), e);
        }
        Err(p) => {
            local.fail(&format!("panic:{}", op_class(last)), json!({"path": path, "ops": ops_json(ops)}), p);
        }
    }
}

pub fn run(tier: Tier) -> i32 {
    let mut run = Run::new("C17", tier, "model_checking");
    let depth = tier.pick(4usize, 5);
    run.rule = format!("model: pool of {SLOTS} value handles + 1 filter handle; ~35 constructors (every kind; valid, invalid and non-UTF-8 arguments; from Zinc / JSON text; from other handles: utc/tz datetime, grid from rows with/without meta) and every list/dict/grid/datetime/filter operation over slot indices, list index {{0,1,7}}, keys {{a,b,invalid UTF-8}}, 5 filter texts. BFS over canonical model states to depth {depth}; every transition = one real extern \"C\" call on a real pool rebuilt by replaying the state's shortest history; after every step: return value = model (documented sentinel on failure), error message retrievable exactly once iff failure, whole pool deep-equal to the model (failure leaves all handles unchanged), borrowed entry pointers dereferenced immediately; after the last step every live handle is inspected with all 18 predicates and 35 getters incl. to_zinc_string / to_json_string against the Rust encoders. Symmetric states merged by constructing into the first free slot; plus one sweep of every string argument of every function with bytes that are not UTF-8 (sentinel, message, arguments unchanged)");
    run.assume("the model is written from the header documentation and the Rust API (Appendix C); equal model pools have equal futures (the API has no other state than the handles and the thread-local last error)");
    crate::engine::quiet_panics();
    let (search, l) = bfs(depth, tier.pick(1_500_000, 6_000_000), &visit);
    run.absorb(l);
    run.stats.states = search.states.len() as u64;
    for k in search.states.keys().take(200_000) {
        run.stats.nontrivial(k);
    }
    // every string argument of every function, not UTF-8 (state independent)
    run.stats.evals += 1;
    match guarded(|| unsafe { crate::model::capi::bad_string_sweep() }) {
        Ok(Ok(n)) => run.stats.count_n("non-utf8-string-calls", n),
        Ok(Err(e)) => {
            let f = e.split(|c| c == ' ' || c == '(').next().unwrap_or("").to_string();
            run.stats.fail(&format!("non-utf8-argument:{f}"), json!({"bad_string_sweep": true}), e)
        }
        Err(p) => run.stats.fail("non-utf8-argument:panic", json!({"bad_string_sweep": true}), p),
    }
    run.note("states_by_depth", json!(search.by_depth));
    run.note("depth", json!(depth));
    run.exhaustive = !search.capped;
    // vacuity: every operation class both succeeded and failed at least once
    if run.stats.fails.is_empty() {
        for c in ["Push", "SetAt", "RemoveAt", "GetAt", "Insert", "RemoveKey", "GetKey", "Keys", "RowAt", "DtDate", "DtTime", "FilterParse", "MatchDict", "FirstMatch", "MatchAll", "make:NumberUnit", "make:Zinc", "make:Json", "make:TzDt", "make:UtcDt", "make:GridFromRows", "make:GridFromRowsMeta", "make:Date", "make:Time"] {
            run.require(run.counter(&format!("succeeded:{c}")) > 0, &format!("operation {c} never succeeded"));
            if !matches!(c, "RemoveKey") {
                run.require(run.counter(&format!("failed:{c}")) > 0, &format!("operation {c} never failed"));
            }
        }
    }
    run.stats.samples = vec![
        json!({"history": ["Make(0, List)", "Make(1, Number)", "Push(0, 1)", "SetAt(0, 0, 1)"]}),
        json!({"history": ["Make(0, Date(2021,2,28))", "Make(1, Time(12,30,15))", "Make(2, TzDt(0, 1, New_York))"]}),
    ];
    run.finish(&replay)
}

pub fn replay(case: &J) -> Verdict {
    if case["bad_string_sweep"] == true {
        return match guarded(|| unsafe { crate::model::capi::bad_string_sweep() }) {
            Ok(Ok(_)) => Ok(()),
            Ok(Err(e)) => {
                let f = e.split(|c| c == ' ' || c == '(').next().unwrap_or("").to_string();
                Err((format!("non-utf8-argument:{f}"), e))
            }
            Err(p) => Err(("non-utf8-argument:panic".into(), p)),
        };
    }
    let path: Vec<usize> = case["path"].as_array().map(|a| a.iter().map(|x| x.as_u64().unwrap() as usize).collect()).unwrap_or_default();
    let ops = match path_to_ops(&path) {
        Some(o) => o,
        None => return Err(("replay-path-invalid".into(), "the recorded path no longer exists in the operation alphabet".into())),
    };
    match guarded(|| run_history(&ops, false)) {
        Ok(Ok(_)) => Ok(()),
        Ok(Err((i, e))) => Err((format!("capi:{}", op_class(&ops[i])), e)),
        Err(p) => Err((format!("panic:{}", op_class(ops.last().unwrap())), p)),
    }
}

/// model-only BFS: the index paths of all transitions up to `depth` (deterministic order) and the
/// shortest path of every state reached with fewer than `depth` steps
pub fn transition_paths(depth: usize, max_states: usize) -> (Vec<Vec<usize>>, Vec<Vec<usize>>) {
    let mut seen: std::collections::BTreeSet<String> = std::collections::BTreeSet::new();
    seen.insert(Model::new().key());
    let mut frontier: Vec<(Vec<usize>, Model)> = vec![(vec![], Model::new())];
    let mut transitions = vec![];
    let mut state_paths = vec![vec![]];
    for d in 0..depth {
        let mut next = vec![];
        for (path, m) in &frontier {
            for (k, op) in enabled(m).iter().enumerate() {
                let mut p2 = path.clone();
                p2.push(k);
                transitions.push(p2.clone());
                let mut m2 = m.clone();
                model_step(&mut m2, op);
                if seen.len() < max_states && seen.insert(m2.key()) && d + 1 < depth {
                    state_paths.push(p2.clone());
                    next.push((p2, m2));
                }
            }
        }
        frontier = next;
    }
    (transitions, state_paths)
}
