//! C17 — the C API behaves exactly like the Rust API on the same values (DESIGN §5 C17).
//! Explicit-state search (E3): BFS over canonical pool states; every transition executes the real
//! `extern "C"` function on a pool rebuilt by replaying the shortest history of the state, in
//! lock-step with the pure-Rust model (model/capi.rs).

use super::common::Verdict;
use crate::engine::{guarded, par_for, Local, Run, Tier};
use crate::model::capi::*;
use serde_json::{json, Value as J};
use std::collections::{BTreeMap, VecDeque};

/// replay a history on a fresh real pool and a fresh model, checking every step; after the last
/// step compare the pools deeply and inspect every live handle. The real pool is always cleaned
/// up under the protocol (each live handle destroyed exactly once).
pub fn run_history(ops: &[Op], inspect_all: bool) -> Result<Model, (usize, String)> {
    let mut model = Model::new();
    let mut real = Real::new();
    let mut failure: Option<(usize, String)> = None;
    unsafe {
        for (i, op) in ops.iter().enumerate() {
            let want = model_step(&mut model, op);
            if let Err(e) = real.step(op, &want) {
                failure = Some((i, e));
                break;
            }
            // a failed operation leaves all handles unchanged; a successful one changes exactly
            // what the Rust operation changes: compare the whole pool after every step
            if let Err(e) = real.compare(&model) {
                failure = Some((i, format!("after {op:?}: {e}")));
                break;
            }
            if inspect_all || i + 1 == ops.len() {
                for s in 0..SLOTS {
                    if let Some(v) = &model.slots[s] {
                        if let Err(e) = real.inspect(s, v) {
                            failure = Some((i, format!("after {op:?}, handle {s}: {e}")));
                            break;
                        }
                    }
                }
                if failure.is_some() {
                    break;
                }
            }
        }
        real.cleanup();
    }
    match failure {
        Some(f) => Err(f),
        None => Ok(model),
    }
}

/// the same history with a caller that never fetches the error message between calls: return
/// values and the pool must be what the draining caller sees
pub fn run_history_no_drain(ops: &[Op]) -> Result<(), (usize, String)> {
    let mut model = Model::new();
    let mut real = Real::new();
    real.drain = false;
    let mut failure = None;
    unsafe {
        let _ = take_error();
        for (i, op) in ops.iter().enumerate() {
            let want = model_step(&mut model, op);
            if let Err(e) = real.step(op, &want) {
                failure = Some((i, format!("with an unfetched error message pending: {e}")));
                break;
            }
            if let Err(e) = real.compare(&model) {
                failure = Some((i, format!("with an unfetched error message pending, after {op:?}: {e}")));
                break;
            }
        }
        real.cleanup();
        let _ = take_error();
    }
    match failure {
        Some(f) => Err(f),
        None => Ok(()),
    }
}

pub fn op_class(op: &Op) -> String {
    match op {
        Op::Make(_, c) => {
            let s = format!("{c:?}");
            format!("make:{}", s.split(|ch: char| ch == '(' || ch == ' ').next().unwrap_or(""))
        }
        other => {
            let s = format!("{other:?}");
            s.split('(').next().unwrap_or("").to_string()
        }
    }
}

fn ops_json(ops: &[Op]) -> J {
    J::Array(ops.iter().map(|o| json!(format!("{o:?}"))).collect())
}

/// ops are replayed from their index paths (deterministic `enabled` order), which keeps replay
/// files independent of the Debug format
pub fn path_to_ops(path: &[usize]) -> Option<Vec<Op>> {
    let mut m = Model::new();
    let mut ops = vec![];
    for &i in path {
        let en = enabled(&m);
        let op = en.get(i)?.clone();
        model_step(&mut m, &op);
        ops.push(op);
    }
    Some(ops)
}

pub struct Search {
    pub states: BTreeMap<String, Vec<usize>>,
    pub transitions: u64,
    pub by_depth: Vec<usize>,
    pub capped: bool,
}

/// BFS to `depth`; `visit(path, ops)` is called for every transition (path = index path)
pub fn bfs(depth: usize, max_states: usize, visit: &(dyn Fn(&[usize], &[Op], &mut Local) + Sync)) -> (Search, Local) {
    let mut states: BTreeMap<String, Vec<usize>> = BTreeMap::new();
    states.insert(Model::new().key(), vec![]);
    let mut frontier: VecDeque<Vec<usize>> = VecDeque::new();
    frontier.push_back(vec![]);
    let mut total = Local::new();
    let mut transitions = 0u64;
    let mut by_depth = vec![1usize];
    let mut capped = false;
    for d in 0..depth {
        let level: Vec<Vec<usize>> = frontier.drain(..).collect();
        if level.is_empty() {
            break;
        }
        // all transitions of this level, in parallel; results merged in deterministic order
        let results: std::sync::Mutex<Vec<(Vec<usize>, String)>> = std::sync::Mutex::new(vec![]);
        let l = par_for(level.len(), |li, local| {
            let path = &level[li];
            let ops = path_to_ops(path).expect("path");
            let mut m = Model::new();
            for op in &ops {
                model_step(&mut m, op);
            }
            let en = enabled(&m);
            let mut out = vec![];
            for (k, op) in en.iter().enumerate() {
                let mut p2 = path.clone();
                p2.push(k);
                let mut ops2 = ops.clone();
                ops2.push(op.clone());
                visit(&p2, &ops2, local);
                let mut m2 = m.clone();
                model_step(&mut m2, op);
                out.push((p2, m2.key()));
            }
            results.lock().unwrap().extend(out);
        });
        total.merge(l);
        let mut res = results.into_inner().unwrap();
        res.sort();
        transitions += res.len() as u64;
        let mut new_states = 0;
        for (p, key) in res {
            if !states.contains_key(&key) {
                if states.len() >= max_states {
                    capped = true;
                    continue;
                }
                states.insert(key, p.clone());
                if d + 1 < depth {
                    frontier.push_back(p);
                }
                new_states += 1;
            }
        }
        by_depth.push(new_states);
    }
    (Search { states, transitions, by_depth, capped }, total)
}

fn visit(path: &[usize], ops: &[Op], local: &mut Local) {
    local.eval();
    local.transitions += 1;
    local.traces += 1;
    let last = ops.last().unwrap();
    local.count(&format!("op:{}", op_class(last)));
    let res = guarded(|| run_history(ops, false));
    match res {
        Ok(Ok(m)) => {
            // success / failure accounting per function (vacuity guard)
            let mut m0 = Model::new();
            let mut ret = Ret::Ok;
            for op in ops {
                ret = model_step(&mut m0, op).ret;
            }
            local.count(&format!("{}:{}", if ret == Ret::Fail { "failed" } else { "succeeded" }, op_class(last)));
            local.outcome(&format!("{ret:?}"));
            let _ = m;
        }
        Ok(Err((i, e))) => {
            local.fail(&format!("capi:{}", op_class(&ops[i])), json!({"path": path, "ops": ops_json(ops)}), e);
        }
        Err(p) => {
            local.fail(&format!("panic:{}", op_class(last)), json!({"path": path, "ops": ops_json(ops)}), p);
        }
    }
}

// ------------------------------------------------------------------------------ focused machines

/// A focused machine: a fixed set-up and a small alphabet around one container, searched deeper
/// (and with indices, keys and aliasing the general alphabet does not have).
pub struct Machine {
    pub name: &'static str,
    pub setup: Vec<Op>,
    pub alphabet: Vec<Op>,
    pub depth: usize,
}

/// 'static byte strings built at run time; interned in a global so that each is allocated once
/// and stays reachable (LeakSanitizer must not see the harness's own constants as leaks)
fn leak(s: String) -> &'static [u8] {
    static POOL: std::sync::Mutex<Vec<&'static [u8]>> = std::sync::Mutex::new(Vec::new());
    let mut pool = POOL.lock().unwrap();
    if let Some(p) = pool.iter().find(|p| **p == s.as_bytes()) {
        return p;
    }
    let b: &'static [u8] = Box::leak(s.into_bytes().into_boxed_slice());
    pool.push(b);
    b
}

pub fn machines(tier: Tier) -> Vec<Machine> {
    let mut out = vec![];
    // list: three values pushed, replaced, removed and read at every index 0..=3, incl. the list into itself
    {
        let mut a = vec![Op::Push(0, 1), Op::Push(0, 2), Op::Push(0, 0)];
        for i in 0..=3usize {
            a.push(Op::SetAt(0, i, 1));
            a.push(Op::SetAt(0, i, 2));
            a.push(Op::RemoveAt(0, i));
            a.push(Op::GetAt(0, i));
        }
        a.push(Op::SetAt(0, 0, 0));
        out.push(Machine { name: "list", setup: vec![Op::Make(0, Ctor::List), Op::Make(1, Ctor::Number), Op::Make(2, Ctor::Str(b"s"))], alphabet: a, depth: tier.pick(5, 6) });
    }
    // dict: camelCase, empty, non-ASCII, blank-containing, 300-byte and invalid keys; overwriting; the dict into itself
    {
        let long: &'static [u8] = leak("k".repeat(300));
        let keys: Vec<&'static [u8]> = vec![b"a", b"b", b"siteRef", b"", "é".as_bytes(), b"a b", long, BAD_UTF8];
        let mut a = vec![Op::Keys(0, 2), Op::Keys(0, 0)];
        for k in keys {
            a.push(Op::Insert(0, k, 1));
            a.push(Op::Insert(0, k, 2));
            a.push(Op::RemoveKey(0, k));
            a.push(Op::GetKey(0, k));
        }
        a.push(Op::Insert(0, b"self", 0));
        out.push(Machine { name: "dict", setup: vec![Op::Make(0, Ctor::Dict), Op::Make(1, Ctor::Number), Op::Make(2, Ctor::Str(b"s"))], alphabet: a, depth: tier.pick(3, 4) });
    }
    // datetime: constructors from date + time handles and the getters, between calls that fail
    {
        let a = vec![
            Op::GetAt(0, 0),
            Op::GetKey(1, b"a"),
            Op::Make(2, Ctor::TzDt(0, 1, b"New_York")),
            Op::Make(2, Ctor::TzDt(0, 1, b"Nowhere")),
            Op::Make(2, Ctor::TzDt(1, 0, b"UTC")),
            Op::Make(2, Ctor::UtcDt(0, 1)),
            Op::Make(2, Ctor::Date(2021, 2, 30)),
            Op::Make(2, Ctor::NumberUnit(b"nope")),
            Op::Destroy(2),
            Op::DtDate(2, true, 0),
            Op::DtDate(2, false, 2),
            Op::DtTime(2, false, 1),
            Op::DtTime(0, true, 1),
        ];
        out.push(Machine { name: "datetime", setup: vec![Op::Make(0, Ctor::Date(2021, 11, 7)), Op::Make(1, Ctor::Time(5, 30, 15))], alphabet: a, depth: tier.pick(4, 5) });
    }
    // grid: four sparse rows over three columns; rows into a fresh handle, a dict handle and the grid itself; filters
    {
        let mut a = vec![];
        for i in 0..=4usize {
            a.push(Op::RowAt(0, i, 1));
            a.push(Op::RowAt(0, i, 2));
        }
        a.push(Op::RowAt(0, 1, 0));
        a.push(Op::FilterParse(b"b"));
        a.push(Op::FilterParse(b"a > 3 or c"));
        a.push(Op::FirstMatch(0, 1));
        a.push(Op::MatchAll(0, 1));
        a.push(Op::MatchAll(0, 2));
        a.push(Op::MatchAll(0, 0));
        a.push(Op::MatchAll(1, 2));
        a.push(Op::MatchDict(2));
        a.push(Op::Make(1, Ctor::GridFromRows(2)));
        a.push(Op::Destroy(1));
        out.push(Machine {
            name: "grid",
            setup: vec![Op::Make(0, Ctor::Zinc(b"ver:\"3.0\"\na,b,c\n1,2,3\n,\"x\",\n4,,6\n7,8,9\n")), Op::Make(1, Ctor::Init), Op::Make(2, Ctor::Json(b"[{\"a\":1},{\"b\":\"x\"},{\"a\":5,\"c\":{\"_kind\":\"marker\"}}]"))],
            alphabet: a,
            depth: tier.pick(3, 4),
        });
    }
    out
}

/// values the general alphabet does not construct: interior NUL in every string position, long
/// and non-ASCII strings, extreme numbers, dates and coordinates, multi-alias units, UTC timestamps
pub fn exotic_ctors() -> Vec<Ctor> {
    let long_str: &'static [u8] = leak(format!("\"{}\"", "é😀x".repeat(30_000)));
    vec![
        Ctor::Json(b"{\"_kind\":\"ref\",\"val\":\"a\\u0000b\"}"),
        Ctor::Json(b"{\"_kind\":\"ref\",\"val\":\"r\",\"dis\":\"a\\u0000b\"}"),
        Ctor::Json(b"{\"_kind\":\"symbol\",\"val\":\"a\\u0000b\"}"),
        Ctor::Json(b"{\"_kind\":\"xstr\",\"type\":\"T\\u0000y\",\"val\":\"v\"}"),
        Ctor::Json(b"{\"_kind\":\"xstr\",\"type\":\"Ty\",\"val\":\"a\\u0000b\"}"),
        Ctor::Json(b"{\"_kind\":\"uri\",\"val\":\"a\\u0000b\"}"),
        Ctor::Json(b"{\"a\\u0000b\":1}"),
        Ctor::Json(b"\"a\\u0000b\""),
        Ctor::Json(b"[{\"_kind\":\"ref\",\"val\":\"a\\u0000b\"}]"),
        Ctor::Json(b"{\"_kind\":\"grid\",\"cols\":[{\"name\":\"a\\u0000b\"}],\"rows\":[]}"),
        Ctor::Json(b"{\"_kind\":\"dateTime\",\"val\":\"2021-01-01T00:00:00Z\",\"tz\":\"UTC\"}"),
        Ctor::Json(b"{\"_kind\":\"number\",\"val\":5,\"unit\":\"kilowatt\"}"),
        Ctor::Json(b"{\"_kind\":\"number\",\"val\":\"-INF\"}"),
        Ctor::Json(b"{\"_kind\":\"coord\",\"lat\":91,\"lng\":-181.5}"),
        Ctor::Zinc(b"\"a\\u0000b\""),
        Ctor::Zinc(b"`a\\u0000b`"),
        Ctor::Zinc(b"@r \"a\\u0000b\""),
        Ctor::Zinc(long_str),
        Ctor::Zinc("\"é😀\"".as_bytes()),
        Ctor::Zinc(b"\"\""),
        Ctor::Zinc(b"-0"),
        Ctor::Zinc(b"NaN"),
        Ctor::Zinc(b"-INF"),
        Ctor::Zinc(b"1e400"),
        Ctor::Zinc(b"4294967296.5"),
        Ctor::Zinc(b"-2147483649"),
        Ctor::Zinc(b"5kilowatt"),
        Ctor::Zinc(b"9999-12-31"),
        Ctor::Zinc(b"0000-01-01"),
        Ctor::Zinc(b"2024-02-29"),
        Ctor::Zinc(b"23:59:59.999999999"),
        Ctor::Zinc(b"2016-12-31T23:59:60Z"),
        Ctor::Zinc(b"2021-01-01T00:00:00Z"),
        Ctor::Zinc(b"1969-12-31T23:59:59.5-10:00 Honolulu"),
        Ctor::Zinc(b"C(90,-180)"),
        Ctor::Zinc(b"C(37.5451234567,-77.4491234567)"),
        Ctor::Zinc(b"Span(\"today\")"),
        Ctor::Zinc(b"^lib:ph"),
        Ctor::Zinc(b"`http://x/a b?q=\\`1`"),
        Ctor::Zinc(b"[[[[1]]],{a:{b:{c:[]}}}]"),
        Ctor::Date(9999, 12, 31),
        Ctor::Date(-1, 1, 1),
        Ctor::Date(2021, 13, 1),
        Ctor::Date(2021, 0, 0),
        Ctor::Time(23, 59, 59),
        Ctor::Time(24, 0, 0),
        Ctor::Time(0, 60, 0),
        Ctor::Time(0, 0, 60),
        Ctor::TimeMillis(999),
        Ctor::TimeMillis(1000),
        Ctor::TimeMillis(u32::MAX),
    ]
}

/// whether some call after the set-up failed (its error message is still unfetched for a caller
/// that does not drain)
fn pending_of(hist: &[Op], setup: &[Op]) -> bool {
    let mut m = Model::new();
    let mut pending = false;
    for (i, op) in hist.iter().enumerate() {
        let r = model_step(&mut m, op).ret;
        if i >= setup.len() && r == Ret::Fail {
            pending = true;
        }
    }
    pending
}

/// the histories of all machines (model-only search over canonical states) and of the exotic values
pub fn machine_histories(tier: Tier) -> Vec<(String, Vec<Op>)> {
    let mut out: Vec<(String, Vec<Op>)> = vec![];
    for m in machines(tier) {
        let mut base = Model::new();
        for op in &m.setup {
            model_step(&mut base, op);
        }
        let mut seen: std::collections::BTreeSet<String> = std::collections::BTreeSet::new();
        seen.insert(base.key());
        let mut frontier: Vec<(Vec<Op>, Model)> = vec![(m.setup.clone(), base)];
        for d in 0..m.depth {
            let mut next = vec![];
            for (hist, model) in &frontier {
                for op in &m.alphabet {
                    // protocol: a constructor needs a free slot, every other operand a live handle
                    let ok = match op {
                        Op::Make(s, c) => {
                            model.slots[*s].is_none()
                                && match c {
                                    Ctor::GridFromRows(a) => model.slots[*a].is_some(),
                                    _ => true,
                                }
                        }
                        Op::Destroy(s) | Op::RemoveAt(s, _) | Op::GetAt(s, _) | Op::RemoveKey(s, _) | Op::GetKey(s, _) | Op::MatchDict(s) => model.slots[*s].is_some() && (!matches!(op, Op::MatchDict(_)) || model.filter.is_some()),
                        Op::Push(s, t) | Op::SetAt(s, _, t) | Op::Insert(s, _, t) | Op::Keys(s, t) | Op::RowAt(s, _, t) | Op::DtDate(s, _, t) | Op::DtTime(s, _, t) => model.slots[*s].is_some() && model.slots[*t].is_some(),
                        Op::FirstMatch(s, t) | Op::MatchAll(s, t) => model.filter.is_some() && model.slots[*s].is_some() && model.slots[*t].is_some(),
                        Op::FilterParse(_) => model.filter.is_none(),
                    };
                    if !ok {
                        continue;
                    }
                    let mut h2 = hist.clone();
                    h2.push(op.clone());
                    out.push((format!("{}:{}", m.name, out.len()), h2.clone()));
                    let mut m2 = model.clone();
                    let ret = model_step(&mut m2, op).ret;
                    // a failed call leaves the pool as it was but leaves an unfetched error message
                    // behind for the caller that does not drain: that is a state of its own
                    let pending = hist.len() > m.setup.len() && pending_of(hist, &m.setup) || ret == Ret::Fail;
                    if d + 1 < m.depth && seen.len() < 60_000 && seen.insert(format!("{}|pending={pending}", m2.key())) {
                        next.push((h2, m2));
                    }
                }
            }
            frontier = next;
        }
    }
    // twins: values the library's == cannot tell apart but a user can (display name of a ref, sign
    // of zero, zone of an instant), bare and inside a dict / list / grid; one overwrites the other
    // through every overwriting operation
    {
        let groups: Vec<Vec<&str>> = vec![
            vec!["@r", "@r \"A\"", "@r \"B\""],
            vec!["0", "-0"],
            vec!["0kW", "-0kW"],
            vec!["C(0,1)", "C(-0,1)"],
            vec!["2021-01-01T00:00:00Z", "2020-12-31T19:00:00-05:00 New_York", "2021-01-01T01:00:00+01:00 Paris"],
        ];
        let mut k = 0usize;
        for g in &groups {
            let mut forms: Vec<Vec<String>> = vec![];
            forms.push(g.iter().map(|x| x.to_string()).collect());
            forms.push(g.iter().map(|x| format!("{{a:{x} b:1}}")).collect());
            forms.push(g.iter().map(|x| format!("[{x},1]")).collect());
            forms.push(g.iter().map(|x| format!("ver:\"3.0\"\na,b\n{x},1\n")).collect());
            forms.push(g.iter().map(|x| format!("{{a:{{b:[{x}]}}}}")).collect());
            for form in forms {
                for x in &form {
                    for y in &form {
                        if x == y {
                            continue;
                        }
                        let (cx, cy) = (Ctor::Zinc(leak(x.clone())), Ctor::Zinc(leak(y.clone())));
                        out.push((format!("twins:{k}:list-set"), vec![Op::Make(0, Ctor::List), Op::Make(1, cx.clone()), Op::Make(2, cy.clone()), Op::Push(0, 1), Op::SetAt(0, 0, 2), Op::GetAt(0, 0)]));
                        out.push((format!("twins:{k}:list-push-set"), vec![Op::Make(0, Ctor::List), Op::Make(1, cx.clone()), Op::Make(2, cy.clone()), Op::Push(0, 2), Op::Push(0, 1), Op::SetAt(0, 1, 2), Op::SetAt(0, 0, 1)]));
                        out.push((format!("twins:{k}:dict-insert"), vec![Op::Make(0, Ctor::Dict), Op::Make(1, cx.clone()), Op::Make(2, cy.clone()), Op::Insert(0, b"k", 1), Op::Insert(0, b"k", 2), Op::GetKey(0, b"k")]));
                        out.push((format!("twins:{k}:rows"), vec![Op::Make(0, Ctor::List), Op::Make(1, cx), Op::Make(2, cy), Op::Push(0, 1), Op::Push(0, 2), Op::Destroy(1), Op::Make(1, Ctor::GridFromRows(0))]));
                        k += 1;
                    }
                }
            }
        }
    }
    for (i, c) in exotic_ctors().into_iter().enumerate() {
        out.push((format!("exotic:{i}"), vec![Op::Make(0, c.clone())]));
        // a constructor the model rejects produces no handle to go on with
        let mut probe = Model::new();
        model_step(&mut probe, &Op::Make(1, c.clone()));
        if probe.slots[1].is_none() {
            continue;
        }
        out.push((format!("exotic-in-list:{i}"), vec![Op::Make(0, Ctor::List), Op::Make(1, c.clone()), Op::Push(0, 1), Op::Push(0, 1), Op::GetAt(0, 1)]));
        out.push((format!("exotic-in-dict:{i}"), vec![Op::Make(0, Ctor::Dict), Op::Make(1, c), Op::Insert(0, b"k", 1), Op::Keys(0, 1)]));
    }
    out
}

pub fn run(tier: Tier) -> i32 {
    let mut run = Run::new("C17", tier, "model_checking");
    let depth = tier.pick(4usize, 5);
    run.rule = format!("model: pool of {SLOTS} value handles + 1 filter handle; ~35 constructors (every kind; valid, invalid and non-UTF-8 arguments; from Zinc / JSON text; from other handles: utc/tz datetime, grid from rows with/without meta) and every list/dict/grid/datetime/filter operation over slot indices, list index {{0,1,7}}, keys {{a,b,invalid UTF-8}}, 5 filter texts. BFS over canonical model states to depth {depth}; every transition = one real extern \"C\" call on a real pool rebuilt by replaying the state's shortest history; after every step: return value = model (documented sentinel on failure), error message retrievable exactly once iff failure, whole pool deep-equal to the model (failure leaves all handles unchanged), borrowed entry pointers dereferenced immediately; after the last step every live handle is inspected with all 18 predicates and 35 getters incl. to_zinc_string / to_json_string against the Rust encoders. Symmetric states merged by constructing into the first free slot; plus three focused machines searched over canonical states — a list (three values pushed, set, removed, read at every index 0..3, the list into itself; depth 5/6), a dict (camelCase, empty, non-ASCII, blank-containing, 300-byte and invalid keys, overwriting, the dict into itself; depth 3/4), a date + time pair (utc / tz constructors with good and bad zones between failing calls, date / time getters into every handle; depth 4/5), a four-row sparse grid (rows into a fresh handle, a dict handle and the grid itself, two filters, first/all matches into every handle; depth 3/4) — and 51 exotic values (interior NUL in every string position, 210 kB and non-ASCII strings, extreme numbers, dates, times, coordinates, multi-alias units) alone, in a list and in a dict, every live handle inspected with all getters after every step; twins — values that == cannot tell apart but a user can (display name of a ref, sign of zero with and without unit and in a Coord, the zone of an instant), bare and inside a dict / list / grid / nested dict — where one overwrites the other by set-at, insert under the same key, push+set, and as rows of a grid (~320 histories); all machine histories and every history of <= 3 calls of the general alphabet once more with a caller that never fetches the error message between calls (same return values, same pool); borrowed entry pointers re-read after every read-only call on their container, every string getter called twice with both results destroyed; plus the thread sweep (two strictly serialised threads: A fails, B does nothing / fails / fails and fetches / succeeds / fetches, A fetches — 5 x 5 failing calls x 5 modes; a thread that failed and exited leaves nothing for later threads: the error slot is per thread); plus one sweep of every string argument of every function with bytes that are not UTF-8 (sentinel, message, arguments unchanged)");
    run.assume("the model is written from the header documentation and the Rust API (Appendix C); equal model pools have equal futures (the API has no other state than the handles and the thread-local last error)");
    crate::engine::quiet_panics();
    // the last-error slot is per thread: decided first, on two strictly serialised threads (the
    // exploration below drives the API from many threads and relies on it)
    run.stats.evals += 1;
    match guarded(crate::model::capi::thread_sweep) {
        Ok(Ok(n)) => run.stats.count_n("thread-sweep-calls", n),
        Ok(Err(e)) => {
            run.stats.fail("capi:error-slot-not-per-thread", json!({"thread_sweep": true}), e);
            return run.finish(&replay);
        }
        Err(p) => {
            run.stats.fail("capi:error-slot-not-per-thread:panic", json!({"thread_sweep": true}), p);
            return run.finish(&replay);
        }
    }
    let (search, l) = bfs(depth, tier.pick(1_500_000, 6_000_000), &visit);
    run.absorb(l);
    run.stats.states = search.states.len() as u64;
    for k in search.states.keys().take(200_000) {
        run.stats.nontrivial(k);
    }
    // focused machines and exotic values
    let mh = machine_histories(tier);
    run.note("machine_histories", json!(mh.len()));
    let l = par_for(mh.len(), |i, local| {
        local.eval();
        local.transitions += 1;
        local.traces += 1;
        let (name, ops) = &mh[i];
        let fam = name.split(':').next().unwrap_or("");
        local.count(&format!("machine:{fam}"));
        match guarded(|| run_history(ops, true)) {
            Ok(Ok(_)) => local.outcome("ok"),
            Ok(Err((k, e))) => local.fail(&format!("capi:{}:{fam}", op_class(&ops[k])), json!({"machine": name, "ops": ops_json(ops)}), e),
            Err(p) => local.fail(&format!("panic:{}:{fam}", op_class(ops.last().unwrap())), json!({"machine": name, "ops": ops_json(ops)}), p),
        }
        match guarded(|| run_history_no_drain(ops)) {
            Ok(Ok(())) => {}
            Ok(Err((k, e))) => local.fail(&format!("capi:{}:{fam}:pending-error", op_class(&ops[k])), json!({"machine": name, "ops": ops_json(ops), "no_drain": true}), e),
            Err(p) => local.fail(&format!("panic:{}:{fam}:pending-error", op_class(ops.last().unwrap())), json!({"machine": name, "ops": ops_json(ops), "no_drain": true}), p),
        }
    });
    run.absorb(l);
    // every history of <= 3 calls of the general alphabet, once more without fetching the error
    // message between calls
    let (short, _) = transition_paths_opt(3, 3_000_000, true);
    run.note("no_drain_paths", json!(short.len()));
    let l = par_for(short.len(), |i, local| {
        local.eval();
        local.transitions += 1;
        local.count("no-drain-histories");
        let ops = path_to_ops(&short[i]).expect("path");
        match guarded(|| run_history_no_drain(&ops)) {
            Ok(Ok(())) => {}
            Ok(Err((k, e))) => local.fail(&format!("capi:{}:pending-error", op_class(&ops[k])), json!({"path": short[i], "ops": ops_json(&ops), "no_drain": true}), e),
            Err(p) => local.fail(&format!("panic:{}:pending-error", op_class(ops.last().unwrap())), json!({"path": short[i], "ops": ops_json(&ops), "no_drain": true}), p),
        }
    });
    run.absorb(l);
    for fam in ["list", "dict", "grid", "datetime", "exotic", "twins"] {
        run.require(run.counter(&format!("machine:{fam}")) > 40, &format!("machine {fam} too small"));
    }
    // borrowed pointers across read-only calls; returned strings are fresh allocations
    run.stats.evals += 1;
    match guarded(|| unsafe { crate::model::capi::borrow_sweep() }) {
        Ok(Ok(n)) => run.stats.count_n("borrow-sweep-calls", n),
        Ok(Err(e)) => run.stats.fail("borrowed-pointer-or-string-protocol", json!({"borrow_sweep": true}), e),
        Err(p) => run.stats.fail("borrowed-pointer-or-string-protocol:panic", json!({"borrow_sweep": true}), p),
    }
    // every string argument of every function, not UTF-8 (state independent)
    run.stats.evals += 1;
    match guarded(|| unsafe { crate::model::capi::bad_string_sweep() }) {
        Ok(Ok(n)) => run.stats.count_n("non-utf8-string-calls", n),
        Ok(Err(e)) => {
            let f = e.split(|c| c == ' ' || c == '(').next().unwrap_or("").to_string();
            run.stats.fail(&format!("non-utf8-argument:{f}"), json!({"bad_string_sweep": true}), e)
        }
        Err(p) => run.stats.fail("non-utf8-argument:panic", json!({"bad_string_sweep": true}), p),
    }
    run.note("states_by_depth", json!(search.by_depth));
    run.note("depth", json!(depth));
    run.exhaustive = !search.capped;
    // vacuity: every operation class both succeeded and failed at least once
    if run.stats.fails.is_empty() {
        for c in ["Push", "SetAt", "RemoveAt", "GetAt", "Insert", "RemoveKey", "GetKey", "Keys", "RowAt", "DtDate", "DtTime", "FilterParse", "MatchDict", "FirstMatch", "MatchAll", "make:NumberUnit", "make:Zinc", "make:Json", "make:TzDt", "make:UtcDt", "make:GridFromRows", "make:GridFromRowsMeta", "make:Date", "make:Time"] {
            run.require(run.counter(&format!("succeeded:{c}")) > 0, &format!("operation {c} never succeeded"));
            if !matches!(c, "RemoveKey") {
                run.require(run.counter(&format!("failed:{c}")) > 0, &format!("operation {c} never failed"));
            }
        }
    }
    run.stats.samples = vec![
        json!({"history": ["Make(0, List)", "Make(1, Number)", "Push(0, 1)", "SetAt(0, 0, 1)"]}),
        json!({"history": ["Make(0, Date(2021,2,28))", "Make(1, Time(12,30,15))", "Make(2, TzDt(0, 1, New_York))"]}),
    ];
    run.finish(&replay)
}

pub fn replay(case: &J) -> Verdict {
    if case["no_drain"] == true && case.get("path").is_some() {
        let path: Vec<usize> = case["path"].as_array().map(|a| a.iter().map(|x| x.as_u64().unwrap() as usize).collect()).unwrap_or_default();
        let ops = match path_to_ops(&path) {
            Some(o) => o,
            None => return Err(("replay-path-invalid".into(), "path".into())),
        };
        return match guarded(|| run_history_no_drain(&ops)) {
            Ok(Ok(())) => Ok(()),
            Ok(Err((k, e))) => Err((format!("capi:{}:pending-error", op_class(&ops[k])), e)),
            Err(p) => Err((format!("panic:{}:pending-error", op_class(ops.last().unwrap())), p)),
        };
    }
    if let Some(name) = case["machine"].as_str() {
        for tier in [Tier::Quick, Tier::Thorough] {
            if let Some((_, ops)) = machine_histories(tier).into_iter().find(|(n, ops)| n == name && ops_json(ops) == case["ops"]) {
                let fam = name.split(':').next().unwrap_or("").to_string();
                if case["no_drain"] == true {
                    return match guarded(|| run_history_no_drain(&ops)) {
                        Ok(Ok(())) => Ok(()),
                        Ok(Err((k, e))) => Err((format!("capi:{}:{fam}:pending-error", op_class(&ops[k])), e)),
                        Err(p) => Err((format!("panic:{}:{fam}:pending-error", op_class(ops.last().unwrap())), p)),
                    };
                }
                return match guarded(|| run_history(&ops, true)) {
                    Ok(Ok(_)) => Ok(()),
                    Ok(Err((k, e))) => Err((format!("capi:{}:{fam}", op_class(&ops[k])), e)),
                    Err(p) => Err((format!("panic:{}:{fam}", op_class(ops.last().unwrap())), p)),
                };
            }
        }
        return Err(("replay-machine-unknown".into(), name.to_string()));
    }
    if case["thread_sweep"] == true {
        return match guarded(crate::model::capi::thread_sweep) {
            Ok(Ok(_)) => Ok(()),
            Ok(Err(e)) => Err(("capi:error-slot-not-per-thread".into(), e)),
            Err(p) => Err(("capi:error-slot-not-per-thread:panic".into(), p)),
        };
    }
    if case["borrow_sweep"] == true {
        return match guarded(|| unsafe { crate::model::capi::borrow_sweep() }) {
            Ok(Ok(_)) => Ok(()),
            Ok(Err(e)) => Err(("borrowed-pointer-or-string-protocol".into(), e)),
            Err(p) => Err(("borrowed-pointer-or-string-protocol:panic".into(), p)),
        };
    }
    if case["bad_string_sweep"] == true {
        return match guarded(|| unsafe { crate::model::capi::bad_string_sweep() }) {
            Ok(Ok(_)) => Ok(()),
            Ok(Err(e)) => {
                let f = e.split(|c| c == ' ' || c == '(').next().unwrap_or("").to_string();
                Err((format!("non-utf8-argument:{f}"), e))
            }
            Err(p) => Err(("non-utf8-argument:panic".into(), p)),
        };
    }
    let path: Vec<usize> = case["path"].as_array().map(|a| a.iter().map(|x| x.as_u64().unwrap() as usize).collect()).unwrap_or_default();
    let ops = match path_to_ops(&path) {
        Some(o) => o,
        None => return Err(("replay-path-invalid".into(), "the recorded path no longer exists in the operation alphabet".into())),
    };
    match guarded(|| run_history(&ops, false)) {
        Ok(Ok(_)) => Ok(()),
        Ok(Err((i, e))) => Err((format!("capi:{}", op_class(&ops[i])), e)),
        Err(p) => Err((format!("panic:{}", op_class(ops.last().unwrap())), p)),
    }
}

/// model-only BFS: the index paths of all transitions up to `depth` (deterministic order) and the
/// shortest path of every state reached with fewer than `depth` steps
pub fn transition_paths(depth: usize, max_states: usize) -> (Vec<Vec<usize>>, Vec<Vec<usize>>) {
    transition_paths_opt(depth, max_states, false)
}

/// `with_pending`: a state also records whether a call has failed since the start (for the caller
/// that never fetches the error message, "a message is pending" is part of the state)
pub fn transition_paths_opt(depth: usize, max_states: usize, with_pending: bool) -> (Vec<Vec<usize>>, Vec<Vec<usize>>) {
    let mut seen: std::collections::BTreeSet<String> = std::collections::BTreeSet::new();
    seen.insert(Model::new().key());
    let mut pend: std::collections::BTreeMap<Vec<usize>, bool> = std::collections::BTreeMap::new();
    pend.insert(vec![], false);
    let mut frontier: Vec<(Vec<usize>, Model)> = vec![(vec![], Model::new())];
    let mut transitions = vec![];
    let mut state_paths = vec![vec![]];
    for d in 0..depth {
        let mut next = vec![];
        for (path, m) in &frontier {
            for (k, op) in enabled(m).iter().enumerate() {
                let mut p2 = path.clone();
                p2.push(k);
                transitions.push(p2.clone());
                let mut m2 = m.clone();
                let ret = model_step(&mut m2, op).ret;
                let pending = with_pending && (pend.get(path).copied().unwrap_or(false) || ret == Ret::Fail);
                let key = if with_pending { format!("{}|pending={pending}", m2.key()) } else { m2.key() };
                if seen.len() < max_states && seen.insert(key) && d + 1 < depth {
                    pend.insert(p2.clone(), pending);
                    state_paths.push(p2.clone());
                    next.push((p2, m2));
                }
            }
        }
        frontier = next;
    }
    (transitions, state_paths)
}
