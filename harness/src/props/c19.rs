//! C19 — kinds, typed accessors and grid construction are coherent (DESIGN §5 C19). Exhaustive.

use super::common::Verdict;
use crate::engine::{guarded, par_for, Local, Run, Tier};
use crate::model::shrink::shape_sig;
use crate::model::universe as u;
use crate::model::v::{from_json, from_lib, g_from_lib, mk_tags, same, to_json, to_lib, Tags, V};
use libhaystack::val::kind::HaystackKind;
use libhaystack::val::*;
use serde_json::{json, Value as J};

pub const KINDS: [(&str, HaystackKind); 18] = [
    ("null", HaystackKind::Null),
    ("remove", HaystackKind::Remove),
    ("marker", HaystackKind::Marker),
    ("na", HaystackKind::Na),
    ("bool", HaystackKind::Bool),
    ("number", HaystackKind::Number),
    ("str", HaystackKind::Str),
    ("uri", HaystackKind::Uri),
    ("ref", HaystackKind::Ref),
    ("symbol", HaystackKind::Symbol),
    ("date", HaystackKind::Date),
    ("time", HaystackKind::Time),
    ("dateTime", HaystackKind::DateTime),
    ("coord", HaystackKind::Coord),
    ("xstr", HaystackKind::XStr),
    ("list", HaystackKind::List),
    ("dict", HaystackKind::Dict),
    ("grid", HaystackKind::Grid),
];

fn predicates(v: &Value) -> Vec<(&'static str, bool)> {
    vec![
        ("null", v.is_null()),
        ("remove", v.is_remove()),
        ("marker", v.is_marker()),
        ("na", v.is_na()),
        ("bool", v.is_bool()),
        ("number", v.is_number()),
        ("str", v.is_str()),
        ("uri", v.is_uri()),
        ("ref", v.is_ref()),
        ("symbol", v.is_symbol()),
        ("date", v.is_date()),
        ("time", v.is_time()),
        ("dateTime", v.is_datetime()),
        ("coord", v.is_coord()),
        ("xstr", v.is_xstr()),
        ("list", v.is_list()),
        ("dict", v.is_dict()),
        ("grid", v.is_grid()),
    ]
}

/// every typed conversion: (target kind name, result as a Value if Ok)
fn conversions(v: &Value) -> Vec<(&'static str, &'static str, Option<Value>)> {
    macro_rules! conv {
        ($name:literal, $kind:literal, $t:ty) => {
            ($name, $kind, <$t>::try_from(v).ok().map(Value::from))
        };
    }
    vec![
        conv!("Bool", "bool", Bool),
        ("bool", "bool", bool::try_from(v).ok().map(Value::make_bool)),
        conv!("Number", "number", Number),
        ("f64", "number", f64::try_from(v).ok().map(|x| match v {
            // f64 drops the unit by design: compare the magnitude only
            Value::Number(n) => Value::Number(Number { value: x, unit: n.unit }),
            _ => Value::make_number(x),
        })),
        conv!("Str", "str", Str),
        ("String", "str", String::try_from(v).ok().map(|s| Value::make_str(&s))),
        conv!("Uri", "uri", Uri),
        conv!("Ref", "ref", Ref),
        conv!("Symbol", "symbol", Symbol),
        conv!("Date", "date", Date),
        conv!("Time", "time", Time),
        conv!("DateTime", "dateTime", DateTime),
        conv!("Coord", "coord", Coord),
        conv!("XStr", "xstr", XStr),
        conv!("List", "list", List),
        conv!("Dict", "dict", Dict),
        conv!("Grid", "grid", Grid),
        conv!("Marker", "marker", Marker),
        conv!("Na", "na", Na),
        conv!("Remove", "remove", Remove),
    ]
}

fn getters(d: &Dict, key: &str) -> Vec<(&'static str, &'static str, Option<Value>)> {
    vec![
        ("get_bool", "bool", d.get_bool(key).map(|x| Value::from(*x))),
        ("get_num", "number", d.get_num(key).map(|x| Value::from(*x))),
        ("get_ref", "ref", d.get_ref(key).map(|x| Value::from(x.clone()))),
        ("get_str", "str", d.get_str(key).map(|x| Value::from(x.clone()))),
        ("get_xstr", "xstr", d.get_xstr(key).map(|x| Value::from(x.clone()))),
        ("get_uri", "uri", d.get_uri(key).map(|x| Value::from(x.clone()))),
        ("get_symbol", "symbol", d.get_symbol(key).map(|x| Value::from(x.clone()))),
        ("get_date", "date", d.get_date(key).map(|x| Value::from(*x))),
        ("get_time", "time", d.get_time(key).map(|x| Value::from(*x))),
        ("get_date_time", "dateTime", d.get_date_time(key).map(|x| Value::from(*x))),
        ("get_coord", "coord", d.get_coord(key).map(|x| Value::from(*x))),
        ("get_dict", "dict", d.get_dict(key).map(|x| Value::from(x.clone()))),
        ("get_list", "list", d.get_list(key).map(|x| Value::from(x.clone()))),
        ("get_grid", "grid", d.get_grid(key).map(|x| Value::from(x.clone()))),
    ]
}


/// Every public way of building a value of this kind from the same payload gives the same value:
/// `From` / `Into` impls, `make` / `make_*` constructors, `FromStr`, `FromIterator`, the `dict!`
/// macro, `Default` — compared component-wise with the value built by the harness.
fn construction_paths(v: &V, lv: &Value) -> Verdict {
    use std::str::FromStr;
    let mut alts: Vec<(&'static str, Value)> = vec![];
    match (v, lv) {
        (V::Null, _) => alts.push(("Value::default", Value::default())),
        (V::Marker, _) => alts.extend([("make_marker", Value::make_marker()), ("From<Marker>", Value::from(Marker))]),
        (V::Na, _) => alts.extend([("make_na", Value::make_na()), ("From<Na>", Value::from(Na))]),
        (V::Remove, _) => alts.extend([("make_remove", Value::make_remove()), ("From<Remove>", Value::from(Remove))]),
        (V::Bool(b), _) => {
            alts.extend([("From<bool>", Value::from(*b)), ("From<Bool>", Value::from(Bool::from(*b))), ("make_bool", Value::make_bool(*b)), ("make_true/false", if *b { Value::make_true() } else { Value::make_false() })]);
            if bool::from(Bool::from(*b)) != *b {
                return Err(("construction:Bool->bool".into(), format!("{b}")));
            }
        }
        (V::Num(x, None), _) => {
            alts.extend([("From<f64>", Value::from(*x)), ("Number::from(f64)", Value::from(Number::from(*x))), ("Number::make", Value::from(Number::make(*x))), ("make_number", Value::make_number(*x))]);
            if x.fract() == 0.0 && x.abs() < 2e9 && !(*x == 0.0 && x.is_sign_negative()) {
                alts.extend([("From<i32>", Value::from(*x as i32)), ("Number::from(i32)", Value::from(Number::from(*x as i32))), ("make_int", Value::make_int(*x as i64))]);
            }
        }
        (V::Num(x, Some(_)), Value::Number(n)) => {
            if let Some(u) = n.unit {
                alts.extend([("make_number_unit", Value::make_number_unit(*x, u)), ("Number::make_with_unit", Value::from(Number::make_with_unit(*x, u)))]);
            }
        }
        (V::Str(t), _) => alts.extend([("From<&str>", Value::from(t.as_str())), ("Str::from", Value::from(Str::from(t.as_str()))), ("Str::make", Value::from(Str::make(t))), ("make_str", Value::make_str(t))]),
        (V::Uri(t), _) => alts.extend([("Uri::from", Value::from(Uri::from(t.as_str()))), ("Uri::make", Value::from(Uri::make(t))), ("make_uri", Value::make_uri(t))]),
        (V::Sym(t), _) => alts.extend([("Symbol::from", Value::from(Symbol::from(t.as_str()))), ("Symbol::make", Value::from(Symbol::make(t))), ("make_symbol", Value::make_symbol(t))]),
        (V::Ref(id, None), _) => alts.extend([("Ref::from", Value::from(Ref::from(id.as_str()))), ("Ref::make", Value::from(Ref::make(id, None))), ("make_ref", Value::make_ref(id))]),
        (V::Ref(id, Some(d)), _) => alts.extend([("Ref::make(dis)", Value::from(Ref::make(id, Some(d)))), ("make_ref_with_dis", Value::make_ref_with_dis(id, d))]),
        (V::XStr(t, x), _) => alts.extend([("XStr::make", Value::from(XStr::make(t, x))), ("make_xstr_from", Value::make_xstr_from(t, x)), ("make_xstr", Value::make_xstr(XStr::make(t, x)))]),
        (V::Coord(a, b), _) => alts.extend([("Coord::make", Value::from(Coord::make(*a, *b))), ("make_coord", Value::make_coord(Coord::make(*a, *b))), ("make_coord_from", Value::make_coord_from(*a, *b))]),
        (V::Date(y, m, d), Value::Date(ld)) => {
            match Date::from_ymd(*y, *m, *d) {
                Ok(x) => alts.extend([("Date::from_ymd", Value::from(x)), ("make_date", Value::make_date(x))]),
                Err(e) => return Err(("construction:Date::from_ymd".into(), format!("{y}-{m}-{d}: {e}"))),
            }
            if (0..=9999).contains(y) {
                match Date::from_str(&format!("{y:04}-{m:02}-{d:02}")) {
                    Ok(x) => alts.push(("Date::from_str", Value::from(x))),
                    Err(e) => return Err(("construction:Date::from_str".into(), format!("{y:04}-{m:02}-{d:02}: {e}"))),
                }
            }
            alts.push(("Date::from(NaiveDate)", Value::from(Date::from(**ld))));
        }
        (V::Time(h, m, sec, n), Value::Time(lt)) => {
            if *n == 0 {
                match Time::from_hms(*h, *m, *sec) {
                    Ok(x) => alts.extend([("Time::from_hms", Value::from(x)), ("make_time", Value::make_time(x))]),
                    Err(e) => return Err(("construction:Time::from_hms".into(), format!("{h}:{m}:{sec}: {e}"))),
                }
            }
            if n % 1_000_000 == 0 && *n < 1_000_000_000 {
                match Time::from_hms_milli(*h, *m, *sec, n / 1_000_000) {
                    Ok(x) => alts.push(("Time::from_hms_milli", Value::from(x))),
                    Err(e) => return Err(("construction:Time::from_hms_milli".into(), format!("{h}:{m}:{sec}.{n}: {e}"))),
                }
            }
            if *n < 1_000_000_000 {
                let text = if *n == 0 { format!("{h:02}:{m:02}:{sec:02}") } else { format!("{h:02}:{m:02}:{sec:02}.{n:09}") };
                match Time::from_str(&text) {
                    Ok(x) => alts.push(("Time::from_str", Value::from(x))),
                    Err(e) => return Err(("construction:Time::from_str".into(), format!("{text}: {e}"))),
                }
            }
            alts.push(("Time::from(NaiveTime)", Value::from(Time::from(**lt))));
        }
        (V::DateTime(dt), Value::DateTime(ld)) => {
            alts.push(("make_datetime", Value::make_datetime(ld.clone())));
            alts.push(("DateTime::from(DateTime<Tz>)", Value::from(DateTime::from(**ld))));
            if dt.tz == "UTC" {
                let utc = ld.with_timezone(&chrono::Utc);
                alts.push(("From<DateTime<Utc>> for Value", Value::from(utc)));
                alts.push(("DateTime::from(DateTime<Utc>)", Value::from(DateTime::from(utc))));
                if dt.nanos < 1_000_000_000 {
                    let text = utc.to_rfc3339_opts(chrono::SecondsFormat::Nanos, true);
                    match (DateTime::from_str(&text), Value::make_datetime_from_iso(&text), DateTime::parse_from_rfc3339(&text)) {
                        (Ok(a), Ok(b), Ok(c)) => alts.extend([("DateTime::from_str", Value::from(a)), ("make_datetime_from_iso", b), ("parse_from_rfc3339", Value::from(c))]),
                        other => return Err(("construction:DateTime-from-text".into(), format!("{text}: {other:?}"))),
                    }
                }
            }
        }
        (V::List(_), Value::List(l)) => alts.extend([("From<List>", Value::from(l.clone())), ("make_list", Value::make_list(l.clone())), ("collect", Value::from(l.iter().cloned().collect::<List>()))]),
        (V::Dict(_), Value::Dict(d)) => {
            let mut by_insert = Dict::new();
            for (k, x) in d.iter().rev() {
                by_insert.insert(k.clone(), x.clone());
            }
            let mut by_extend = Dict::default();
            by_extend.extend(d.iter().map(|(k, x)| (k.clone(), x.clone())));
            let map: std::collections::BTreeMap<String, Value> = d.iter().map(|(k, x)| (k.clone(), x.clone())).collect();
            alts.extend([
                ("FromIterator", Value::from(d.iter().map(|(k, x)| (k.clone(), x.clone())).collect::<Dict>())),
                ("FromIterator(reversed)", Value::from(d.iter().rev().map(|(k, x)| (k.clone(), x.clone())).collect::<Dict>())),
                ("Dict::new+insert", Value::from(by_insert)),
                ("Dict::default+extend", Value::from(by_extend)),
                ("From<BTreeMap> for Dict", Value::from(Dict::from(map.clone()))),
                ("From<BTreeMap> for Value", Value::from(map)),
                ("make_dict", Value::make_dict(d.clone())),
            ]);
            if d.len() == 2 {
                let mut it = d.iter();
                let (a, b) = (it.next().unwrap(), it.next().unwrap());
                alts.push(("dict!", Value::from(libhaystack::dict! { b.0.as_str() => b.1.clone(), a.0.as_str() => a.1.clone() })));
            }
        }
        (V::Grid(_), Value::Grid(g)) => {
            alts.extend([("From<Grid>", Value::from(g.clone())), ("make_grid", Value::make_grid(g.clone()))]);
            let e = Grid::make_empty();
            let dflt = Grid::default();
            if !e.is_empty() || e.len() != 0 || e.is_err() || !dflt.is_empty() || dflt.len() != 0 || dflt.is_err() {
                return Err(("construction:Grid::default".into(), format!("make_empty {e:?} vs default {dflt:?}")));
            }
        }
        _ => {}
    }
    for (name, alt) in alts {
        same(v, &from_lib(&alt)).map_err(|d| (format!("construction:{name}"), d))?;
        if &alt != lv && format!("{lv:?}") == format!("{alt:?}") && !format!("{lv:?}").contains("NaN") {
            return Err((format!("construction-eq:{name}"), format!("{alt:?} != {lv:?}")));
        }
    }
    Ok(())
}

fn check_value_kind(v: &V) -> Verdict {
    let lv = to_lib(v);
    let want = v.kind_name();
    let preds = predicates(&lv);
    let truths: Vec<&str> = preds.iter().filter(|p| p.1).map(|p| p.0).collect();
    if truths != vec![want] {
        return Err(("predicates".into(), format!("value of kind {want}: predicates true for {truths:?}")));
    }
    let k = HaystackKind::from(&lv);
    let kname: &'static str = k.into();
    if kname != want {
        return Err(("kind-of-value".into(), format!("HaystackKind::from gives {kname}, value is {want}")));
    }
    for (name, target, got) in conversions(&lv) {
        match (target == want, got) {
            (true, None) => return Err((format!("conversion:{name}"), format!("TryFrom<&Value> for {name} fails on a {want}"))),
            (false, Some(_)) => return Err((format!("conversion:{name}"), format!("TryFrom<&Value> for {name} succeeds on a {want}"))),
            (true, Some(back)) => same(v, &from_lib(&back)).map_err(|d| (format!("conversion-payload:{name}"), d))?,
            (false, None) => {}
        }
    }
    construction_paths(v, &lv)?;
    // typed dict getters, key present with this kind / absent
    let mut m = std::collections::BTreeMap::new();
    m.insert("k".to_string(), lv.clone());
    let d = Dict::from(m);
    for (name, target, got) in getters(&d, "k") {
        match (target == want, got) {
            (true, None) => return Err((format!("getter:{name}"), format!("{name} returns None for a {want} tag"))),
            (false, Some(_)) => return Err((format!("getter:{name}"), format!("{name} returns Some for a {want} tag"))),
            (true, Some(back)) => same(v, &from_lib(&back)).map_err(|d| (format!("getter-payload:{name}"), d))?,
            (false, None) => {}
        }
    }
    for (name, _t, got) in getters(&d, "absent") {
        if got.is_some() {
            return Err((format!("getter:{name}"), format!("{name} returns Some for an absent key")));
        }
    }
    // the accessors without a key: id() / safe_id() read `id`, ts() reads `mod`
    {
        let mut m = std::collections::BTreeMap::new();
        m.insert("id".to_string(), lv.clone());
        m.insert("mod".to_string(), lv.clone());
        let d2 = Dict::from(m);
        let as_v = |r: Option<Value>| r.map(|x| from_lib(&x));
        let id = as_v(d2.id().map(|r| Value::from(r.clone())));
        let ts = as_v(d2.ts().map(|t| Value::from(*t)));
        let safe = from_lib(&Value::from(d2.safe_id()));
        match (want == "ref", id) {
            (true, Some(back)) => same(v, &back).map_err(|d| ("getter-payload:id".to_string(), d))?,
            (false, None) => {}
            (w, got) => return Err(("getter:id".into(), format!("id() on a {want} `id` tag: expected Some = {w}, got {got:?}"))),
        }
        if want == "ref" {
            same(v, &safe).map_err(|d| ("getter-payload:safe_id".to_string(), d))?;
        } else {
            same(&from_lib(&Value::from(Ref::default())), &safe).map_err(|d| ("getter:safe_id".to_string(), format!("safe_id() on a {want} `id` tag is not the default ref: {d}")))?;
        }
        match (want == "dateTime", ts) {
            (true, Some(back)) => same(v, &back).map_err(|d| ("getter-payload:ts".to_string(), d))?,
            (false, None) => {}
            (w, got) => return Err(("getter:ts".into(), format!("ts() on a {want} `mod` tag: expected Some = {w}, got {got:?}"))),
        }
        if Dict::default().id().is_some() || Dict::default().ts().is_some() {
            return Err(("getter:id".into(), "id()/ts() on an empty dict".into()));
        }
    }
    for (name, target, got) in [("has_marker", "marker", d.has_marker("k")), ("has_na", "na", d.has_na("k")), ("has_remove", "remove", d.has_remove("k"))] {
        if got != (target == want) {
            return Err((format!("getter:{name}"), format!("{name} is {got} for a {want} tag")));
        }
    }
    if !d.has("k") || d.missing("k") || d.has("absent") || !d.missing("absent") || d.has_marker("absent") || d.has_na("absent") || d.has_remove("absent") {
        return Err(("getter:has/missing".into(), "has/missing wrong".into()));
    }
    Ok(())
}

fn check_codes(local: &mut Local) {
    let mut ok_codes = vec![];
    for c in 0u16..=255 {
        let c = c as u8;
        local.eval();
        match HaystackKind::try_from(c) {
            Ok(k) => {
                if k as u8 != c {
                    local.fail("kind-code", json!({"code": c}), format!("TryFrom<u8>({c}) = {k:?} whose code is {}", k as u8));
                }
                ok_codes.push(c);
            }
            Err(_) => {}
        }
    }
    if ok_codes.len() != 18 {
        local.fail("kind-code-count", json!({"codes": ok_codes}), format!("{} u8 codes map to a kind, expected 18", ok_codes.len()));
    }
    let mut seen_codes = std::collections::BTreeSet::new();
    for (name, kind) in KINDS {
        local.eval();
        local.nontrivial(name);
        let code = kind as u8;
        if !seen_codes.insert(code) {
            local.fail("kind-code-unique", json!({"kind": name}), format!("code {code} used twice"));
        }
        if HaystackKind::try_from(code).ok() != Some(kind) {
            local.fail("kind-code", json!({"kind": name}), format!("{name} -> {code} -> {:?}", HaystackKind::try_from(code)));
        }
        let s: &'static str = kind.into();
        if s != name || kind.to_string() != name {
            local.fail("kind-name", json!({"kind": name}), format!("{name}: Into<&str>={s}, Display={kind}"));
        }
        if HaystackKind::try_from(name).ok() != Some(kind) {
            local.fail("kind-name", json!({"kind": name}), format!("TryFrom<&str>({name}) = {:?}", HaystackKind::try_from(name)));
        }
    }
    // non-names: one character changed / case-flipped / deleted / appended, and all strings <= 2 over [a-zT]
    let names: Vec<&str> = KINDS.iter().map(|k| k.0).collect();
    let mut non: Vec<String> = vec![String::new()];
    for n in &names {
        let ch: Vec<char> = n.chars().collect();
        for i in 0..ch.len() {
            let mut c = ch.clone();
            c[i] = if c[i].is_ascii_lowercase() { c[i].to_ascii_uppercase() } else { c[i].to_ascii_lowercase() };
            non.push(c.iter().collect());
            let mut c = ch.clone();
            c[i] = if c[i] == 'x' { 'y' } else { 'x' };
            non.push(c.iter().collect());
            let mut c = ch.clone();
            c.remove(i);
            non.push(c.iter().collect());
        }
        non.push(format!("{n}s"));
        non.push(format!(" {n}"));
        non.push(format!("{n} "));
    }
    let alpha: Vec<char> = ('a'..='z').chain(['T']).collect();
    for &a in &alpha {
        non.push(a.to_string());
        for &b in &alpha {
            non.push(format!("{a}{b}"));
        }
    }
    for s in non {
        if names.contains(&s.as_str()) {
            continue;
        }
        local.eval();
        local.nontrivial(&s);
        if let Ok(k) = HaystackKind::try_from(s.as_str()) {
            local.fail("kind-name-accepts-non-name", json!({"name": s}), format!("TryFrom<&str>({s:?}) = {k:?}"));
        }
    }
}

fn records() -> Vec<Tags> {
    // 19 records: every key set ⊆ {a,b,c,d} plus mixed-case / digit / underscore names
    vec![
        vec![],
        mk_tags(&[("a", V::num(1.0))]),
        mk_tags(&[("b", V::str("x"))]),
        mk_tags(&[("c", V::Marker)]),
        mk_tags(&[("a", V::Null), ("b", V::num(2.0))]),
        mk_tags(&[("a", V::str("y")), ("c", V::Bool(true))]),
        mk_tags(&[("b", V::Marker), ("c", V::num(3.0))]),
        mk_tags(&[("a", V::num(1.0)), ("b", V::num(2.0)), ("c", V::num(3.0))]),
        mk_tags(&[("c", V::List(vec![V::num(1.0)]))]),
        // names whose byte order and case-insensitive order differ
        mk_tags(&[("curVal", V::num(1.0)), ("current", V::num(2.0)), ("aC", V::Marker), ("ab", V::Marker)]),
        mk_tags(&[("zZ", V::Marker), ("za", V::Marker), ("a_", V::Marker), ("a1", V::Marker), ("aA", V::Marker)]),
        // with a fourth key: every pair of records of equal size sharing their first and last key
        mk_tags(&[("d", V::num(4.0))]),
        mk_tags(&[("a", V::num(1.0)), ("d", V::Null)]),
        mk_tags(&[("b", V::num(2.0)), ("d", V::str("z"))]),
        mk_tags(&[("c", V::Marker), ("d", V::Marker)]),
        mk_tags(&[("a", V::num(1.0)), ("b", V::num(2.0)), ("d", V::num(4.0))]),
        mk_tags(&[("a", V::num(1.0)), ("c", V::num(3.0)), ("d", V::num(4.0))]),
        mk_tags(&[("b", V::num(2.0)), ("c", V::num(3.0)), ("d", V::num(4.0))]),
        mk_tags(&[("a", V::num(1.0)), ("b", V::num(2.0)), ("c", V::num(3.0)), ("d", V::num(4.0))]),
    ]
}

fn check_grid_build(recs: &[Tags]) -> Verdict {
    let dicts: Vec<Dict> = recs
        .iter()
        .map(|t| match to_lib(&V::Dict(t.clone())) {
            Value::Dict(d) => d,
            _ => unreachable!(),
        })
        .collect();
    let mut want_cols: Vec<String> = recs.iter().flat_map(|r| r.iter().map(|(k, _)| k.clone())).collect();
    want_cols.sort();
    want_cols.dedup();
    let meta = mk_tags(&[("dis", V::str("m"))]);
    let meta_d = match to_lib(&V::Dict(meta.clone())) {
        Value::Dict(d) => d,
        _ => unreachable!(),
    };
    let variants: Vec<(&str, Grid, Option<Tags>)> = vec![
        ("make_from_dicts", Grid::make_from_dicts(dicts.clone()), None),
        ("make_from_dicts_with_meta", Grid::make_from_dicts_with_meta(dicts.clone(), meta_d), Some(meta)),
        (
            "Value::make_grid_from_dicts",
            match Value::make_grid_from_dicts(dicts.clone()) {
                Value::Grid(g) => g,
                other => return Err(("grid-build:not-a-grid".into(), format!("{other:?}"))),
            },
            None,
        ),
    ];
    for (name, g, want_meta) in variants {
        let gm = g_from_lib(&g);
        let cols: Vec<String> = gm.cols.iter().map(|c| c.name.clone()).collect();
        if cols != want_cols {
            return Err((format!("grid-build:columns:{name}"), format!("columns {cols:?}, expected {want_cols:?}")));
        }
        if gm.cols.iter().any(|c| c.meta.as_ref().map_or(false, |m| !m.is_empty())) {
            return Err((format!("grid-build:column-meta:{name}"), "column has meta".into()));
        }
        if gm.rows.len() != recs.len() {
            return Err((format!("grid-build:rows:{name}"), format!("{} rows from {} records", gm.rows.len(), recs.len())));
        }
        for (i, (r, want)) in gm.rows.iter().zip(recs.iter()).enumerate() {
            same(&V::Dict(want.clone()), &V::Dict(r.clone())).map_err(|d| (format!("grid-build:rows:{name}"), format!("row {i}: {d}")))?;
            for (k, _) in r {
                if !cols.contains(k) {
                    return Err((format!("grid-build:row-key-not-column:{name}"), format!("row {i} key {k}")));
                }
            }
        }
        same(&V::Dict(want_meta.clone().unwrap_or_default()), &V::Dict(gm.meta.clone().unwrap_or_default()))
            .map_err(|d| (format!("grid-build:meta:{name}"), d))?;
        if g.len() != recs.len() || g.is_empty() != recs.is_empty() {
            return Err((format!("grid-build:len:{name}"), format!("len {} is_empty {}", g.len(), g.is_empty())));
        }
        for (i, want) in recs.iter().enumerate() {
            same(&V::Dict(want.clone()), &from_lib(&Value::Dict(g[i].clone()))).map_err(|d| (format!("grid-build:index:{name}"), d))?;
        }
        let iterated: Vec<&Dict> = (&g).into_iter().collect();
        if iterated.len() != recs.len() {
            return Err((format!("grid-build:iter:{name}"), "iterator length".into()));
        }
    }
    Ok(())
}

pub fn run(tier: Tier) -> i32 {
    let mut run = Run::new("C19", tier, "exploration");
    run.rule = "every value of Σ and U: the 18 predicates, HaystackKind::from, all 20 typed TryFrom<&Value> conversions, the 14 typed dict getters + 3 has_* + id() / safe_id() / ts() (key present with that value / absent), and every other public way of building the same value (From / Into impls, make / make_* constructors, from_ymd / from_hms(_milli), FromStr for Date / Time / DateTime, make_datetime_from_iso, From<chrono types>, Dict via FromIterator in both orders / new+insert / default+extend / From<BTreeMap> / dict!, Grid::default and make_empty are empty) compared component-wise and with ==; all 256 u8 codes and all 18 names plus every near-miss name; every list of <= 4 (quick 3) records over 19 records (every key set over {a,b,c,d} + mixed-case names) through the three grid constructors, and records of every width 1..72, 100, 127..129, 255..257 in six list shapes (same record twice, one tag fewer then one more, overlapping halves, an empty record in the middle, even/odd/all, narrow-wide-narrow), and lists of every length 1..72, 100, 127..129, 255..257, 1000 in four shapes (columns first seen in the last records and sorting before / between / after the known ones, columns discovered in descending order, the widest record in the middle, a rotating key set); non-trivial = distinct value / name / record list".into();
    crate::engine::quiet_panics();
    let mut l0 = Local::new();
    if let Err(m) = guarded(|| check_codes(&mut l0)) {
        l0.fail("panic:codes", json!({}), m);
    }
    run.absorb(l0);

    let scalars = u::scalars(tier);
    let l = par_for(scalars.len(), |i, local| {
        let v = &scalars[i];
        local.eval();
        local.nontrivial(&v.key());
        local.count(&format!("kind:{}", v.kind_name()));
        match guarded(|| check_value_kind(v)) {
            Ok(Ok(())) => local.outcome("ok"),
            Ok(Err((stage, d))) => local.fail(&format!("{stage}:{}", v.kind_name()), json!({"value": to_json(v)}), d),
            Err(p) => local.fail(&format!("panic:{}", v.kind_name()), json!({"value": to_json(v)}), p),
        }
    });
    run.absorb(l);
    let shards = u::container_shards(Tier::Quick);
    let l = par_for(shards.len(), |i, local| {
        shards[i](&mut |v| {
            local.eval();
            local.nontrivial(&v.key());
            local.count(&format!("kind:{}", v.kind_name()));
            match guarded(|| check_value_kind(&v)) {
                Ok(Ok(())) => local.outcome("ok"),
                Ok(Err((stage, d))) => local.fail(&format!("{stage}:{}", v.kind_name()), json!({"value": to_json(&v)}), d),
                Err(p) => local.fail(&format!("panic:{}", shape_sig(&v)), json!({"value": to_json(&v)}), p),
            }
        });
    });
    run.absorb(l);

    // grid construction
    let recs = records();
    let n = recs.len();
    let maxlen = tier.pick(3usize, 4);
    let mut lists: Vec<Vec<usize>> = vec![vec![]];
    let mut frontier: Vec<Vec<usize>> = vec![vec![]];
    for _ in 0..maxlen {
        let mut next = vec![];
        for f in &frontier {
            for i in 0..n {
                let mut g = f.clone();
                g.push(i);
                next.push(g);
            }
        }
        lists.extend(next.clone());
        frontier = next;
    }
    // wide records: every width 1..=72 and around 2^7, 2^8 (a threshold in the column bookkeeping
    // shows at its own width), in five list shapes
    let widths: Vec<usize> = (1..=72).chain([100, 127, 128, 129, 255, 256, 257]).collect();
    let l = par_for(widths.len(), |wi, local| {
        let n = widths[wi];
        let t = |r: std::ops::Range<usize>| -> Tags {
            let mut t: Tags = r.map(|i| (format!("t{i}"), if i % 3 == 0 { V::Marker } else { V::num(i as f64) })).collect();
            t.sort_by(|a, b| a.0.cmp(&b.0));
            t
        };
        let shapes: Vec<Vec<Tags>> = vec![
            vec![t(0..n), t(0..n)],
            vec![t(0..n.saturating_sub(1)), t(0..n + 1)],
            vec![t(0..n), t(n / 2..n + n / 2)],
            vec![t(0..n), vec![], t(0..n), t(n..n + 2)],
            vec![(0..n).step_by(2).map(|i| (format!("t{i}"), V::Marker)).collect::<Tags>(), (1..n).step_by(2).map(|i| (format!("t{i}"), V::Marker)).collect::<Tags>(), t(0..n)]
                .into_iter()
                .map(|mut r| {
                    r.sort_by(|a, b| a.0.cmp(&b.0));
                    r
                })
                .collect(),
            vec![t(0..1), t(0..n), t(0..2)],
        ];
        for rs in shapes {
            local.eval();
            local.nontrivial(&format!("wide{n}:{}", rs.len()));
            local.count("wide-grid-builds");
            let case = json!({"records": rs.iter().map(|r| to_json(&V::Dict(r.clone()))).collect::<Vec<_>>()});
            match guarded(|| check_grid_build(&rs)) {
                Ok(Ok(())) => local.outcome("ok"),
                Ok(Err((stage, d))) => local.fail(&stage, case, d),
                Err(p) => local.fail("panic:grid-build", case, p),
            }
        }
    });
    run.absorb(l);
    // many records: every count 1..=72 and around 2^7, 2^8, 1000; columns first seen in the last
    // records and sorting before / between / after the known ones; columns discovered in
    // descending order; the widest record in the middle
    let counts: Vec<usize> = (1..=72).chain([100, 127, 128, 129, 255, 256, 257, 1000]).collect();
    let l = par_for(counts.len(), |ci, local| {
        let n = counts[ci];
        let base = |i: usize| mk_tags(&[("m", V::num(i as f64)), ("z", V::Marker)]);
        let shapes: Vec<Vec<Tags>> = vec![
            (0..n).map(base).chain([mk_tags(&[("a", V::Marker)]), mk_tags(&[("m0", V::num(1.0))]), mk_tags(&[("zz", V::Marker)]), mk_tags(&[("a", V::num(2.0)), ("n", V::Marker)])]).collect(),
            (0..n).map(|i| mk_tags(&[(format!("t{:04}", n - i).as_str(), V::num(i as f64))])).collect(),
            (0..n).map(|i| if i == n / 2 { mk_tags(&[("a", V::Marker), ("b", V::Marker), ("m", V::Marker), ("y", V::Marker), ("zz", V::Marker)]) } else { base(i) }).collect(),
            (0..n).map(|i| mk_tags(&[(format!("k{}", i % 7).as_str(), V::num(i as f64)), (format!("u{i}").as_str(), V::Marker)])).collect(),
        ];
        for rs in shapes {
            local.eval();
            local.nontrivial(&format!("many{n}:{}", rs.len()));
            local.count("many-record-grid-builds");
            let case = json!({"records": rs.iter().map(|r| to_json(&V::Dict(r.clone()))).collect::<Vec<_>>()});
            match guarded(|| check_grid_build(&rs)) {
                Ok(Ok(())) => local.outcome("ok"),
                Ok(Err((stage, d))) => local.fail(&stage, case, d),
                Err(p) => local.fail("panic:grid-build", case, p),
            }
        }
    });
    run.absorb(l);
    let l = par_for(lists.len(), |i, local| {
        let rs: Vec<Tags> = lists[i].iter().map(|&k| recs[k].clone()).collect();
        local.eval();
        local.nontrivial(&format!("{:?}", lists[i]));
        local.count("grid-builds");
        let case = json!({"records": rs.iter().map(|r| to_json(&V::Dict(r.clone()))).collect::<Vec<_>>()});
        match guarded(|| check_grid_build(&rs)) {
            Ok(Ok(())) => local.outcome("ok"),
            Ok(Err((stage, d))) => local.fail(&stage, case, d),
            Err(p) => local.fail("panic:grid-build", case, p),
        }
    });
    run.absorb(l);
    for (name, _) in KINDS {
        run.require(run.counter(&format!("kind:{name}")) > 0, &format!("no value of kind {name}"));
    }
    run.require(run.counter("grid-builds") >= 91, "grid builds");
    run.stats.samples = vec![to_json(&V::numu(1.0, "kW")), json!({"u8_code": 17}), json!({"records": [to_json(&V::Dict(recs[4].clone())), to_json(&V::Dict(recs[6].clone()))]})];
    run.finish(&replay)
}

pub fn replay(case: &J) -> Verdict {
    if let Some(recs) = case.get("records") {
        let rs: Vec<Tags> = recs
            .as_array()
            .unwrap()
            .iter()
            .map(|j| match from_json(j) {
                V::Dict(t) => t,
                _ => vec![],
            })
            .collect();
        return match guarded(|| check_grid_build(&rs)) {
            Ok(r) => r,
            Err(p) => Err(("panic:grid-build".into(), p)),
        };
    }
    if let Some(v) = case.get("value") {
        let v = from_json(v);
        return match guarded(|| check_value_kind(&v)) {
            Ok(Ok(())) => Ok(()),
            Ok(Err((stage, d))) => Err((format!("{stage}:{}", v.kind_name()), d)),
            Err(p) => Err((format!("panic:{}", v.kind_name()), p)),
        };
    }
    let mut l = Local::new();
    check_codes(&mut l);
    match l.fails.values().next() {
        Some(f) => Err((f.sig.clone(), f.detail.clone())),
        None => Ok(()),
    }
}
