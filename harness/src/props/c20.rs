//! C20 — display names follow the documented precedence and macro substitution. Exhaustive over
//! all 5^8 records of the eight display tags and all macro patterns up to a length.

use super::common::Verdict;
use crate::engine::{guarded, par_for, Local, Run, Tier};
use crate::model::dis_ref::{dis_of, expand_macro};
use crate::model::v::{from_json, mk_tags, to_json, to_lib, Tags, V};
use libhaystack::val::{dict_to_dis, dis_macro, Dict, HaystackDict, Value};
use serde_json::{json, Value as J};
use std::borrow::Cow;

const ALPHA: &[char] = &['$', '{', '}', '<', '>', 'a', 'b', 'B', '1', '_', ' ', 'é'];

fn localise(k: &str) -> Option<String> {
    match k {
        "a" => Some("LA".into()),
        "a b" => Some("L A B".into()),
        "{b" => Some("LCB".into()),
        "key" => Some("translated".into()),
        "x::y" => Some("LXY".into()),
        "dollar" => Some("$a ${b}".into()),
        _ => None,
    }
}

fn other_text(v: &V) -> String {
    to_lib(v).to_string()
}

fn scopes() -> Vec<Tags> {
    vec![
        mk_tags(&[
            ("a", V::str("<A>")),
            ("ab", V::str("<AB>")),
            ("aB1_", V::str("<X>")),
            ("b", V::Ref("r".into(), Some("R D".into()))),
        ]),
        mk_tags(&[("b", V::numu(5.0, "kW")), ("ab", V::Ref("q".into(), None)), ("a1", V::Marker)]),
        vec![],
        // values whose text contains variables (must not be expanded again), an empty value, other kinds
        mk_tags(&[
            ("a", V::str("$b and ${b} $<key>")),
            ("b", V::str("")),
            ("ab", V::Date(2021, 2, 28)),
            ("aB1_", V::List(vec![V::num(1.0), V::str("s")])),
            ("zz", V::dict(&[("dis", V::str("inner dis"))])),
            ("a1", V::Bool(false)),
        ]),
        mk_tags(&[("a", V::Uri("http://x/$a".into())), ("b", V::Time(1, 2, 3, 0)), ("ab", V::dt(1_625_097_600, 0, "America/New_York")), ("zz", V::Na), ("a1", V::Coord(1.5, -2.0)), ("aB1_", V::Sym("sym".into()))]),
    ]
}

fn lib_dict(t: &Tags) -> Dict {
    match to_lib(&V::Dict(t.clone())) {
        Value::Dict(d) => d,
        _ => unreachable!(),
    }
}

fn pattern_class(p: &str) -> String {
    // abstract a pattern: $ kept, braces kept, name chars -> n, others -> x
    let s: String = p
        .chars()
        .map(|c| match c {
            '$' | '{' | '}' | '<' | '>' => c,
            'a'..='z' => 'n',
            'A'..='Z' | '0'..='9' | '_' => 'N',
            ' ' => '_',
            _ => 'x',
        })
        .collect();
    s
}

fn check_pattern(p: &str, scope_i: usize) -> Verdict {
    let scope = &scopes()[scope_i];
    let d = lib_dict(scope);
    let want = expand_macro(p, &|k| scope.iter().find(|(n, _)| n == k).map(|(_, v)| v.clone()), &localise, &other_text);
    let got = guarded(|| {
        dis_macro(p, |k| d.get(k).map(Cow::Borrowed), |k| localise(k).map(Cow::Owned)).to_string()
    })
    .map_err(|m| ("macro-panic".to_string(), m))?;
    if !p.contains('$') && got != p {
        return Err(("macro-no-dollar-changed".into(), format!("{p:?} -> {got:?}")));
    }
    if got != want {
        return Err(("macro".into(), format!("pattern {p:?} scope#{scope_i}: library {got:?}, reference {want:?}")));
    }
    Ok(())
}

const TAGS: [&str; 8] = ["dis", "disMacro", "disKey", "name", "def", "tag", "navName", "id"];

fn tag_value(tag: &str, variant: usize) -> V {
    // variants 1, 2 and 3: three values of different kinds
    match (tag, variant) {
        // variant 4: present but empty
        ("id", 4) => V::Ref("e".into(), Some(String::new())),
        ("def", 4) => V::Sym("e".into()),
        (_, 4) => V::str(""),
        ("dis", 3) => V::numu(21.5, "°C"),
        ("disMacro", 3) => V::str("no variables {here} <x>"),
        ("disKey", 3) => V::num(42.0),
        ("name", 3) => V::Ref("nameref".into(), Some("Name Dis".into())),
        ("def", 3) => V::Marker,
        ("tag", 3) => V::Marker,
        ("navName", 3) => V::str(""),
        ("id", 3) => V::Ref("bare".into(), None),
        ("disMacro", 1) => V::str("M $navName ${id} $<key> $zz"),
        ("disMacro", _) => V::num(7.0),
        ("disKey", 1) => V::str("key"),
        ("disKey", _) => V::str("untranslatable"),
        ("id", 1) => V::Ref("i-d".into(), Some("Id Dis".into())),
        ("id", _) => V::Marker,
        ("def", 1) => V::str("d e f"),
        ("def", _) => V::Sym("site".into()),
        ("tag", 1) => V::str("t"),
        ("tag", _) => V::Ref("tagref".into(), Some("Tag Dis".into())),
        (t, 1) => V::Str(format!("{t}!")),
        ("dis", _) => V::Ref("disref".into(), Some("Ref Dis".into())),
        ("name", _) => V::Bool(true),
        ("navName", _) => V::List(vec![V::num(1.0)]),
        _ => V::Null,
    }
}

fn record(code: usize) -> Tags {
    let mut c = code;
    let mut t: Vec<(&str, V)> = vec![];
    for tag in TAGS {
        let v = c % 5;
        c /= 5;
        if v > 0 {
            t.push((tag, tag_value(tag, v)));
        }
    }
    mk_tags(&t)
}

fn check_record(rec: &Tags) -> Verdict {
    let d = lib_dict(rec);
    for def in [None, Some("DEFAULT")] {
        let want = dis_of(rec, &localise, def, &other_text);
        let got = guarded(|| {
            dict_to_dis(&d, &|k| localise(k).map(Cow::Owned), def.map(Cow::Borrowed)).to_string()
        })
        .map_err(|m| ("dis-panic".to_string(), m))?;
        if got != want {
            let first = TAGS.iter().find(|t| rec.iter().any(|(k, _)| k == *t)).copied().unwrap_or("none");
            return Err((format!("dis-chain:{first}"), format!("library {got:?}, reference {want:?} (default {def:?})")));
        }
    }
    // Dict::dis() = no localiser, no default
    let want = dis_of(rec, &|_| None, None, &other_text);
    let got = guarded(|| d.dis().to_string()).map_err(|m| ("dis-panic".to_string(), m))?;
    if got != want {
        return Err(("dis-method".into(), format!("Dict::dis() {got:?}, reference {want:?}")));
    }
    Ok(())
}

/// one pattern against every scope; a failing pattern is minimised by deleting characters
fn run_pattern(p: &str, nscopes: usize, local: &mut Local) {
    for s in 0..nscopes {
        local.eval();
        match check_pattern(p, s) {
            Ok(()) => {}
            Err(_) => {
                let mut cur: Vec<char> = p.chars().collect();
                'outer: loop {
                    for i in 0..cur.len() {
                        let mut c = cur.clone();
                        c.remove(i);
                        let t: String = c.iter().collect();
                        if check_pattern(&t, s).is_err() {
                            cur = c;
                            continue 'outer;
                        }
                    }
                    break;
                }
                let m: String = cur.iter().collect();
                let (stage, d) = check_pattern(&m, s).err().unwrap();
                local.fail(&format!("{stage}:{}", pattern_class(&m)), json!({"pattern": m, "scope": s}), d)
            }
        }
    }
    if p.contains('$') {
        local.nontrivial(p);
    }
    local.count("patterns");
}

/// every printable ASCII character, line break, tab, and a few non-ASCII ones (2-, 3-, 4-byte, combining)
fn all_chars() -> Vec<String> {
    let mut v: Vec<String> = (0x20u8..0x7f).map(|b| (b as char).to_string()).collect();
    for c in ['\n', '\t', '\r', 'é', 'ß', 'Ω', '€', '😀', '\u{301}', '\u{a0}'] {
        v.push(c.to_string());
    }
    v
}

const VARS: &[&str] = &["$a", "$ab", "$aB1_", "$b", "$zz", "$a1", "${a}", "${b}", "${zz}", "${aB1_}", "$<key>", "$<x::y>", "$<no>", "$<dollar>", "$", "${", "$<", "$$", "${}", "$<>", "${a", "$<key"];

fn patterns_of_len(len: usize, idx: usize) -> String {
    let mut s = String::new();
    let mut i = idx;
    for _ in 0..len {
        s.push(ALPHA[i % ALPHA.len()]);
        i /= ALPHA.len();
    }
    s
}

pub fn run(tier: Tier) -> i32 {
    let mut run = Run::new("C20", tier, "exploration");
    let maxlen = tier.pick(6usize, 7);
    run.rule = format!("all 5^8 records (each display tag absent / three values of different kinds / present but empty) with and without default and through Dict::dis(); every macro pattern of length <= {maxlen} over {{$ {{ }} < > a b B 1 _ space é}} against 5 scopes (incl. values whose text contains variables, empty values, nine kinds) and a localiser (one translation contains variables); every one of 22 variable forms between every pair of 106 characters (all printable ASCII, line breaks, 2-/3-/4-byte and combining characters) or none, two variables around every character, all triples of variable forms in three layouts; reference = hand-written scanner; non-trivial = pattern containing '$' / record with >= 1 display tag");
    run.assume("text of a value that is neither Str nor Ref is Value::to_string() (delegated to the library; C20 is about which tag and which substitution)");
    run.assume("macro names are [a-z][A-Za-z0-9_]* taken greedily; $<key> has a non-empty key without '>'");
    crate::engine::quiet_panics();
    let l = par_for(390_625, |code, local| {
        let rec = record(code);
        local.eval();
        if !rec.is_empty() {
            local.nontrivial(&format!("rec{code}"));
        }
        if let Some(first) = TAGS.iter().find(|t| rec.iter().any(|(k, _)| k == *t)) {
            local.count(&format!("decisive:{first}"));
        }
        match check_record(&rec) {
            Ok(()) => local.outcome("ok"),
            Err((s, d)) => local.fail(&s, json!({"record": to_json(&V::Dict(rec))}), d),
        }
    });
    run.absorb(l);
    let mut jobs: Vec<(usize, usize)> = vec![]; // (len, block)
    for len in 0..=maxlen {
        let n = ALPHA.len().pow(len as u32);
        let blocks = (n + 4095) / 4096;
        for b in 0..blocks {
            jobs.push((len, b));
        }
    }
    let nscopes = scopes().len();
    let l = par_for(jobs.len(), |j, local| {
        let (len, b) = jobs[j];
        let n = ALPHA.len().pow(len as u32);
        for idx in (b * 4096)..((b + 1) * 4096).min(n) {
            let p = patterns_of_len(len, idx);
            run_pattern(&p, nscopes, local);
        }
    });
    run.absorb(l);
    // neighbour sweep: every variable form between every pair of characters (or none); two
    // variables around every character; three variables; the same variable twice
    let chars = {
        let mut c = all_chars();
        c.push(String::new());
        c
    };
    let nc = chars.len();
    let l = par_for(VARS.len() * nc, |k, local| {
        let (vi, ci) = (k / nc, k % nc);
        for c2 in &chars {
            run_pattern(&format!("{}{}{}", chars[ci], VARS[vi], c2), nscopes, local);
            local.count("neighbour-patterns");
        }
        for v2 in VARS {
            run_pattern(&format!("{}{}{}", VARS[vi], chars[ci], v2), nscopes, local);
            run_pattern(&format!("x{}{}{}{}y", VARS[vi], chars[ci], v2, chars[ci]), nscopes, local);
        }
    });
    run.absorb(l);
    let nv = VARS.len();
    let l = par_for(nv * nv, |k, local| {
        let (i, j) = (k / nv, k % nv);
        for m in 0..nv {
            run_pattern(&format!("{} {}/{}", VARS[i], VARS[j], VARS[m]), nscopes, local);
            run_pattern(&format!("[{}] ({}) {{{}}}", VARS[i], VARS[j], VARS[m]), nscopes, local);
            run_pattern(&format!("{}{}{}", VARS[i], VARS[j], VARS[m]), nscopes, local);
        }
    });
    run.absorb(l);
    // distant interactions: two variable forms separated by 1, 8, 30, 200 characters of text
    let l = par_for(VARS.len() * VARS.len(), |k, local| {
        let (i, j) = (k / VARS.len(), k % VARS.len());
        for gap in [1usize, 8, 30, 200] {
            for filler in ["x", "é", " .[(%\\"] {
                let g: String = filler.chars().cycle().take(gap).collect();
                run_pattern(&format!("{}{g}{}", VARS[i], VARS[j]), nscopes, local);
                run_pattern(&format!("{g}{}{g}{}{g}{}", VARS[i], VARS[j], VARS[i]), nscopes, local);
            }
        }
    });
    run.absorb(l);
    // history independence: one pattern after another (all ordered pairs of 66 patterns x 5 scopes)
    {
        let mut pats: Vec<String> = VARS.iter().map(|v| format!("[{v}] x")).collect();
        pats.extend(VARS.iter().map(|v| format!("{v}{v}")));
        pats.extend(VARS.iter().map(|v| format!("$ab {v} ${{a}}")));
        let op = |p: &String| -> String {
            (0..nscopes).map(|s| format!("{:?}", check_pattern(p, s))).collect::<Vec<_>>().join("|")
        };
        let l = super::common::history_pairs("dis-macro", &pats, &op, &|p: &String| json!(p));
        run.absorb(l);
    }
    run.require(run.counter("neighbour-patterns") > 100_000, "neighbour sweep too small");
    for t in TAGS {
        run.require(run.counter(&format!("decisive:{t}")) > 0, &format!("tag {t} never decisive"));
    }
    run.stats.samples = vec![json!({"pattern": "$a ${b} $<a b>", "scope": 0}), json!({"record": to_json(&V::Dict(record(2 + 3 * 1)))})];
    run.finish(&replay)
}

pub fn replay(case: &J) -> Verdict {
    if let Some(p) = case["pattern"].as_str() {
        let s = case["scope"].as_u64().unwrap_or(0) as usize;
        return check_pattern(p, s).map_err(|(stage, d)| (format!("{stage}:{}", pattern_class(p)), d));
    }
    match from_json(&case["record"]) {
        V::Dict(t) => check_record(&t),
        _ => Ok(()),
    }
}
