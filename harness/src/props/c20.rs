//! C20 — display names follow the documented precedence and macro substitution. Exhaustive over
//! all 5^8 records of the eight display tags and all macro patterns up to a length.

use super::common::Verdict;
use crate::engine::{guarded, par_for, Local, Run, Tier};
use crate::model::dis_ref::{dis_of, expand_macro};
use crate::model::v::{from_json, mk_tags, to_json, to_lib, Tags, V};
use libhaystack::val::{dict_to_dis, dis_macro, Dict, HaystackDict, Value};
use serde_json::{json, Value as J};
use std::borrow::Cow;

const ALPHA: &[char] = &['$', '{', '}', '<', '>', 'a', 'b', 'B', '1', '_', ' ', 'é'];

fn localise(k: &str) -> Option<String> {
    match k {
        "a" => Some("LA".into()),
        "a b" => Some("L A B".into()),
        "{b" => Some("LCB".into()),
        "key" => Some("translated".into()),
        "x::y" => Some("LXY".into()),
        "dollar" => Some("$a ${b}".into()),
        _ => None,
    }
}

fn other_text(v: &V) -> String {
    to_lib(v).to_string()
}

fn scopes() -> Vec<Tags> {
    vec![
        mk_tags(&[
            ("a", V::str("<A>")),
            ("ab", V::str("<AB>")),
            ("aB1_", V::str("<X>")),
            ("b", V::Ref("r".into(), Some("R D".into()))),
        ]),
        mk_tags(&[("b", V::numu(5.0, "kW")), ("ab", V::Ref("q".into(), None)), ("a1", V::Marker)]),
        vec![],
        // values whose text contains variables (must not be expanded again), an empty value, other kinds
        mk_tags(&[
            ("a", V::str("$b and ${b} $<key>")),
            ("b", V::str("")),
            ("ab", V::Date(2021, 2, 28)),
            ("aB1_", V::List(vec![V::num(1.0), V::str("s")])),
            ("zz", V::dict(&[("dis", V::str("inner dis"))])),
            ("a1", V::Bool(false)),
        ]),
        mk_tags(&[("a", V::Uri("http://x/$a".into())), ("b", V::Time(1, 2, 3, 0)), ("ab", V::dt(1_625_097_600, 0, "America/New_York")), ("zz", V::Na), ("a1", V::Coord(1.5, -2.0)), ("aB1_", V::Sym("sym".into()))]),
    ]
}

fn lib_dict(t: &Tags) -> Dict {
    match to_lib(&V::Dict(t.clone())) {
        Value::Dict(d) => d,
        _ => unreachable!(),
    }
}

fn pattern_class(p: &str) -> String {
    // abstract a pattern: $ kept, braces kept, name chars -> n, others -> x
    let s: String = p
        .chars()
        .map(|c| match c {
            '$' | '{' | '}' | '<' | '>' => c,
            'a'..='z' => 'n',
            'A'..='Z' | '0'..='9' | '_' => 'N',
            ' ' => '_',
            _ => 'x',
        })
        .collect();
    s
}

fn check_pattern(p: &str, scope_i: usize) -> Verdict {
    let scope = &scopes()[scope_i];
    let d = lib_dict(scope);
    let want = expand_macro(p, &|k| scope.iter().find(|(n, _)| n == k).map(|(_, v)| v.clone()), &localise, &other_text);
    let got = guarded(|| {
        dis_macro(p, |k| d.get(k).map(Cow::Borrowed), |k| localise(k).map(Cow::Owned)).to_string()
    })
    .map_err(|m| ("macro-panic".to_string(), m))?;
    if !p.contains('$') && got != p {
        return Err(("macro-no-dollar-changed".into(), format!("{p:?} -> {got:?}")));
    }
    if got != want {
        return Err(("macro".into(), format!("pattern {p:?} scope#{scope_i}: library {got:?}, reference {want:?}")));
    }
    Ok(())
}


// ------------------------------------------------------------------------------ re-entrant callbacks

/// A chain of records (point -> equip -> site ...): record i has `disMacro` = pats[i], a `navName`
/// and a `parentRef`; the last one has a plain `dis`. The value resolver answers `parentRef` with
/// the display name of the parent, computed by calling the library again from inside the callback
/// (the usual way to resolve "$equipRef $navName"); the localiser expands its translations with
/// dis_macro as well. Reference = the same recursion over the reference scanner.
fn nested_world(pats: &[String]) -> Vec<Tags> {
    let n = pats.len();
    let mut recs: Vec<Tags> = (0..n)
        .map(|i| {
            mk_tags(&[
                ("disMacro", V::str(&pats[i])),
                ("navName", V::str(&format!("N{i}"))),
                ("a", V::str(&format!("<A{i}>"))),
                ("b", V::numu(i as f64, "kW")),
                ("parentRef", V::Ref(format!("r{}", i + 1), None)),
            ])
        })
        .collect();
    recs.push(mk_tags(&[("dis", V::str("Site $a")), ("navName", V::str("top"))]));
    recs
}

fn nested_localise_ref(k: &str, world: &[Tags], i: usize) -> Option<String> {
    match k {
        "nested" => Some(nested_ref(world, i + 1)),
        "expand" => Some(expand_macro("[$navName|$<key>]", &|t| world[i].iter().find(|(n, _)| n == t).map(|(_, v)| v.clone()), &localise, &other_text)),
        other => localise(other),
    }
}

fn nested_ref(world: &[Tags], i: usize) -> String {
    if i >= world.len() {
        return String::new();
    }
    let rec = &world[i];
    let get = |k: &str| -> Option<V> {
        if k == "parentRef" && i + 1 < world.len() {
            return Some(V::Str(nested_ref(world, i + 1)));
        }
        rec.iter().find(|(n, _)| n == k).map(|(_, v)| v.clone())
    };
    match rec.iter().find(|(n, _)| n == "dis") {
        Some((_, V::Str(s))) => s.clone(),
        _ => match rec.iter().find(|(n, _)| n == "disMacro") {
            Some((_, V::Str(p))) => expand_macro(p, &get, &|k| nested_localise_ref(k, world, i), &other_text),
            _ => String::new(),
        },
    }
}

fn nested_lib(world: &[Dict], i: usize) -> String {
    if i >= world.len() {
        return String::new();
    }
    let rec = &world[i];
    if let Some(Value::Str(s)) = rec.get("dis") {
        return s.value.clone();
    }
    let pat = match rec.get("disMacro") {
        Some(Value::Str(s)) => s.value.clone(),
        _ => return String::new(),
    };
    dis_macro(
        &pat,
        |k| {
            if k == "parentRef" && i + 1 < world.len() {
                return Some(Cow::Owned(Value::make_str(&nested_lib(world, i + 1))));
            }
            rec.get(k).map(Cow::Borrowed)
        },
        |k| match k {
            "nested" => Some(Cow::Owned(nested_lib(world, i + 1))),
            "expand" => Some(Cow::Owned(dis_macro("[$navName|$<key>]", |t| rec.get(t).map(Cow::Borrowed), |t| localise(t).map(Cow::Owned)).to_string())),
            // a callback that uses other display entry points of the library
            other => localise(other).map(|t| {
                let _ = rec.dis();
                let _ = dict_to_dis(rec, &|t| localise(t).map(Cow::Owned), None);
                Cow::Owned(t)
            }),
        },
    )
    .to_string()
}

fn check_nested(pats: &[String]) -> Verdict {
    let world = nested_world(pats);
    let lib_world: Vec<Dict> = world.iter().map(lib_dict).collect();
    let want = nested_ref(&world, 0);
    let got = guarded(|| nested_lib(&lib_world, 0)).map_err(|m| ("nested-call-panic".to_string(), m))?;
    if got != want {
        return Err(("nested-call".into(), format!("patterns {pats:?}: library {got:?}, reference {want:?}")));
    }
    Ok(())
}

const NESTED_PATS: &[&str] = &[
    "$parentRef $navName", "${parentRef}/${navName}", "$navName", "$<nested> $navName", "$<expand>", "$parentRef $<expand> $a", "$<key> $parentRef $b", "$parentRef$parentRef", "$<nested>$<nested>", "$zz $parentRef", "plain", "$<dollar> $parentRef",
];

const TAGS: [&str; 8] = ["dis", "disMacro", "disKey", "name", "def", "tag", "navName", "id"];

fn tag_value(tag: &str, variant: usize) -> V {
    // variants 1, 2 and 3: three values of different kinds
    match (tag, variant) {
        // variant 4: present but empty
        ("id", 4) => V::Ref("e".into(), Some(String::new())),
        ("def", 4) => V::Sym("e".into()),
        (_, 4) => V::str(""),
        ("dis", 3) => V::numu(21.5, "°C"),
        ("disMacro", 3) => V::str("no variables {here} <x>"),
        ("disKey", 3) => V::num(42.0),
        ("name", 3) => V::Ref("nameref".into(), Some("Name Dis".into())),
        ("def", 3) => V::Marker,
        ("tag", 3) => V::Marker,
        ("navName", 3) => V::str(""),
        ("id", 3) => V::Ref("bare".into(), None),
        ("disMacro", 1) => V::str("M $navName ${id} $<key> $zz"),
        ("disMacro", _) => V::num(7.0),
        ("disKey", 1) => V::str("key"),
        ("disKey", _) => V::str("untranslatable"),
        ("id", 1) => V::Ref("i-d".into(), Some("Id Dis".into())),
        ("id", _) => V::Marker,
        ("def", 1) => V::str("d e f"),
        ("def", _) => V::Sym("site".into()),
        ("tag", 1) => V::str("t"),
        ("tag", _) => V::Ref("tagref".into(), Some("Tag Dis".into())),
        (t, 1) => V::Str(format!("{t}!")),
        ("dis", _) => V::Ref("disref".into(), Some("Ref Dis".into())),
        ("name", _) => V::Bool(true),
        ("navName", _) => V::List(vec![V::num(1.0)]),
        _ => V::Null,
    }
}

fn record(code: usize) -> Tags {
    let mut c = code;
    let mut t: Vec<(&str, V)> = vec![];
    for tag in TAGS {
        let v = c % 5;
        c /= 5;
        if v > 0 {
            t.push((tag, tag_value(tag, v)));
        }
    }
    mk_tags(&t)
}

fn check_record(rec: &Tags) -> Verdict {
    let d = lib_dict(rec);
    for def in [None, Some("DEFAULT")] {
        let want = dis_of(rec, &localise, def, &other_text);
        let got = guarded(|| {
            dict_to_dis(&d, &|k| localise(k).map(Cow::Owned), def.map(Cow::Borrowed)).to_string()
        })
        .map_err(|m| ("dis-panic".to_string(), m))?;
        if got != want {
            let first = TAGS.iter().find(|t| rec.iter().any(|(k, _)| k == *t)).copied().unwrap_or("none");
            return Err((format!("dis-chain:{first}"), format!("library {got:?}, reference {want:?} (default {def:?})")));
        }
    }
    // Dict::dis() = no localiser, no default
    let want = dis_of(rec, &|_| None, None, &other_text);
    let got = guarded(|| d.dis().to_string()).map_err(|m| ("dis-panic".to_string(), m))?;
    if got != want {
        return Err(("dis-method".into(), format!("Dict::dis() {got:?}, reference {want:?}")));
    }
    Ok(())
}

/// one pattern against every scope; a failing pattern is minimised by deleting characters
fn run_pattern(p: &str, nscopes: usize, local: &mut Local) {
    for s in 0..nscopes {
        local.eval();
        match check_pattern(p, s) {
            Ok(()) => {}
            Err(_) => {
                let mut cur: Vec<char> = p.chars().collect();
                'outer: loop {
                    for i in 0..cur.len() {
                        let mut c = cur.clone();
                        c.remove(i);
                        let t: String = c.iter().collect();
                        if check_pattern(&t, s).is_err() {
                            cur = c;
                            continue 'outer;
                        }
                    }
                    break;
                }
                let m: String = cur.iter().collect();
                let (stage, d) = check_pattern(&m, s).err().unwrap();
                local.fail(&format!("{stage}:{}", pattern_class(&m)), json!({"pattern": m, "scope": s}), d)
            }
        }
    }
    if p.contains('$') {
        local.nontrivial(p);
    }
    local.count("patterns");
}

/// every printable ASCII character, line break, tab, and a few non-ASCII ones (2-, 3-, 4-byte, combining)
fn all_chars() -> Vec<String> {
    let mut v: Vec<String> = (0x20u8..0x7f).map(|b| (b as char).to_string()).collect();
    for c in ['\n', '\t', '\r', 'é', 'ß', 'Ω', '€', '😀', '\u{301}', '\u{a0}'] {
        v.push(c.to_string());
    }
    v
}

const VARS: &[&str] = &["$a", "$ab", "$aB1_", "$b", "$zz", "$a1", "${a}", "${b}", "${zz}", "${aB1_}", "$<key>", "$<x::y>", "$<no>", "$<dollar>", "$", "${", "$<", "$$", "${}", "$<>", "${a", "$<key"];

fn patterns_of_len(len: usize, idx: usize) -> String {
    let mut s = String::new();
    let mut i = idx;
    for _ in 0..len {
        s.push(ALPHA[i % ALPHA.len()]);
        i /= ALPHA.len();
    }
    s
}

fn macro_probe_pool() -> Vec<String> {
    let mut pats: Vec<String> = VARS.iter().map(|v| format!("[{v}] x")).collect();
    pats.extend(VARS.iter().map(|v| format!("$ab {v} ${{a}}")));
    pats
}

fn macro_probe_op(p: &String) -> String {
    let mut out: Vec<String> = (0..scopes().len()).map(|s| format!("{:?}", check_pattern(p, s))).collect();
    out.push(format!("{:?}", check_record(&record(2 + 3 * (p.len() % 7)))));
    out.join("|")
}

pub fn run(tier: Tier) -> i32 {
    let mut run = Run::new("C20", tier, "exploration");
    let maxlen = tier.pick(6usize, 7);
    run.rule = format!("all 5^8 records (each display tag absent / three values of different kinds / present but empty) with and without default and through Dict::dis(); every macro pattern of length <= {maxlen} over {{$ {{ }} < > a b B 1 _ space é}} against 5 scopes (incl. values whose text contains variables, empty values, nine kinds) and a localiser (one translation contains variables); every one of 22 variable forms between every pair of 106 characters (all printable ASCII, line breaks, 2-/3-/4-byte and combining characters) or none, two variables around every character, all triples of variable forms in three layouts; chains of 1-3 records whose value resolver and localiser call dis_macro / dict_to_dis / Dict::dis again from inside the callback (every tuple of 12 patterns per level; reference = the same recursion over the reference scanner); reference = hand-written scanner; non-trivial = pattern containing '$' / record with >= 1 display tag");
    run.assume("text of a value that is neither Str nor Ref is Value::to_string() (delegated to the library; C20 is about which tag and which substitution)");
    run.assume("macro names are [a-z][A-Za-z0-9_]* taken greedily; $<key> has a non-empty key without '>'");
    crate::engine::quiet_panics();
    if super::common::probe_first(&mut run, "dis-macro", &macro_probe_pool(), &macro_probe_op, &|p: &String| json!(p)) {
        return run.finish(&replay);
    }
    let l = par_for(390_625, |code, local| {
        let rec = record(code);
        local.eval();
        if !rec.is_empty() {
            local.nontrivial(&format!("rec{code}"));
        }
        if let Some(first) = TAGS.iter().find(|t| rec.iter().any(|(k, _)| k == *t)) {
            local.count(&format!("decisive:{first}"));
        }
        match check_record(&rec) {
            Ok(()) => local.outcome("ok"),
            Err((s, d)) => local.fail(&s, json!({"record": to_json(&V::Dict(rec))}), d),
        }
    });
    run.absorb(l);
    let mut jobs: Vec<(usize, usize)> = vec![]; // (len, block)
    for len in 0..=maxlen {
        let n = ALPHA.len().pow(len as u32);
        let blocks = (n + 4095) / 4096;
        for b in 0..blocks {
            jobs.push((len, b));
        }
    }
    let nscopes = scopes().len();
    let l = par_for(jobs.len(), |j, local| {
        let (len, b) = jobs[j];
        let n = ALPHA.len().pow(len as u32);
        for idx in (b * 4096)..((b + 1) * 4096).min(n) {
            let p = patterns_of_len(len, idx);
            run_pattern(&p, nscopes, local);
        }
    });
    run.absorb(l);
    // neighbour sweep: every variable form between every pair of characters (or none); two
    // variables around every character; three variables; the same variable twice
    let chars = {
        let mut c = all_chars();
        c.push(String::new());
        c
    };
    let nc = chars.len();
    let l = par_for(VARS.len() * nc, |k, local| {
        let (vi, ci) = (k / nc, k % nc);
        for c2 in &chars {
            run_pattern(&format!("{}{}{}", chars[ci], VARS[vi], c2), nscopes, local);
            local.count("neighbour-patterns");
        }
        for v2 in VARS {
            run_pattern(&format!("{}{}{}", VARS[vi], chars[ci], v2), nscopes, local);
            run_pattern(&format!("x{}{}{}{}y", VARS[vi], chars[ci], v2, chars[ci]), nscopes, local);
        }
    });
    run.absorb(l);
    let nv = VARS.len();
    let l = par_for(nv * nv, |k, local| {
        let (i, j) = (k / nv, k % nv);
        for m in 0..nv {
            run_pattern(&format!("{} {}/{}", VARS[i], VARS[j], VARS[m]), nscopes, local);
            run_pattern(&format!("[{}] ({}) {{{}}}", VARS[i], VARS[j], VARS[m]), nscopes, local);
            run_pattern(&format!("{}{}{}", VARS[i], VARS[j], VARS[m]), nscopes, local);
        }
    });
    run.absorb(l);
    // distant interactions: two variable forms separated by 1, 8, 30, 200 characters of text
    let l = par_for(VARS.len() * VARS.len(), |k, local| {
        let (i, j) = (k / VARS.len(), k % VARS.len());
        for gap in [1usize, 8, 30, 200] {
            for filler in ["x", "é", " .[(%\\"] {
                let g: String = filler.chars().cycle().take(gap).collect();
                run_pattern(&format!("{}{g}{}", VARS[i], VARS[j]), nscopes, local);
                run_pattern(&format!("{g}{}{g}{}{g}{}", VARS[i], VARS[j], VARS[i]), nscopes, local);
            }
        }
    });
    run.absorb(l);
    // re-entrant callbacks: chains of 1..3 records whose resolver / localiser call the library
    // again from inside the callback (every tuple of 12 patterns per level)
    {
        let np = NESTED_PATS.len();
        let l = par_for(np * np * np, |k, local| {
            let idx = [k % np, (k / np) % np, k / (np * np)];
            for depth in 1..=3usize {
                if idx[depth..].iter().any(|&x| x != 0) {
                    continue;
                }
                let pats: Vec<String> = idx[..depth].iter().map(|&i| NESTED_PATS[i].to_string()).collect();
                local.eval();
                local.nontrivial(&format!("nested{pats:?}"));
                local.count("nested-chains");
                if let Err((s, d)) = check_nested(&pats) {
                    local.fail(&s, json!({"nested": pats}), d);
                }
            }
        });
        run.absorb(l);
    }
    // history independence: one pattern after another (all ordered pairs of 66 patterns x 5 scopes)
    {
        let mut pats: Vec<String> = VARS.iter().map(|v| format!("[{v}] x")).collect();
        pats.extend(VARS.iter().map(|v| format!("{v}{v}")));
        pats.extend(VARS.iter().map(|v| format!("$ab {v} ${{a}}")));
        let op = |p: &String| -> String {
            (0..nscopes).map(|s| format!("{:?}", check_pattern(p, s))).collect::<Vec<_>>().join("|")
        };
        let l = super::common::history_pairs("dis-macro", &pats, &op, &|p: &String| json!(p));
        run.absorb(l);
    }
    run.require(run.counter("neighbour-patterns") > 100_000, "neighbour sweep too small");
    run.require(run.counter("nested-chains") > 1_000, "nested chains not explored");
    for t in TAGS {
        run.require(run.counter(&format!("decisive:{t}")) > 0, &format!("tag {t} never decisive"));
    }
    run.stats.samples = vec![json!({"pattern": "$a ${b} $<a b>", "scope": 0}), json!({"record": to_json(&V::Dict(record(2 + 3 * 1)))})];
    run.finish(&replay)
}

pub fn replay(case: &J) -> Verdict {
    if case["free_running"] == "dis-macro" {
        return super::common::replay_probe(&macro_probe_pool(), &macro_probe_op, &|p: &String| json!(p));
    }
    if let Some(p) = case["pattern"].as_str() {
        let s = case["scope"].as_u64().unwrap_or(0) as usize;
        return check_pattern(p, s).map_err(|(stage, d)| (format!("{stage}:{}", pattern_class(p)), d));
    }
    if let Some(a) = case["nested"].as_array() {
        let pats: Vec<String> = a.iter().map(|x| x.as_str().unwrap_or("").to_string()).collect();
        return check_nested(&pats);
    }
    match from_json(&case["record"]) {
        V::Dict(t) => check_record(&t),
        _ => Ok(()),
    }
}
