//! C18 — the C API is memory-safe under its ownership protocol and tolerates null (DESIGN §5 C18).
//! The C17 history search is executed by a build of this harness compiled with
//! `-Zsanitizer=address` (leak detection on), in child processes: every explored history ends with
//! the protocol's clean-up, so any AddressSanitizer / LeakSanitizer report or abort is a violation
//! of a protocol-respecting history. In every state reached with <= 2 calls every non-destroy
//! function is additionally called with each pointer parameter NULL.

use super::c17::{machine_histories, op_class, path_to_ops, run_history, transition_paths};
use super::common::Verdict;
use crate::engine::isolate::{run_job, ChildCtx, Job};
use crate::engine::{guarded, Local, Run, Tier};
use crate::model::capi::*;
use serde_json::{json, Value as J};

pub const ASAN_EXE: &str = "target-asan/x86_64-unknown-linux-gnu/release/hsmc";

#[cfg(verif_asan)]
extern "C" {
    fn __lsan_do_recoverable_leak_check() -> i32;
}

/// true if the leak checker found a new leak since the last call (ASan build only)
fn leak_check() -> bool {
    #[cfg(verif_asan)]
    unsafe {
        return __lsan_do_recoverable_leak_check() != 0;
    }
    #[cfg(not(verif_asan))]
    false
}

fn depth_for(tier: Tier) -> usize {
    tier.pick(3, 4)
}

fn null_state_depth() -> usize {
    2
}

fn paths_for(job: &str, tier: Tier) -> Vec<Vec<usize>> {
    match job {
        "paths" => transition_paths(depth_for(tier), 3_000_000).0,
        "nulls" => transition_paths(null_state_depth() + 1, 3_000_000).1,
        "machines-quick" => (0..machine_histories(Tier::Quick).len()).map(|i| vec![i]).collect(),
        "machines-thorough" => (0..machine_histories(Tier::Thorough).len()).map(|i| vec![i]).collect(),
        other => crate::engine::machinery(&format!("C18: unknown job {other}")),
    }
}

fn ops_of(job: &str, path: &[usize]) -> Vec<Op> {
    thread_local! {
        static MH: std::cell::RefCell<std::collections::BTreeMap<String, std::rc::Rc<Vec<(String, Vec<Op>)>>>> = std::cell::RefCell::new(Default::default());
    }
    if job.starts_with("machines") {
        let tier = if job.ends_with("thorough") { Tier::Thorough } else { Tier::Quick };
        let all = MH.with(|m| m.borrow_mut().entry(job.to_string()).or_insert_with(|| std::rc::Rc::new(machine_histories(tier))).clone());
        return all[path[0]].1.clone();
    }
    path_to_ops(path).expect("path")
}

fn run_path(job: &str, path: &[usize], local: &mut Local, check_leaks_now: bool, step: bool, ordinal: u64) {
    local.eval();
    local.transitions += 1;
    local.traces += 1;
    let ops = ops_of(job, path);
    let case = json!({"job": job, "path": path, "ops": ops.iter().map(|o| format!("{o:?}")).collect::<Vec<_>>()});
    if job == "paths" || job.starts_with("machines") {
        // machines: every live handle inspected with every getter after every step
        match guarded(|| run_history(&ops, job != "paths")) {
            Ok(Ok(_)) => local.outcome("ok"),
            Ok(Err((i, e))) => local.fail(&format!("capi:{}", op_class(&ops[i])), case.clone(), e),
            Err(p) => local.fail(&format!("panic:{}", op_class(ops.last().unwrap())), case.clone(), p),
        }
    } else {
        // replay the state, then the null sweep with every live handle in turn (and with none)
        let r = guarded(|| unsafe {
            let mut model = Model::new();
            let mut real = Real::new();
            let mut out: Result<u64, String> = Ok(0);
            for op in &ops {
                let want = model_step(&mut model, op);
                if let Err(e) = real.step(op, &want) {
                    out = Err(format!("replaying the state: {e}"));
                    break;
                }
            }
            if out.is_ok() {
                let mut handles: Vec<*mut libhaystack::val::Value> = real.slots.iter().copied().filter(|p| !p.is_null()).collect();
                handles.push(std::ptr::null_mut());
                let mut total = 0;
                for h in handles {
                    match null_sweep(h, real.filter) {
                        Ok(n) => total += n,
                        Err(e) => {
                            out = Err(e);
                            break;
                        }
                    }
                }
                if out.is_ok() {
                    // borrowed pointers across read-only calls, returned strings destroyed one by one
                    match crate::model::capi::borrow_sweep() {
                        Ok(n) => total += n,
                        Err(e) => out = Err(e),
                    }
                }
                if out.is_ok() {
                    // and every string argument with bytes that are not UTF-8
                    match crate::model::capi::bad_string_sweep() {
                        Ok(n) => total += n,
                        Err(e) => out = Err(e),
                    }
                }
                if out.is_ok() && ordinal == 0 {
                    // every integer argument over its extremes
                    match crate::model::capi::numeric_sweep() {
                        Ok(n) => {
                            total += n;
                            local.count_n("numeric-sweep-calls", n);
                        }
                        Err(e) => out = Err(e),
                    }
                }
                if out.is_ok() && ordinal == 0 {
                    // failing calls whose message quotes long (non-ASCII) caller text
                    match crate::model::capi::long_error_sweep() {
                        Ok(n) => {
                            total += n;
                            local.count_n("long-error-calls", n);
                        }
                        Err(e) => out = Err(e),
                    }
                }
                if out.is_ok() {
                    // the null calls must have left every handle unchanged
                    out = real.compare(&model).map(|_| total);
                }
            }
            real.cleanup();
            out
        });
        match r {
            Ok(Ok(n)) => {
                local.count_n("null-calls", n);
                local.outcome("ok");
            }
            Ok(Err(e)) => {
                let f = e.split(|c| c == ' ' || c == '(').next().unwrap_or("").to_string();
                local.fail(&format!("null-argument:{f}"), case.clone(), e)
            }
            Err(p) => local.fail("null-argument:panic", case.clone(), p),
        }
    }
    // the leak pass stops the world (~0.1 s): after every history only in single-step mode,
    // periodically otherwise (a leak then ends this child; the parent re-runs the range in
    // single-step mode, which names the history)
    if check_leaks_now && leak_check() {
        if step {
            // name the history and end this child without LeakSanitizer's exit-time pass
            let _ = case;
            println!("LEAK {ordinal}");
            use std::io::Write;
            let _ = std::io::stdout().flush();
            unsafe { libc::_exit(3) };
        } else {
            eprintln!("LeakSanitizer: leak found by the periodic pass; re-run in single-step mode");
            std::process::exit(23);
        }
    }
}

pub fn child(tier: Tier, job: String, start: u64, end: u64, ctx: &mut ChildCtx, local: &mut Local) {
    if let Some(rest) = job.strip_prefix("one:") {
        // "one:<job>:<i,j,k>"
        let (j, p) = rest.split_once(':').unwrap();
        let path: Vec<usize> = p.split(',').filter(|s| !s.is_empty()).map(|s| s.parse().unwrap()).collect();
        ctx.begin(0);
        run_path(j, &path, local, true, true, 0);
        return;
    }
    let paths = paths_for(&job, tier);
    for ord in start..end.min(paths.len() as u64) {
        ctx.begin(ord);
        let last = ord + 1 == end.min(paths.len() as u64);
        run_path(&job, &paths[ord as usize], local, ctx.step || last || ord % 4096 == 4095, ctx.step, ord);
        local.nontrivial(&format!("{job}{:?}", paths[ord as usize]));
    }
}

fn asan_exe() -> String {
    format!("{}/{}", crate::engine::verif_dir(), ASAN_EXE)
}

fn asan_env() -> Vec<(String, String)> {
    vec![("ASAN_OPTIONS".to_string(), "detect_leaks=1:abort_on_error=0:allocator_may_return_null=1:detect_stack_use_after_return=0".to_string())]
}

pub fn run(tier: Tier) -> i32 {
    let mut run = Run::new("C18", tier, "model_checking");
    let depth = depth_for(tier);
    run.rule = format!("the C17 search (same pool model, same operation alphabet) to depth {depth}, every transition executed by the AddressSanitizer build of the harness (leak detection on) in child processes; each history ends with the protocol's clean-up (every live handle, filter and returned string destroyed exactly once); a LeakSanitizer pass runs after each history in single-step mode and at process exit otherwise. Plus the focused machines of C17 (list, dict, grid with indices 0..4, eight key shapes, aliasing of input and output handles, exotic values with interior NUL / 210 kB strings / extreme fields) under the same monitors. Plus: in every state reached with <= {} calls, every non-destroy function (18 predicates, 29 getters, 24 checked constructors, 11 mutators / out-parameter getters, 3 filter functions) is called with each pointer parameter NULL, one at a time and all together, with every live handle as the non-null argument: documented sentinel + error pending + pool unchanged + no crash", null_state_depth());
    run.assume("AddressSanitizer / LeakSanitizer are the monitors of each explored history (std is not instrumented; allocator interposition still sees the crate's heap misuse); plus, once per run in such a child, every integer argument over its extremes (list / grid indices 0 .. 7, 2^31, 2^32 ± 1, 2^63 ± 1, usize::MAX - 1, usize::MAX on containers of 0 / 1 / 3 entries through get / set / remove / row-at; time and date fields over 0, limits ± 1, 999 .. 1001, 2^31, u32::MAX, year i32::MIN .. i32::MAX): in range the Rust answer, out of range sentinel + message + container unchanged; and every text-taking entry point (from_zinc_string, from_json_string, filter_parse, make_number_with_unit, make_tz_datetime) with malformed text built from 1-/2-/3-/4-byte characters after 0..3 ASCII bytes at total sizes 60, 120, 248..262, 508..516, 1020..1030, 4092..4100 and 65 536 bytes, the error message fetched and destroyed after each");
    run.assume("a panic inside an extern \"C\" function aborts the process and is observed through the child's exit status");
    crate::engine::quiet_panics();
    let exe = asan_exe();
    if !std::path::Path::new(&exe).exists() {
        crate::engine::machinery(&format!("AddressSanitizer build missing: {exe} (the check script builds it)"));
    }
    let mjob = format!("machines-{}", tier.name());
    for job in ["paths", "nulls", mjob.as_str()] {
        let paths = paths_for(job, tier);
        let n = paths.len() as u64;
        run.note(&format!("job_{job}_cases"), json!(n));
        let describe = |ord: u64| -> J {
            let p = &paths[ord as usize];
            json!({"job": job, "path": p, "ops": ops_of(job, p).iter().map(|x| format!("{x:?}")).collect::<Vec<_>>()})
        };
        let chunk = (n / 32).max(64);
        let j = Job { prop: "C18", tier: tier.name(), job, n, chunk, env: asan_env(), exe: Some(exe.clone()), describe: &describe };
        let l = run_job(&j);
        run.absorb(l);
    }
    run.stats.states = transition_paths(depth, 3_000_000).1.len() as u64;
    run.exhaustive = run.counter("chunks-skipped-after-crashes") == 0;
    if run.stats.fails.is_empty() {
        run.require(run.counter("null-calls") > 1000, "null sweep too small");
        run.require(run.counter("long-error-calls") > 5000, "long error message sweep missing");
        run.require(run.counter("numeric-sweep-calls") > 1000, "numeric argument sweep missing");
        run.require(run.stats.transitions > 10_000, "too few histories");
    }
    run.stats.samples = vec![json!({"history": ["FilterParse(a)", "Make(0, Zinc(grid))", "Make(1, Init)", "MatchAll(0, 1)", "cleanup"]}), json!({"null_call": "haystack_value_get_dict_entry(h, NULL, &out)"})];
    run.finish(&replay)
}

/// replays go through a fresh AddressSanitizer child
pub fn replay(case: &J) -> Verdict {
    let job = case["job"].as_str().unwrap_or("paths");
    let path: Vec<String> = case["path"].as_array().map(|a| a.iter().map(|x| x.as_u64().unwrap().to_string()).collect()).unwrap_or_default();
    let jobname = format!("one:{job}:{}", path.join(","));
    let c2 = case.clone();
    let d = move |_o: u64| c2.clone();
    let j = Job { prop: "C18", tier: "thorough", job: &jobname, n: 1, chunk: 1, env: asan_env(), exe: Some(asan_exe()), describe: &d };
    let l = run_job(&j);
    match l.fails.values().next() {
        Some(f) => Err((f.sig.clone(), if f.sig.starts_with("crash") || f.sig == "hang" || f.sig.starts_with("asan:") { f.sig.clone() } else { f.detail.clone() })),
        None => Ok(()),
    }
}
