mod engine;
mod model;
mod props;

use engine::{machinery, replay_file, Tier};

fn usage() -> ! {
    eprintln!("usage: hsmc <Cxx> <quick|thorough> | hsmc <Cxx> --replay <file>");
    std::process::exit(2)
}

macro_rules! dispatch {
    ($prop:expr, $args:expr, $( $id:literal => $m:ident ),* $(,)?) => {
        match $prop {
            $( $id => {
                if $args.get(1).map(|s| s.as_str()) == Some("--replay") {
                    let path = $args.get(2).unwrap_or_else(|| usage());
                    engine::quiet_panics();
                    replay_file($id, path, &props::$m::replay)
                } else {
                    let tier = match $args.get(1).map(|s| s.as_str()) {
                        Some("quick") => Tier::Quick,
                        Some("thorough") => Tier::Thorough,
                        _ => usage(),
                    };
                    props::$m::run(tier)
                }
            } )*
            other => machinery(&format!("unknown property {other}")),
        }
    };
}

fn main() {
    let args: Vec<String> = std::env::args().skip(1).collect();
    if args.is_empty() {
        usage();
    }
    if args[0] == "__count" {
        for t in [Tier::Quick, Tier::Thorough] {
            let s = model::universe::scalars(t);
            let mut n = 0u64;
            let shards = model::universe::container_shards(t);
            for sh in &shards {
                sh(&mut |_| n += 1);
            }
            println!("{:?}: scalars={} shards={} containers={}", t, s.len(), shards.len(), n);
        }
        println!("in-model zones: {}", model::time_ref::in_model_zones().len());
        return;
    }
    if args[0] == "__c14probe" {
        props::c14::probe();
        return;
    }
    if args[0] == "__child" {
        // hsmc __child <prop> <tier> <job> <start> <end> <step>
        let prop = args[1].clone();
        let tier = if args[2] == "quick" { Tier::Quick } else { Tier::Thorough };
        let job = args[3].clone();
        let start: u64 = args[4].parse().unwrap();
        let end: u64 = args[5].parse().unwrap();
        let step = args[6] == "1";
        match prop.as_str() {
            "C03" => {
                let (hang, mem, stack) = props::c03::child_params(&job);
                engine::isolate::child_main(start, end, step, hang, mem, stack, move |s, e, ctx, local| {
                    props::c03::child(tier, job, s, e, ctx, local)
                })
            }
            "C09" => {
                let (hang, mem, stack) = props::c09::child_params(&job);
                engine::isolate::child_main(start, end, step, hang, mem, stack, move |s, e, ctx, local| {
                    props::c09::child(tier, job, s, e, ctx, local)
                })
            }
            "C08" => engine::isolate::child_main(start, end, step, 30, 6 << 30, 2 << 20, move |s, e, ctx, local| {
                props::c08::child(tier, job, s, e, ctx, local)
            }),
            "C14" => engine::isolate::child_main(start, end, step, 120, 8 << 30, 16 << 20, move |s, e, ctx, local| {
                props::c14::child(tier, job, s, e, ctx, local)
            }),
            "C18" => engine::isolate::child_main(start, end, step, 60, 0, 16 << 20, move |s, e, ctx, local| {
                props::c18::child(tier, job, s, e, ctx, local)
            }),
            other => machinery(&format!("no child entry for {other}")),
        }
    }
    let code = dispatch!(args[0].as_str(), args,
        "C01" => c01,
        "C02" => c02,
        "C03" => c03,
        "C04" => c04,
        "C05" => c05,
        "C06" => c06,
        "C07" => c07,
        "C08" => c08,
        "C09" => c09,
        "C10" => c10,
        "C11" => c11,
        "C12" => c12,
        "C13" => c13,
        "C14" => c14,
        "C15" => c15,
        "C16" => c16,
        "C17" => c17,
        "C18" => c18,
        "C19" => c19,
        "C20" => c20,
    );
    std::process::exit(code)
}
