#!/bin/bash
# seed_regression.sh: apply every kept seeded change to the repository in turn, run the quick tier of the
# first check listed under caught_by in its meta.json, and confirm that it reports a VIOLATION; the change is
# undone straight afterwards. Summary in seeded/regression.txt. The repository must be clean and idle.
# REG_FILTER (default C*-r*) is a glob over the seed directories, e.g. "C*-r6" or "C14-r*".
# REG_REPO (default /repo) names the repository copy to patch; with another copy (a scratch worktree) the
# harness of this directory must depend on that copy (harness/Cargo.toml path) and VERIF_REPO is exported.
set -u
here="$(cd "$(dirname "$0")/.." && pwd)"
cd "$here" || exit 2
repo="${REG_REPO:-/repo}"
export VERIF_REPO="$repo"
out=seeded/regression.txt; : > $out
for d in seeded/${REG_FILTER:-C*-r*}/; do
  id=$(basename $d)
  chk=$(python3 -c "import json;print(json.load(open('$d/meta.json'))['caught_by'][0])")
  if [ -n "$(git -C "$repo" status --porcelain)" ]; then echo "$repo not clean"; exit 2; fi
  git -C "$repo" apply "$here/${d%/}/patch.diff" || { echo "$id PATCH-DOES-NOT-APPLY" >> $out; continue; }
  res=$(timeout 3000 ./check $chk quick 2>&1)
  git -C "$repo" checkout -- .
  n=$(echo "$res" | grep -c "^VIOLATION")
  sig=$(echo "$res" | grep -m1 "signature:" | cut -c1-120)
  if [ "$n" -gt 0 ]; then echo "$id $chk DETECTED $sig" >> $out; else echo "$id $chk MISSED $(echo "$res" | tail -1 | cut -c1-160)" >> $out; fi
done
echo "total $(grep -c . $out) detected $(grep -c DETECTED $out) missed $(grep -c MISSED $out)" >> $out
tail -1 $out
