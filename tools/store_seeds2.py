#!/usr/bin/env python3
"""store_seeds2.py <seed-root> <verif-dir>: file the round-2 seeded changes (two per property, A and B)
under <verif-dir>/seeded/<id>-r2a|r2b/ (patch.diff, demo/seed_demo.rs, meta.json)."""
import json, os, shutil, sys
root, verif = sys.argv[1], sys.argv[2]
# id+letter -> (one line, checks run, caught by, strengthening needed (None = no), note)
T = {
 "C01A": ("Zinc grid encoder writes an explicit Null cell after column 0 as an empty cell", ["C01", "C04"], ["C01", "C04"], None),
 "C01B": ("zone short name taken after the last '/' (three-segment zones America/Argentina/...)", ["C01", "C06"], ["C01", "C06"], None),
 "C02A": ("Hayson integer fast path extended to |x| <= 2^64: negative whole numbers below -2^63 saturate", ["C02"], ["C02"], "number alphabet lacked magnitudes between 2^63 and 2^64 and around 9e15; 16 boundary numbers added to the alphabet"),
 "C02B": ("Hayson grid with non-default ver and present-but-empty meta: wrong map length hint gives invalid JSON text", ["C02"], ["C02"], "universe had only ver 3.0 grids; added the ver-variants shard (ver x 4 meta variants x 3 shapes x 5 nestings) and made grid ver a compared component in C01/C02"),
 "C03A": ("Zinc timestamp offset copied unchecked: non-ASCII byte in the offset slices inside a character and panics", ["C03"], ["C03"], None),
 "C03B": ("Zinc lexer treats form feed as a blank that the scanner does not consume: endless loop", ["C03"], ["C03"], None),
 "C04A": ("nested grid start demands a newline straight after '<<' (foreign spelling '<<ver:' rejected)", ["C04", "C11"], ["C04"], None),
 "C04B": ("list elements written with to_zinc: a grid element of a list loses its << >>", ["C04", "C01"], ["C04", "C01"], None),
 "C05A": ("Hayson non-finite number translated in the member loop only once _kind has been seen: {val:INF,_kind:number} rejected", ["C05"], ["C05"], None),
 "C05B": ("Hayson grid with non-default ver and absent meta loses its ver", ["C05", "C02"], ["C05", "C02"], "as C02B (ver variants); C05 direction 1 now demands meta.ver whenever the grid ver is not the default"),
 "C06A": ("is_utc() true for every zero offset: London in winter written as bare Z and read back as UTC", ["C06", "C01", "C02"], ["C06", "C01", "C02"], None),
 "C06B": ("Hayson decoder re-resolves the wall-clock time in the named zone with earliest(): second occurrence of the repeated hour moves by the DST shift", ["C06", "C02", "C05"], ["C06", "C02", "C05"], None),
 "C07A": ("path resolution stops at a non-dict intermediate value and returns it instead of Null", ["C07"], ["C07"], None),
 "C07B": ("Ref ordering tie-breaks on the display name while equality ignores it", ["C07", "C12"], ["C07", "C12"], None),
 "C08A": ("filter parser collapses directly nested parentheses ((x)) into one group", ["C08"], ["C08"], None),
 "C08B": ("no line break allowed after the second and later '->' of a path", ["C08"], ["C08"], None),
 "C09A": ("has_relationship recursive with a per-call visited set: cyclic refs overflow the stack", ["C09"], ["C09"], None),
 "C09B": ("filter lexer treats form feed as white space the scanner does not consume: endless loop", ["C09"], ["C09"], None),
 "C10A": ("Zinc encoder refuses an empty Ref id; Display/dis turn the error into a panic", ["C10"], ["C10"], None),
 "C10B": ("Zinc grid encoder indexes a column map with row keys: a row tag that is no column panics", ["C10"], ["C10"], None),
 "C11A": ("Zinc decoder drops an explicit N cell: in a one-column grid the row becomes empty and vanishes on re-encode", ["C11", "C04"], ["C04", "C11"], "C11 filed every failure under the recorded finding (empty row of a one-column grid); the matcher now applies only when the input has a separator-only line, any other spelling reaching that state is a violation (C04 caught the change from the start)"),
 "C11B": ("Scanner::peek_many reads the MM-DD look-ahead with one read(): a short read makes a date a bad number", ["C11", "C03"], ["C11"], None),
 "C12A": ("Dict::cmp orders by length first while partial_cmp orders by keys first", ["C12"], ["C12"], None),
 "C12B": ("hand-written Grid::eq forgets ver while Hash and Ord keep it", ["C12"], ["C12"], None),
 "C13A": ("all_supertypes_of skips a def's supertype list when its first supertype was already visited (diamonds)", ["C13"], ["C13"], None),
 "C13B": ("reflect counts any non-null tag as a conjunct part instead of markers only", ["C13"], ["C13"], None),
 "C14A": ("all_supertypes_of answers from the inheritance cache when present (entry includes the def itself)", ["C14"], ["C14"], None),
 "C14B": ("inheritance publishes a one-element placeholder before the full answer", ["C14"], ["C14"], None),
 "C15A": ("Zinc unit characters: UTF-8 lead byte 0xE0 left out (baht, taka)", ["C15", "C04"], ["C15"], None),
 "C15B": ("aliases F and C added to fahrenheit/celsius collide with farad/coulomb", ["C15"], ["C15"], None),
 "C16A": ("convert_to returns the scalar unchanged when scales are equal, dropping the offset (degC to K)", ["C16"], ["C16"], None),
 "C16B": ("unit division falls back to a <a>_per_<b> name lookup that ignores the scale", ["C16"], ["C16"], None),
 "C17A": ("grid row getter rebuilds the row by zipping sorted columns with the row's values: sparse rows shift", ["C17"], ["C17"], None),
 "C17B": ("dict keys getter extends a result handle that already holds a list", ["C17"], ["C17"], None),
 "C18A": ("grid row getter ptr::write()s into the result handle: the previous value leaks", ["C18"], ["C18"], None),
 "C18B": ("list entry getter dereferences a null result pointer when the index is valid", ["C18"], ["C18"], None),
 "C19A": ("make_from_dicts skips a record with the same size, first and last key as the previous one: a middle column is lost", ["C19"], ["C19"], "record universe had keys over {a,b,c} only; now every key set over {a,b,c,d} (19 records), lists up to 3 (thorough 4)"),
 "C19B": ("HaystackKind Display via lower-cased Debug: 'datetime' instead of 'dateTime'", ["C19"], ["C19"], None),
 "C20A": ("a disKey that is not a Str no longer counts as present", ["C20"], ["C20"], "every display tag had two values and disKey's were both Str; now three values per tag of three kinds (4^8 records)"),
 "C20B": ("one regex for $tag and ${tag} with independent optional braces: unbalanced braces substituted or swallowed", ["C20"], ["C20"], None),
}
extra = json.load(open(os.path.join(verif, "tools", "seeds2_extra.json"))) if os.path.exists(os.path.join(verif, "tools", "seeds2_extra.json")) else {}
for key, row in sorted(T.items()):
    if key in extra:
        row = tuple(extra[key])
    if row is None:
        continue
    prop, x = key[:3], key[3]
    src = os.path.join(root, prop)
    dst = os.path.join(verif, "seeded", f"{prop}-r2{x.lower()}")
    os.makedirs(os.path.join(dst, "demo"), exist_ok=True)
    shutil.copy(os.path.join(src, f"patch{x}.diff"), os.path.join(dst, "patch.diff"))
    shutil.copy(os.path.join(src, f"demo{x}", "seed_demo.rs"), os.path.join(dst, "demo", "seed_demo.rs"))
    am = json.load(open(os.path.join(src, "meta.json"))).get(x, {})
    one, run, caught, strengthened = row
    meta = {
        "property": prop, "round": 2, "variant": x, "one_line": one,
        "summary": am.get("summary"), "needs_to_manifest": am.get("needs_to_manifest"), "agent_verified": am.get("verified"),
        "confirmed_by_me": "tools/verify_seed2.sh in the agent's scratch worktree: patch applies to /repo HEAD; with only this change the 365-test suite passes and demo/seed_demo.rs fails; with the change reverted the demo passes",
        "checks_run": [f"./check {c} quick (patch applied with git apply, undone with git checkout afterwards)" for c in run],
        "caught_by": caught, "needed_strengthening": bool(strengthened),
    }
    if strengthened:
        meta["strengthening"] = strengthened
    json.dump(meta, open(os.path.join(dst, "meta.json"), "w"), indent=1, ensure_ascii=False)
    print("stored", dst)
