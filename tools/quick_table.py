#!/usr/bin/env python3
"""quick_table.py [dir]: markdown table of what the last run of every check covered (from evidence/*.json)."""
import json, sys, os
d = sys.argv[1] if len(sys.argv) > 1 else os.path.join(os.path.dirname(os.path.dirname(os.path.abspath(__file__))), "evidence")
print("| id | level | tier | evaluations | distinct non-trivial | states | transitions | outcomes | known | wall |")
print("|---|---|---|---|---|---|---|---|---|---|")
for i in range(1, 21):
    p = os.path.join(d, f"C{i:02d}.json")
    if not os.path.exists(p):
        continue
    e = json.load(open(p)); c = e["coverage"]
    f = lambda n: f"{n:,}".replace(",", " ")
    print(f"| C{i:02d} | {e['level'].replace('_', ' ')} | {e['tier']} | {f(c['evaluations'])} | {f(c['distinct_nontrivial'])} | {f(c.get('states', 0))} | {f(c.get('transitions', 0))} | {c['distinct_outcomes']} | {c['known_finding_hits']} | {e['wall_s']:.1f} s |")
