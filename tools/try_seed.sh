#!/bin/bash
# try_seed.sh <patch.diff> <check>...: apply a seeded change to /repo, run the given quick checks, undo
set -u
P="$1"; shift
cd /repo || exit 2
if [ -n "$(git status --porcelain)" ]; then echo "/repo not clean"; exit 2; fi
git apply "$P" || { echo "patch does not apply"; exit 2; }
cd /verif
for c in "$@"; do
  tier=quick; id="$c"
  case "$c" in *:thorough) tier=thorough; id="${c%%:*}";; esac
  echo "=== $id $tier"
  timeout 3000 ./check "$id" "$tier" 2>&1 | grep -E '^VIOLATION|signature|detail|^OK|^C[0-9]+ |MACHINERY|KNOWN' | cut -c1-260 | head -14
done
git -C /repo checkout -- . ; git -C /repo status --short
