#!/bin/bash
# verify_seed.sh <worktree>: confirm an agent's claims in its own scratch worktree
# (change applied: suite passes, demo fails; change reverted: demo passes)
# NB: never use git stash here: the stash is shared by all worktrees of /repo.
set -u
W="$1"; cd "$W" || exit 2
export CARGO_TARGET_DIR="$W/target" CARGO_NET_OFFLINE=true
git checkout -q -- src Cargo.toml; git apply patch.diff || { echo "patch.diff does not apply to HEAD"; exit 2; }
echo "== suite with change"; timeout 900 cargo nextest run --workspace --no-fail-fast --test-threads 8 --offline 2>&1 | tail -2
cp demo/seed_demo.rs tests/seed_demo.rs
echo "== demo with change (must fail)"; timeout 900 cargo test --offline --test seed_demo 2>&1 | grep -E '^test result|FAILED|error(\[|:)|timed out|signal' | head -6
git apply -R patch.diff
echo "== demo without change (must pass)"; timeout 900 cargo test --offline --test seed_demo 2>&1 | grep -E '^test result|error(\[|:)' | head -3
git apply patch.diff
rm -f tests/seed_demo.rs
