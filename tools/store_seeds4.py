#!/usr/bin/env python3
"""store_seeds4.py <seed-root> <verif-dir>: file the round-4 seeded changes (adversarial; the agents were told
the generic scope of the checker after round 3 and asked for mechanisms outside it)."""
import json, os, shutil, sys
root, verif = sys.argv[1], sys.argv[2]
T = {
 "C01": ("Zinc decoder re-resolves the wall clock in the named zone with earliest(): second pass of the repeated hour", ["C01", "C06"], None),
 "C02": ("Hayson grid decoder applies a column's `unit` meta (a Str naming a unit) to unit-less Number cells", ["C02", "C05"], "member-named tags had values without meaning for the member; the member-name family now has strings that mean something to the member (kW, New_York, number, 2.0) and a Number cell in the column"),
 "C03": ("stale offset + zone: wall clock re-resolved with LocalResult::unwrap(): a time in the skipped hour panics", ["C03", "C06"], "added ~1000 timestamp texts whose wall clock lies in or next to the skipped / repeated hour of 18 zones with agreeing and disagreeing offsets (Zinc, Hayson, filters; C06 also checks the instant when the offset agrees)"),
 "C04": ("nesting depth restored to the value captured after enter_nested(): every nested grid leaks one level; 127+ sibling nested grids are 'too deep'", ["C04", "C01"], "C01 caught it after the sibling-container size witnesses were added (lists of n grids / lists / dicts, a grid with n nested-grid cells, every n 5..72 …); C04 now runs the size witnesses in both directions"),
 "C05": ("dateTime rejected when the offset in val is not the zone's offset (val in UTC + tz, as JS writers emit)", ["C05"], "added the choice point val-in-utc to the reference Hayson writer (and `…Z City` to the Zinc one); the reference readers take the instant from val and the offset from the zone"),
 "C06": ("per-document memo of the last zone's offset in the Zinc decoder: a later timestamp of the same zone on the other side of a DST change", ["C06"], "timestamps went through the codecs one per document; now every ordered pair of 6 instants (both sides of both 2021 transitions) per zone, and pairs of zones, in ONE document (list + two grid rows), library text and reference text; C01/C02 likewise for all ordered pairs of the 400-value pool"),
 "C07": ("Unit::eq by dimension + scale + offset: 5kW == 5kVA, all currencies equal", ["C07", "C12", "C15"], "C12 reported it at once; C07 now compares nine unit-carrying literals with the same magnitude under EVERY database unit (== / !=, bare and in a list); C15 checks that two different database entries never compare equal"),
 "C08": ("paren depth decremented only on error: 129+ flat parenthesised groups rejected", ["C08"], "added long chains: n flat groups / n leaves / n and-in-or terms / nesting n deep for every n 1..72, 100, 120, 126..130, 255..257, 1000 (printed by the library and by the reference printer)"),
 "C09": ("WildcardEq loop spins when the resolver answers a dangling id with an EMPTY record", ["C09", "C07"], "resolvers answered unknown ids with nothing only; now four behaviours (nothing, empty record, record without ref tags, record pointing back at the same id) in C09 and three in C07's ref worlds"),
 "C10": ("Zinc encoder refuses dates outside years 0..9999; Display turns the error into a panic of to_string()", ["C10"], None),
 "C11": ("RowIterator::nth overridden with a row skipper that stops at the first newline: skip()/step_by() over rows with nested grids", ["C11"], "the lazy iterator was only driven through next(); now nth, skip, step_by, take, last, count, size_hint on the laziness documents and on grids with nested grid / list / dict cells; chunk sizes 1..17 and around powers of two"),
 "C12": ("hand-written Dict::eq fast path: dicts with Symbol `def` and `lib` equal iff those two match", ["C12"], "added the named-tag laws: for every pair of identifier-like string literals harvested from the library's own source at run time, dicts carrying those tags (all value kinds, same and different) and differing in a third tag must be unequal — the change's own literals enter the alphabet"),
 "C13": ("subtypes index built per grid row: a def defined twice (re-parented by a later row) stays listed under its old supertype", ["C13"], "every taxonomy had one row per symbol; added re-defined and re-parented defs, identical rows twice, a supertype listed twice, rows in reverse order"),
 "C14": ("memo of computed associations keyed by the parent only: tags(x) then quantities(x)", ["C14"], "the history search identifies states by the two caches' snapshots and had one computed association; now 22 defs with two computed associations, association queries, and every ordered PAIR of the 40 queries (thorough: triple) from the cold namespace regardless of snapshots, plus each query after 12 repetitions of every other"),
 "C15": ("scanner remembers the last unit text: a unit that is a byte-prefix of the previous one in the same document resolves to the previous unit", ["C15"], "every document had one unit; now ALL ordered pairs of the ~950 identifiers as two numbers in one document (list and dict)"),
 "C16": ("convert_to 'overflow guard' refuses non-finite results: INF and NaN no longer convert", ["C16"], "magnitudes were finite; ±INF and NaN now go through convert_to for all ordered pairs"),
 "C17": ("make_tz_datetime asks has_last_error() instead of testing the inner call's result: fails when an earlier, unfetched error is pending", ["C17"], "the executor drained the error slot after every call; now every machine history and every history of <= 3 calls runs a second time with a caller that never fetches the message, the search state includes 'a message is pending', and a date + time machine exists"),
 "C18": ("push_list_entry reserves before cloning: a borrowed entry pointer of the same list dangles (use after free)", ["C18", "C17"], "borrowed pointers were dereferenced by the harness only; the borrow sweep now feeds them back (40 rounds of push / insert with pointers borrowed from the same list / dict, past several capacities) and re-reads all borrowed pointers after every read-only call; returned strings are destroyed one by one"),
 "C19": ("columns collected in blocks of 64 rows, appended without re-sorting", ["C19"], "lists had <= 4 records; now every length 1..72, 100, 127..129, 255..257, 1000 in four shapes (late columns sorting before / between / after, descending discovery, widest record in the middle, rotating key set)"),
 "C20": ("an empty `dis` string no longer counts as present", ["C20"], "each display tag had three non-empty values; now a fourth: present but empty (5^8 records)"),
}
for prop, (one, caught, strengthened) in sorted(T.items()):
    src = os.path.join(root, prop)
    dst = os.path.join(verif, "seeded", f"{prop}-r4")
    os.makedirs(os.path.join(dst, "demo"), exist_ok=True)
    shutil.copy(os.path.join(src, "patch.diff"), os.path.join(dst, "patch.diff"))
    shutil.copy(os.path.join(src, "demo", "seed_demo.rs"), os.path.join(dst, "demo", "seed_demo.rs"))
    am = json.load(open(os.path.join(src, "meta.json")))
    meta = {
        "property": prop, "round": 4, "one_line": one,
        "brief": "round 4 (adversarial): the agent was told the generic scope of the checker as of round 3 and asked for a mechanism outside it",
        "summary": am.get("summary"), "needs_to_manifest": am.get("needs_to_manifest"), "why_the_checker_might_miss_it": am.get("why_the_checker_might_miss_it"), "agent_verified": am.get("verified"),
        "confirmed_by_me": "tools/verify_seed.sh in the agent's scratch worktree: patch applies to /repo HEAD; with the change the 365-test suite passes and demo/seed_demo.rs fails; with the change reverted the demo passes",
        "checks_run": [f"./check {c} quick" for c in caught],
        "caught_by": caught, "needed_strengthening": bool(strengthened),
    }
    if strengthened:
        meta["strengthening"] = strengthened
    json.dump(meta, open(os.path.join(dst, "meta.json"), "w"), indent=1, ensure_ascii=False)
    print("stored", dst)
