#!/bin/bash
# verify_seed2.sh <worktree> <A|B>: confirm one of an agent's two changes in its own scratch worktree
# (change applied: suite passes, demo fails; change reverted: demo passes). Never uses git stash.
set -u
W="$1"; X="$2"; cd "$W" || exit 2
export CARGO_TARGET_DIR="$W/target" CARGO_NET_OFFLINE=true
git checkout -q -- . ; rm -f tests/seed_demo.rs
git apply "patch$X.diff" || { echo "patch$X.diff does not apply to HEAD"; exit 2; }
echo "== suite with change $X"; timeout 1200 cargo nextest run --workspace --no-fail-fast --test-threads 8 --offline 2>&1 | tail -2
cp "demo$X/seed_demo.rs" tests/seed_demo.rs
echo "== demo with change (must fail)"; timeout 1200 cargo test --offline --test seed_demo 2>&1 | grep -E '^test result|FAILED|error(\[|:)|timed out|signal' | head -6
git apply -R "patch$X.diff"
echo "== demo without change (must pass)"; timeout 1200 cargo test --offline --test seed_demo 2>&1 | grep -E '^test result|error(\[|:)' | head -3
rm -f tests/seed_demo.rs
git checkout -q -- .
